// e2facts — libTooling fact extractor for the /verif static analyses.
//
// For one translation unit of e2fsprogs it writes a JSON file with
//   * every function defined in (or used by) the unit: its clang::CFG (blocks, ordered
//     events CALL/STORE/RETURN, terminator condition, successor edges, case labels),
//   * every file-scope variable with an initialiser (vtables, tables of rows),
//   * the layout (size, field offsets) of every record defined under the repository,
//   * address-taken functions.
// Expressions are emitted as small trees over *resolved* entities (declarations,
// record fields, evaluated constants, macro spellings) — never as text to be matched.
//
// usage: e2facts <source.c> --out=<file.json> --root=/repo -- <compile flags>

#include "clang/AST/ASTConsumer.h"
#include "clang/AST/ASTContext.h"
#include "clang/AST/RecordLayout.h"
#include "clang/AST/RecursiveASTVisitor.h"
#include "clang/Analysis/CFG.h"
#include "clang/Frontend/CompilerInstance.h"
#include "clang/Frontend/FrontendAction.h"
#include "clang/Lex/Lexer.h"
#include "clang/Tooling/CommonOptionsParser.h"
#include "clang/Tooling/Tooling.h"
#include "llvm/Support/CommandLine.h"
#include "llvm/Support/JSON.h"
#include "llvm/Support/raw_ostream.h"
#include <map>
#include <set>
#include <string>

using namespace clang;
using namespace clang::tooling;
namespace json = llvm::json;

static llvm::cl::OptionCategory Cat("e2facts options");
static llvm::cl::opt<std::string> OutFile("out", llvm::cl::desc("output json"),
                                          llvm::cl::cat(Cat), llvm::cl::Required);
static llvm::cl::opt<std::string> Root("root", llvm::cl::desc("repository root"),
                                       llvm::cl::cat(Cat), llvm::cl::init("/repo"));

namespace {

class Extractor {
  ASTContext &Ctx;
  SourceManager &SM;
  const LangOptions &LO;
  std::string RootDir;
  std::map<const Stmt *, int> StmtIds;
  int NextId = 0;
  std::set<std::string> AddrTaken;

public:
  Extractor(ASTContext &C, std::string R)
      : Ctx(C), SM(C.getSourceManager()), LO(C.getLangOpts()), RootDir(std::move(R)) {
    if (!RootDir.empty() && RootDir.back() != '/')
      RootDir += '/';
  }

  // ---------------------------------------------------------------- locations
  std::string relFile(SourceLocation L) {
    L = SM.getExpansionLoc(L);
    if (L.isInvalid())
      return "";
    const FileEntry *FE = SM.getFileEntryForID(SM.getFileID(L));
    if (!FE)
      return "";
    llvm::SmallString<256> P(FE->tryGetRealPathName());
    if (P.empty())
      P = FE->getName();
    std::string S = P.str().str();
    if (S.compare(0, RootDir.size(), RootDir) == 0)
      return S.substr(RootDir.size());
    return S;
  }
  bool inRepo(SourceLocation L) {
    std::string F = relFile(L);
    return !F.empty() && F[0] != '/';
  }
  unsigned line(SourceLocation L) { return SM.getExpansionLineNumber(L); }

  // macro names: immediate and outermost macro whose *body* produced the token at L
  void macroNames(SourceLocation L, std::string &Imm, std::string &Outer) {
    Imm.clear();
    Outer.clear();
    int guard = 0;
    while (L.isMacroID() && guard++ < 64) {
      if (SM.isMacroArgExpansion(L)) {
        L = SM.getImmediateSpellingLoc(L);
        continue;
      }
      // L is in a macro body
      FileID FID = SM.getFileID(L);
      const SrcMgr::SLocEntry &E = SM.getSLocEntry(FID);
      if (!E.isExpansion())
        break;
      SourceLocation ExpStart = E.getExpansion().getExpansionLocStart();
      // name of the macro is the token at the expansion start (spelled)
      SourceLocation NameLoc = ExpStart;
      while (NameLoc.isMacroID() && SM.isMacroArgExpansion(NameLoc))
        NameLoc = SM.getImmediateSpellingLoc(NameLoc);
      SourceLocation Sp = SM.getSpellingLoc(NameLoc);
      std::pair<FileID, unsigned> Info = SM.getDecomposedLoc(Sp);
      bool Invalid = false;
      StringRef Buf = SM.getBufferData(Info.first, &Invalid);
      std::string Name;
      if (!Invalid) {
        unsigned Len = Lexer::MeasureTokenLength(Sp, SM, LO);
        Name = Buf.substr(Info.second, Len).str();
      }
      if (Imm.empty())
        Imm = Name;
      Outer = Name;
      L = ExpStart;
    }
  }

  std::string text(SourceRange R, unsigned Max = 240) {
    if (R.isInvalid())
      return "";
    CharSourceRange CR =
        Lexer::makeFileCharRange(CharSourceRange::getTokenRange(R), SM, LO);
    if (CR.isInvalid())
      CR = CharSourceRange::getTokenRange(SM.getExpansionRange(R).getAsRange());
    bool Invalid = false;
    StringRef T = Lexer::getSourceText(CR, SM, LO, &Invalid);
    if (Invalid)
      return "";
    std::string S;
    bool sp = false;
    for (char c : T) {
      if (c == '\n' || c == '\t' || c == ' ' || c == '\\' || c == '\r') {
        sp = true;
        continue;
      }
      if (sp && !S.empty())
        S += ' ';
      sp = false;
      S += c;
      if (S.size() >= Max) {
        S += "...";
        break;
      }
    }
    return S;
  }

  std::string recName(const RecordDecl *RD) {
    if (!RD)
      return "";
    if (RD->getIdentifier())
      return RD->getName().str();
    if (const TypedefNameDecl *TD = RD->getTypedefNameForAnonDecl())
      return TD->getName().str();
    // anonymous member struct/union: name after the enclosing record
    if (const RecordDecl *P = dyn_cast_or_null<RecordDecl>(RD->getParent())) {
      std::string PN = recName(P);
      if (!PN.empty())
        return PN + "::<anon>";
    }
    return "<anon@" + relFile(RD->getLocation()) + ":" +
           std::to_string(line(RD->getLocation())) + ">";
  }

  std::string typeStr(QualType T) { return T.getAsString(); }

  int idOf(const Stmt *S) {
    auto It = StmtIds.find(S);
    if (It != StmtIds.end())
      return It->second;
    int Id = NextId++;
    StmtIds[S] = Id;
    return Id;
  }

  // pointee record of an expression type, if any
  std::string recordOfType(QualType T) {
    T = T.getCanonicalType();
    while (T->isPointerType() || T->isArrayType()) {
      if (T->isPointerType())
        T = T->getPointeeType().getCanonicalType();
      else
        T = QualType(T->getPointeeOrArrayElementType(), 0).getCanonicalType();
    }
    if (const RecordType *RT = T->getAs<RecordType>())
      return recName(RT->getDecl());
    return "";
  }

  // ---------------------------------------------------------------- expressions
  bool tryConst(const Expr *E, int64_t &V) {
    if (!E || E->isValueDependent())
      return false;
    QualType T = E->getType();
    if (T.isNull() || !(T->isIntegralOrEnumerationType()))
      return false;
    Expr::EvalResult R;
    if (!E->EvaluateAsInt(R, Ctx, Expr::SE_NoSideEffects))
      return false;
    if (R.HasSideEffects)
      return false;
    llvm::APSInt I = R.Val.getInt();
    if (I.isUnsigned())
      V = (int64_t)I.getZExtValue();
    else
      V = I.getSExtValue();
    return true;
  }

  void addMacro(json::Object &O, SourceLocation L) {
    if (!L.isMacroID())
      return;
    std::string Imm, Outer;
    macroNames(L, Imm, Outer);
    if (!Imm.empty())
      O["m"] = Imm;
    if (!Outer.empty() && Outer != Imm)
      O["om"] = Outer;
  }

  json::Value ex(const Expr *E, int Depth = 0) {
    json::Object O;
    if (!E) {
      O["k"] = "o";
      return json::Value(std::move(O));
    }
    if (Depth > 60) {
      O["k"] = "o";
      O["cls"] = "deep";
      return json::Value(std::move(O));
    }
    // look through parens / implicit casts / full-expression wrappers
    while (true) {
      const Expr *N = E->IgnoreParenImpCasts();
      if (auto *FE = dyn_cast<FullExpr>(N))
        N = FE->getSubExpr();
      if (auto *OVE = dyn_cast<OpaqueValueExpr>(N))
        if (OVE->getSourceExpr())
          N = OVE->getSourceExpr();
      if (N == E)
        break;
      E = N;
    }
    int64_t CV;
    bool IsConst = false;
    // literals and enum constants
    if (auto *IL = dyn_cast<IntegerLiteral>(E)) {
      O["k"] = "i";
      llvm::APInt V = IL->getValue();
      O["c"] = IL->getType()->isUnsignedIntegerType() ? (int64_t)V.getZExtValue()
                                                      : V.getSExtValue();
      addMacro(O, IL->getLocation());
      return json::Value(std::move(O));
    }
    if (auto *CL = dyn_cast<CharacterLiteral>(E)) {
      O["k"] = "i";
      O["c"] = (int64_t)CL->getValue();
      O["ch"] = true;
      addMacro(O, CL->getLocation());
      return json::Value(std::move(O));
    }
    if (auto *SL = dyn_cast<StringLiteral>(E)) {
      O["k"] = "s";
      if (SL->getCharByteWidth() == 1) {
        std::string S = SL->getString().str();
        if (S.size() > 200)
          S.resize(200);
        O["v"] = json::fixUTF8(S);
      }
      return json::Value(std::move(O));
    }
    IsConst = tryConst(E, CV);

    if (auto *DR = dyn_cast<DeclRefExpr>(E)) {
      const ValueDecl *D = DR->getDecl();
      if (auto *EC = dyn_cast<EnumConstantDecl>(D)) {
        O["k"] = "i";
        O["c"] = EC->getInitVal().getSExtValue();
        O["m"] = EC->getName().str();
        return json::Value(std::move(O));
      }
      if (auto *FD = dyn_cast<FunctionDecl>(D)) {
        O["k"] = "fn";
        O["n"] = FD->getName().str();
        return json::Value(std::move(O));
      }
      if (auto *VD = dyn_cast<VarDecl>(D)) {
        O["k"] = "v";
        O["n"] = VD->getName().str();
        const char *S = "l";
        if (isa<ParmVarDecl>(VD))
          S = "p";
        else if (VD->hasGlobalStorage())
          S = VD->isStaticLocal() ? "sl" : "g";
        O["s"] = S;
        O["t"] = typeStr(VD->getType());
        if (IsConst)
          O["c"] = CV;
        return json::Value(std::move(O));
      }
      O["k"] = "o";
      O["cls"] = "declref";
      return json::Value(std::move(O));
    }
    if (auto *ME = dyn_cast<MemberExpr>(E)) {
      O["k"] = "m";
      O["b"] = ex(ME->getBase(), Depth + 1);
      const ValueDecl *MD = ME->getMemberDecl();
      O["f"] = MD->getName().str();
      if (auto *FD = dyn_cast<FieldDecl>(MD))
        O["r"] = recName(FD->getParent());
      if (ME->isArrow())
        O["a"] = true;
      O["t"] = typeStr(MD->getType());
      return json::Value(std::move(O));
    }
    if (auto *CE = dyn_cast<CallExpr>(E)) {
      O["k"] = "c";
      O["id"] = idOf(CE);
      const Expr *Callee = CE->getCallee()->IgnoreParenImpCasts();
      // (*fp)(…) and fp(…) are the same
      while (auto *UO = dyn_cast<UnaryOperator>(Callee)) {
        if (UO->getOpcode() == UO_Deref || UO->getOpcode() == UO_AddrOf)
          Callee = UO->getSubExpr()->IgnoreParenImpCasts();
        else
          break;
      }
      if (const FunctionDecl *FD = CE->getDirectCallee()) {
        O["fn"] = FD->getName().str();
        if (FD->isNoReturn())
          O["nr"] = true;
        if (unsigned B = FD->getBuiltinID())
          O["bi"] = (int64_t)B;
      } else if (auto *ME = dyn_cast<MemberExpr>(Callee)) {
        json::Object Sl;
        if (auto *FD = dyn_cast<FieldDecl>(ME->getMemberDecl())) {
          Sl["r"] = recName(FD->getParent());
          Sl["f"] = FD->getName().str();
        }
        O["slot"] = std::move(Sl);
        O["via"] = ex(ME, Depth + 1);
      } else {
        O["via"] = ex(Callee, Depth + 1);
        O["sig"] = typeStr(Callee->getType().getCanonicalType());
      }
      json::Array A;
      for (const Expr *Arg : CE->arguments())
        A.push_back(ex(Arg, Depth + 1));
      O["a"] = std::move(A);
      {
        SourceLocation RP = CE->getRParenLoc();
        if (RP.isMacroID()) {
          std::string Imm, Outer;
          macroNames(RP, Imm, Outer);
          if (!Imm.empty())
            O["mac"] = Imm;
          if (!Outer.empty() && Outer != Imm)
            O["omac"] = Outer;
        }
      }
      return json::Value(std::move(O));
    }
    if (auto *UO = dyn_cast<UnaryOperator>(E)) {
      O["k"] = "u";
      O["o"] = UnaryOperator::getOpcodeStr(UO->getOpcode()).str();
      if (UO->isPostfix())
        O["post"] = true;
      O["e"] = ex(UO->getSubExpr(), Depth + 1);
      if (IsConst) {
        O["c"] = CV;
        addMacro(O, UO->getOperatorLoc());
      }
      return json::Value(std::move(O));
    }
    if (auto *BO = dyn_cast<BinaryOperator>(E)) {
      O["k"] = "b";
      O["o"] = BO->getOpcodeStr().str();
      O["l"] = ex(BO->getLHS(), Depth + 1);
      O["r"] = ex(BO->getRHS(), Depth + 1);
      // width facts for masking: an operand of & that is a complemented (~) unsigned value of a
      // narrower type, zero-extended to the width of the operation, clears the high bits too
      if (BO->getOpcode() == BO_And || BO->getOpcode() == BO_AndAssign) {
        QualType CT = BO->getType();
        if (auto *CA = dyn_cast<CompoundAssignOperator>(BO))
          CT = CA->getComputationResultType();
        if (!CT.isNull() && CT->isIntegerType()) {
          unsigned W = Ctx.getIntWidth(CT);
          O["w"] = (int64_t)W;
          const Expr *Ops[2] = {BO->getLHS(), BO->getRHS()};
          for (int i = 0; i < 2; i++) {
            const Expr *Op = Ops[i]->IgnoreParens();
            auto *IC = dyn_cast<ImplicitCastExpr>(Op);
            if (!IC || IC->getCastKind() != CK_IntegralCast)
              continue;
            const Expr *Sub = IC->getSubExpr()->IgnoreParens();
            QualType ST = Sub->getType();
            if (ST.isNull() || !ST->isUnsignedIntegerType() || Ctx.getIntWidth(ST) >= W)
              continue;
            if (auto *U = dyn_cast<UnaryOperator>(Sub))
              if (U->getOpcode() == UO_Not) {
                json::Object Z;
                Z["side"] = i == 0 ? "l" : "r";
                Z["from"] = (int64_t)Ctx.getIntWidth(ST);
                Z["to"] = (int64_t)W;
                int64_t Dummy;
                Z["const"] = tryConst(Sub, Dummy);
                Z["ot"] = typeStr(Ops[1 - i]->IgnoreParenImpCasts()->getType());
                O["zxnot"] = json::Value(std::move(Z));
              }
          }
        }
      }
      if (IsConst) {
        O["c"] = CV;
        addMacro(O, BO->getOperatorLoc());
      }
      return json::Value(std::move(O));
    }
    if (auto *CO = dyn_cast<AbstractConditionalOperator>(E)) {
      O["k"] = "?";
      O["c0"] = ex(CO->getCond(), Depth + 1);
      O["t"] = ex(CO->getTrueExpr(), Depth + 1);
      O["f"] = ex(CO->getFalseExpr(), Depth + 1);
      if (IsConst)
        O["c"] = CV;
      return json::Value(std::move(O));
    }
    if (auto *AS = dyn_cast<ArraySubscriptExpr>(E)) {
      O["k"] = "x";
      O["b"] = ex(AS->getBase(), Depth + 1);
      O["i"] = ex(AS->getIdx(), Depth + 1);
      return json::Value(std::move(O));
    }
    if (auto *CS = dyn_cast<ExplicitCastExpr>(E)) {
      O["k"] = "cast";
      O["t"] = typeStr(CS->getTypeAsWritten());
      O["e"] = ex(CS->getSubExpr(), Depth + 1);
      if (IsConst)
        O["c"] = CV;
      return json::Value(std::move(O));
    }
    if (auto *UE = dyn_cast<UnaryExprOrTypeTraitExpr>(E)) {
      O["k"] = "i";
      if (IsConst)
        O["c"] = CV;
      O["sz"] = UE->isArgumentType() ? typeStr(UE->getArgumentType())
                                     : typeStr(UE->getArgumentExpr()->getType());
      if (!UE->isArgumentType())
        O["sze"] = ex(UE->getArgumentExpr(), Depth + 1);
      addMacro(O, UE->getOperatorLoc());
      return json::Value(std::move(O));
    }
    if (auto *OE = dyn_cast<OffsetOfExpr>(E)) {
      O["k"] = "i";
      if (IsConst)
        O["c"] = CV;
      std::string P;
      for (unsigned i = 0; i < OE->getNumComponents(); i++) {
        const OffsetOfNode &N = OE->getComponent(i);
        if (N.getKind() == OffsetOfNode::Field) {
          if (!P.empty())
            P += ".";
          P += N.getField()->getName().str();
        }
      }
      O["off"] = P;
      O["offr"] = recordOfType(OE->getTypeSourceInfo()->getType());
      addMacro(O, OE->getOperatorLoc());
      return json::Value(std::move(O));
    }
    if (auto *IL = dyn_cast<InitListExpr>(E)) {
      return init(IL, Depth + 1);
    }
    if (auto *CL = dyn_cast<CompoundLiteralExpr>(E)) {
      return ex(CL->getInitializer(), Depth + 1);
    }
    if (auto *SE = dyn_cast<StmtExpr>(E)) {
      O["k"] = "se";
      // value of a statement expression is its last expression
      const CompoundStmt *CS = SE->getSubStmt();
      if (CS && !CS->body_empty())
        if (auto *Last = dyn_cast<Expr>(CS->body_back()))
          O["e"] = ex(Last, Depth + 1);
      return json::Value(std::move(O));
    }
    if (auto *VA = dyn_cast<VAArgExpr>(E)) {
      O["k"] = "o";
      O["cls"] = "va_arg";
      (void)VA;
      return json::Value(std::move(O));
    }
    O["k"] = "o";
    O["cls"] = E->getStmtClassName();
    if (IsConst)
      O["c"] = CV;
    return json::Value(std::move(O));
  }

  // initialiser trees of file-scope variables
  json::Value init(const Expr *E, int Depth = 0) {
    if (!E)
      return json::Value(nullptr);
    const Expr *S = E->IgnoreParenImpCasts();
    if (auto *ILsyn = dyn_cast<InitListExpr>(S)) {
      const InitListExpr *IL = ILsyn->isSemanticForm() || !ILsyn->getSemanticForm()
                                   ? ILsyn
                                   : ILsyn->getSemanticForm();
      json::Object O;
      QualType T = IL->getType().getCanonicalType();
      if (const RecordType *RT = T->getAs<RecordType>()) {
        const RecordDecl *RD = RT->getDecl();
        O["k"] = "rec";
        O["r"] = recName(RD);
        json::Object F;
        if (RD->isUnion()) {
          if (const FieldDecl *FD = IL->getInitializedFieldInUnion())
            if (IL->getNumInits() > 0)
              F[FD->getName().str()] = init(IL->getInit(0), Depth + 1);
        } else {
          unsigned i = 0;
          for (const FieldDecl *FD : RD->fields()) {
            if (FD->isUnnamedBitfield())
              continue;
            if (i >= IL->getNumInits())
              break;
            const Expr *I = IL->getInit(i++);
            if (isa<ImplicitValueInitExpr>(I))
              continue;
            F[FD->getName().str()] = init(I, Depth + 1);
          }
        }
        O["f"] = std::move(F);
        return json::Value(std::move(O));
      }
      if (T->isArrayType()) {
        O["k"] = "arr";
        json::Array A;
        unsigned N = IL->getNumInits();
        if (N > 70000) {
          O["skipped"] = (int64_t)N;
          return json::Value(std::move(O));
        }
        for (unsigned i = 0; i < N; i++)
          A.push_back(init(IL->getInit(i), Depth + 1));
        O["e"] = std::move(A);
        return json::Value(std::move(O));
      }
      if (IL->getNumInits() == 1)
        return init(IL->getInit(0), Depth + 1);
      O["k"] = "o";
      return json::Value(std::move(O));
    }
    if (isa<ImplicitValueInitExpr>(S)) {
      json::Object O;
      O["k"] = "i";
      O["c"] = 0;
      O["implicit"] = true;
      return json::Value(std::move(O));
    }
    return ex(E, Depth);
  }

  // ---------------------------------------------------------------- events
  void collectAddrTaken(const Stmt *S, bool CalleePos) {
    if (!S)
      return;
    if (auto *CE = dyn_cast<CallExpr>(S)) {
      collectAddrTaken(CE->getCallee(), true);
      for (const Expr *A : CE->arguments())
        collectAddrTaken(A, false);
      return;
    }
    if (auto *DR = dyn_cast<DeclRefExpr>(S)) {
      if (!CalleePos)
        if (auto *FD = dyn_cast<FunctionDecl>(DR->getDecl()))
          AddrTaken.insert(FD->getName().str());
      return;
    }
    bool Pass = CalleePos && (isa<ParenExpr>(S) || isa<ImplicitCastExpr>(S));
    for (const Stmt *C : S->children())
      collectAddrTaken(C, Pass);
  }

  bool eventFor(const Stmt *S, json::Object &Ev) {
    if (auto *CE = dyn_cast<CallExpr>(S)) {
      Ev["e"] = "C";
      Ev["x"] = ex(CE);
      Ev["l"] = (int64_t)line(CE->getBeginLoc());
      Ev["t"] = text(CE->getSourceRange());
      return true;
    }
    if (auto *BO = dyn_cast<BinaryOperator>(S)) {
      if (!BO->isAssignmentOp())
        return false;
      Ev["e"] = "S";
      Ev["o"] = BO->getOpcodeStr().str();
      Ev["lhs"] = ex(BO->getLHS());
      Ev["rhs"] = ex(BO->getRHS());
      Ev["l"] = (int64_t)line(BO->getOperatorLoc());
      Ev["t"] = text(BO->getSourceRange());
      Ev["id"] = idOf(BO);
      return true;
    }
    if (auto *UO = dyn_cast<UnaryOperator>(S)) {
      if (!UO->isIncrementDecrementOp())
        return false;
      Ev["e"] = "S";
      Ev["o"] = UO->isIncrementOp() ? "++" : "--";
      Ev["lhs"] = ex(UO->getSubExpr());
      Ev["l"] = (int64_t)line(UO->getOperatorLoc());
      Ev["t"] = text(UO->getSourceRange());
      return true;
    }
    if (auto *DS = dyn_cast<DeclStmt>(S)) {
      if (!DS->isSingleDecl())
        return false;
      auto *VD = dyn_cast<VarDecl>(DS->getSingleDecl());
      if (!VD || !VD->hasInit())
        return false;
      Ev["e"] = "S";
      Ev["o"] = "=";
      Ev["decl"] = true;
      json::Object L;
      L["k"] = "v";
      L["n"] = VD->getName().str();
      L["s"] = VD->isStaticLocal() ? "sl" : "l";
      L["t"] = typeStr(VD->getType());
      Ev["lhs"] = std::move(L);
      Ev["rhs"] = init(VD->getInit());
      Ev["l"] = (int64_t)line(VD->getLocation());
      Ev["t"] = text(VD->getSourceRange());
      return true;
    }
    if (auto *RS = dyn_cast<ReturnStmt>(S)) {
      Ev["e"] = "R";
      if (RS->getRetValue())
        Ev["x"] = ex(RS->getRetValue());
      Ev["l"] = (int64_t)line(RS->getReturnLoc());
      Ev["t"] = text(RS->getSourceRange());
      return true;
    }
    return false;
  }

  json::Value labelOf(const CFGBlock *B) {
    const Stmt *L = B->getLabel();
    if (!L)
      return json::Value(nullptr);
    json::Object O;
    if (auto *CS = dyn_cast<CaseStmt>(L)) {
      json::Array Vals;
      // consecutive "case A: case B:" share a block: walk nested SubStmt chain
      const Stmt *Cur = CS;
      while (Cur) {
        if (auto *C = dyn_cast<CaseStmt>(Cur)) {
          json::Object V;
          int64_t CV;
          if (tryConst(C->getLHS(), CV))
            V["c"] = CV;
          V["t"] = text(C->getLHS()->getSourceRange());
          if (C->getRHS()) {
            int64_t HV;
            if (tryConst(C->getRHS(), HV))
              V["hi"] = HV;
          }
          Vals.push_back(std::move(V));
          Cur = C->getSubStmt();
        } else if (auto *D = dyn_cast<DefaultStmt>(Cur)) {
          O["default"] = true;
          Cur = D->getSubStmt();
        } else
          break;
      }
      O["case"] = std::move(Vals);
    } else if (auto *DS = dyn_cast<DefaultStmt>(L)) {
      O["default"] = true;
      const Stmt *Cur = DS->getSubStmt();
      json::Array Vals;
      while (Cur) {
        if (auto *C = dyn_cast<CaseStmt>(Cur)) {
          json::Object V;
          int64_t CV;
          if (tryConst(C->getLHS(), CV))
            V["c"] = CV;
          V["t"] = text(C->getLHS()->getSourceRange());
          Vals.push_back(std::move(V));
          Cur = C->getSubStmt();
        } else
          break;
      }
      if (!Vals.empty())
        O["case"] = std::move(Vals);
    } else if (auto *LS = dyn_cast<LabelStmt>(L)) {
      O["label"] = LS->getName();
    }
    O["l"] = (int64_t)line(L->getBeginLoc());
    return json::Value(std::move(O));
  }

  json::Value function(const FunctionDecl *FD) {
    json::Object F;
    StmtIds.clear();
    NextId = 0;
    F["name"] = FD->getName().str();
    F["file"] = relFile(FD->getLocation());
    F["line"] = (int64_t)line(FD->getLocation());
    F["endline"] = (int64_t)line(FD->getBody()->getEndLoc());
    F["static"] = FD->getStorageClass() == SC_Static || FD->isInlined();
    F["ret"] = typeStr(FD->getReturnType());
    F["sig"] = typeStr(FD->getType().getCanonicalType());
    if (FD->isNoReturn())
      F["nr"] = true;
    json::Array Ps;
    for (const ParmVarDecl *P : FD->parameters()) {
      json::Object PO;
      PO["n"] = P->getName().str();
      PO["t"] = typeStr(P->getType());
      Ps.push_back(std::move(PO));
    }
    F["params"] = std::move(Ps);

    // local variables in declaration order (name, type): lets the engine undo a rename of locals
    {
      struct LocalCollector : public RecursiveASTVisitor<LocalCollector> {
        std::vector<const VarDecl *> Vars;
        bool VisitVarDecl(const VarDecl *V) {
          if (!isa<ParmVarDecl>(V) && V->isLocalVarDecl())
            Vars.push_back(V);
          return true;
        }
      } LC;
      LC.TraverseStmt(FD->getBody());
      json::Array Ls;
      for (const VarDecl *V : LC.Vars) {
        json::Object LO;
        LO["n"] = V->getName().str();
        LO["t"] = typeStr(V->getType());
        Ls.push_back(std::move(LO));
      }
      F["locals"] = std::move(Ls);
    }

    CFG::BuildOptions BO;
    BO.setAllAlwaysAdd();
    BO.AddEHEdges = false;
    BO.AddImplicitDtors = false;
    BO.AddInitializers = false;
    std::unique_ptr<CFG> G =
        CFG::buildCFG(FD, FD->getBody(), &Ctx, BO);
    if (!G) {
      F["nocfg"] = true;
      return json::Value(std::move(F));
    }
    F["entry"] = (int64_t)G->getEntry().getBlockID();
    F["exit"] = (int64_t)G->getExit().getBlockID();
    json::Array Blocks;
    for (const CFGBlock *B : *G) {
      json::Object BJ;
      BJ["id"] = (int64_t)B->getBlockID();
      json::Array Evs;
      for (const CFGElement &El : *B) {
        if (auto CS = El.getAs<CFGStmt>()) {
          const Stmt *S = CS->getStmt();
          json::Object Ev;
          if (eventFor(S, Ev))
            Evs.push_back(std::move(Ev));
        }
      }
      if (!Evs.empty())
        BJ["ev"] = std::move(Evs);
      if (B->hasNoReturnElement())
        BJ["nr"] = true;
      json::Array Succ;
      for (auto I = B->succ_begin(); I != B->succ_end(); ++I) {
        const CFGBlock *SB = I->getReachableBlock();
        Succ.push_back(SB ? (int64_t)SB->getBlockID() : (int64_t)-1);
      }
      BJ["s"] = std::move(Succ);
      json::Value Lab = labelOf(B);
      if (Lab.kind() != json::Value::Null)
        BJ["lab"] = std::move(Lab);
      if (const Stmt *T = B->getTerminatorStmt()) {
        json::Object TJ;
        const char *K = "other";
        if (isa<IfStmt>(T))
          K = "if";
        else if (isa<WhileStmt>(T))
          K = "while";
        else if (isa<ForStmt>(T))
          K = "for";
        else if (isa<DoStmt>(T))
          K = "do";
        else if (isa<SwitchStmt>(T))
          K = "switch";
        else if (auto *BOp = dyn_cast<BinaryOperator>(T))
          K = BOp->getOpcode() == BO_LAnd ? "&&" : (BOp->getOpcode() == BO_LOr ? "||" : "binop");
        else if (isa<AbstractConditionalOperator>(T))
          K = "?:";
        else if (isa<GotoStmt>(T))
          K = "goto";
        else if (isa<BreakStmt>(T))
          K = "break";
        else if (isa<ContinueStmt>(T))
          K = "continue";
        else if (isa<IndirectGotoStmt>(T))
          K = "igoto";
        TJ["k"] = K;
        if (const Expr *C = dyn_cast_or_null<Expr>(B->getTerminatorCondition()))
          TJ["c"] = ex(C);
        TJ["l"] = (int64_t)line(T->getBeginLoc());
        if (auto *GS = dyn_cast<GotoStmt>(T))
          TJ["label"] = GS->getLabel()->getName();
        BJ["t"] = std::move(TJ);
      }
      // first line of the block (for reports)
      for (const CFGElement &El : *B) {
        if (auto CS = El.getAs<CFGStmt>()) {
          BJ["l"] = (int64_t)line(CS->getStmt()->getBeginLoc());
          break;
        }
      }
      Blocks.push_back(std::move(BJ));
    }
    F["blocks"] = std::move(Blocks);
    collectAddrTaken(FD->getBody(), false);
    return json::Value(std::move(F));
  }

  json::Value record(const RecordDecl *RD) {
    json::Object R;
    R["name"] = recName(RD);
    R["file"] = relFile(RD->getLocation());
    R["line"] = (int64_t)line(RD->getLocation());
    R["union"] = RD->isUnion();
    const ASTRecordLayout &L = Ctx.getASTRecordLayout(RD);
    R["size"] = (int64_t)L.getSize().getQuantity();
    json::Array Fs;
    unsigned i = 0;
    for (const FieldDecl *FD : RD->fields()) {
      json::Object FO;
      FO["n"] = FD->getName().str();
      FO["t"] = typeStr(FD->getType());
      FO["off"] = (int64_t)(L.getFieldOffset(i) / 8);
      if (!FD->getType()->isIncompleteType())
        FO["sz"] = (int64_t)Ctx.getTypeSizeInChars(FD->getType()).getQuantity();
      std::string Sub = "";
      if (const RecordType *RT = FD->getType().getCanonicalType()->getAs<RecordType>())
        Sub = recName(RT->getDecl());
      if (!Sub.empty())
        FO["rec"] = Sub;
      Fs.push_back(std::move(FO));
      i++;
    }
    R["fields"] = std::move(Fs);
    return json::Value(std::move(R));
  }

  void run(const std::string &MainFile) {
    json::Object Out;
    json::Array Funcs, Globals, Records;
    TranslationUnitDecl *TU = Ctx.getTranslationUnitDecl();
    std::set<const RecordDecl *> SeenRec;
    std::function<void(const DeclContext *)> WalkRecords = [&](const DeclContext *DC) {
      for (const Decl *D : DC->decls()) {
        if (auto *RD = dyn_cast<RecordDecl>(D)) {
          if (RD->isCompleteDefinition() && inRepo(RD->getLocation()) &&
              !RD->isInvalidDecl() && SeenRec.insert(RD).second) {
            Records.push_back(record(RD));
            WalkRecords(RD);
          }
        }
      }
    };
    WalkRecords(TU);
    for (const Decl *D : TU->decls()) {
      if (auto *FD = dyn_cast<FunctionDecl>(D)) {
        if (!FD->doesThisDeclarationHaveABody() || FD->isInvalidDecl())
          continue;
        if (!inRepo(FD->getLocation()))
          continue;
        bool InMain = SM.isInMainFile(SM.getExpansionLoc(FD->getLocation()));
        if (!InMain && !FD->isUsed() && !FD->isReferenced())
          continue;
        Funcs.push_back(function(FD));
      } else if (auto *VD = dyn_cast<VarDecl>(D)) {
        if (!VD->hasInit() || !inRepo(VD->getLocation()) || VD->isInvalidDecl())
          continue;
        if (!SM.isInMainFile(SM.getExpansionLoc(VD->getLocation())) &&
            !VD->isUsed() && !VD->isReferenced())
          continue;
        json::Object G;
        G["name"] = VD->getName().str();
        G["file"] = relFile(VD->getLocation());
        G["line"] = (int64_t)line(VD->getLocation());
        G["static"] = VD->getStorageClass() == SC_Static;
        G["t"] = typeStr(VD->getType());
        G["rec"] = recordOfType(VD->getType());
        G["init"] = init(VD->getInit());
        collectAddrTaken(VD->getInit(), false);
        Globals.push_back(std::move(G));
      }
    }
    Out["main"] = MainFile;
    Out["functions"] = std::move(Funcs);
    Out["globals"] = std::move(Globals);
    Out["records"] = std::move(Records);
    json::Array AT;
    for (const std::string &S : AddrTaken)
      AT.push_back(S);
    Out["addr_taken"] = std::move(AT);
    std::error_code EC;
    llvm::raw_fd_ostream OS(OutFile, EC);
    if (EC) {
      llvm::errs() << "cannot write " << OutFile << ": " << EC.message() << "\n";
      exit(3);
    }
    OS << json::Value(std::move(Out));
    OS << "\n";
  }
};

class Consumer : public ASTConsumer {
  std::string Main;

public:
  explicit Consumer(std::string M) : Main(std::move(M)) {}
  void HandleTranslationUnit(ASTContext &Ctx) override {
    if (Ctx.getDiagnostics().hasErrorOccurred()) {
      llvm::errs() << "e2facts: compile errors in " << Main << "\n";
      exit(4);
    }
    Extractor X(Ctx, Root);
    X.run(Main);
  }
};

class Action : public ASTFrontendAction {
public:
  std::unique_ptr<ASTConsumer> CreateASTConsumer(CompilerInstance &CI,
                                                 StringRef File) override {
    return std::make_unique<Consumer>(File.str());
  }
};

} // namespace

int main(int argc, const char **argv) {
  auto Opts = CommonOptionsParser::create(argc, argv, Cat);
  if (!Opts) {
    llvm::errs() << llvm::toString(Opts.takeError()) << "\n";
    return 2;
  }
  ClangTool Tool(Opts->getCompilations(), Opts->getSourcePathList());
  return Tool.run(newFrontendActionFactory<Action>().get());
}
