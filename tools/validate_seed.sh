#!/bin/sh
# validate_seed.sh <seed-id> <worktree>  : confirm a seeded change (demo passes on /repo, fails on the
# changed worktree, suite passes in the worktree) and record the outcome in seeded/<id>/validation.txt
ID=$1; WT=$2; S=/verif/seeded/$ID
cd $S || exit 2
{
echo "== validation of $ID on $(date -u +%FT%TZ)"
echo "-- worktree diff stat:"; git -C $WT diff --stat | tail -3
echo "-- demo on unchanged /repo (expect exit 0):"
bash $S/demo.sh /repo > $S/.out_repo 2>&1; echo "exit $?"; tail -3 $S/.out_repo
echo "-- demo on changed worktree $WT (expect non-zero):"
bash $S/demo.sh $WT > $S/.out_wt 2>&1; echo "exit $?"; tail -3 $S/.out_wt
echo "-- test suite in changed worktree (make -j16 -C tests check):"
TD=$(mktemp -d); TMPDIR=$TD make -s -j16 -C $WT/tests check > $S/.out_tests 2>&1; rm -rf $TD; grep -E "tests succeeded|Tests failed" $S/.out_tests
} > $S/validation.txt 2>&1
rm -f $S/.out_repo $S/.out_wt $S/.out_tests
cat $S/validation.txt
