#!/bin/sh
# validate_seed_full.sh <seed-id> : scratch worktree of /repo HEAD under /tmp/wt/<id>, configure+build,
# apply seeded/<id>/patch.diff, rebuild, run tools/validate_seed.sh, remove the worktree.
ID=$1; WT=/tmp/wt/$ID
mkdir -p /tmp/wt
git -C /repo worktree remove --force $WT 2>/dev/null
git -C /repo worktree add --detach $WT HEAD >/dev/null 2>&1 || exit 2
cd $WT || exit 2
( ./configure >/dev/null 2>&1 && make -s -j${J:-8} >/dev/null 2>&1 ) || { echo "$ID: clean build failed"; exit 2; }
git apply /verif/seeded/$ID/patch.diff || { echo "$ID: patch does not apply"; git -C /repo worktree remove --force $WT; exit 2; }
make -s -j${J:-8} > /tmp/wt/$ID.build.log 2>&1 || { echo "$ID: patched build failed"; exit 2; }
grep -c warning: /tmp/wt/$ID.build.log
sh /verif/tools/validate_seed.sh $ID $WT
cd /; git -C /repo worktree remove --force $WT
