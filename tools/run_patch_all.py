#!/usr/bin/env python3
"""run_patch_all.py <patch> [props...] : apply a patch to a scratch copy of /repo and run the quick checks of
all (or the given) properties against it; prints one line per property whose exit status is not 0."""
import sys, os, subprocess, shutil, re
sys.path.insert(0, "/verif")
from vlib import mutants
from concurrent.futures import ThreadPoolExecutor
patch = os.path.abspath(sys.argv[1])
props = sys.argv[2:] or ["C%02d" % i for i in range(1, 21)]
d = mutants.scratch_copy()
try:
    r = subprocess.run(["patch", "-p1", "-s", "-d", d + "/src", "-i", patch], stdout=subprocess.PIPE, stderr=subprocess.STDOUT, universal_newlines=True)
    if r.returncode != 0:
        print("PATCH-FAILS", r.stdout[-300:]); sys.exit(3)
    env = dict(os.environ, VERIF_REPO=d + "/src", VERIF_CACHE=d + "/cache", VERIF_EVIDENCE_DIR=d + "/evidence", VERIF_REPLAY_DIR=d + "/replay", VERIF_TIER="quick")
    # first run extracts facts (serial), the rest share the cache
    def run(p):
        r = subprocess.run(["/verif/check", p, "--tier", "quick"], env=env, stdout=subprocess.PIPE, stderr=subprocess.STDOUT, universal_newlines=True)
        return p, r.returncode, r.stdout
    first = run(props[0])
    res = [first]
    with ThreadPoolExecutor(6) as ex:
        res += list(ex.map(run, props[1:]))
    bad = 0
    for p, code, out in res:
        if code != 0:
            bad += 1
            lines = [l for l in out.splitlines() if re.match(r"\s+C\d+\.\w+ at ", l) or l.startswith("ANALYSIS")]
            print("%s exit %d: %s" % (p, code, " | ".join(x.strip()[:260] for x in lines[:4])))
    print("%s: %d of %d checks not silent" % (os.path.basename(patch), bad, len(res)))
finally:
    shutil.rmtree(d, ignore_errors=True)
