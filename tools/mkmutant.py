#!/usr/bin/env python3
"""mkmutant.py <prop> <name> <expect-rule> <repo-relative-file> <old> <new> [--count N]
Creates mutants/<prop>/<name>.patch from a literal replacement (old must occur exactly once
unless --count given), without touching /repo."""
import sys, os, subprocess, tempfile
REPO = "/repo"
def main():
    prop, name, expect, rel, old, new = sys.argv[1:7]
    src = open(os.path.join(REPO, rel)).read()
    old = old.encode().decode("unicode_escape")
    new = new.encode().decode("unicode_escape")
    n = src.count(old)
    if n != 1:
        print("pattern occurs %d times" % n); sys.exit(1)
    out = src.replace(old, new)
    with tempfile.NamedTemporaryFile("w", suffix=".c", delete=False) as f:
        f.write(out); tmp = f.name
    d = subprocess.run(["diff", "-u", "--label", "a/" + rel, "--label", "b/" + rel,
                        os.path.join(REPO, rel), tmp], stdout=subprocess.PIPE, universal_newlines=True).stdout
    os.unlink(tmp)
    os.makedirs(os.path.join("/verif/mutants", prop), exist_ok=True)
    p = os.path.join("/verif/mutants", prop, name + ".patch")
    with open(p, "w") as f:
        f.write("# expect: %s\n" % expect)
        f.write(d)
    print(p)
main()
