#!/usr/bin/env python3
"""mkseedprop.py <prop-id> <out-file> : write the PROPERTY.txt handed to a seeding agent (property text, anchors,
mechanisms, where to observe, and the functions earlier seeds of this property already changed)."""
import json, glob, re, os, sys
pid, out = sys.argv[1], sys.argv[2]
p = [json.loads(l) for l in open('/verif/properties.jsonl') if json.loads(l)["id"] == pid][0]
taken = set()
for m in glob.glob('/verif/seeded/*/meta.json'):
    d = json.load(open(m))
    if d["breaks_property"] != pid:
        continue
    cur = None
    for line in open(os.path.dirname(m) + "/patch.diff"):
        if line.startswith("+++ b/"):
            cur = line[6:].strip()
        mm = re.match(r"@@ .* @@ .*?(\w+)\s*\(", line)
        if mm and cur:
            taken.add("%s:%s" % (cur, mm.group(1)))
    # the meta's own description often names the function
    for fn in re.findall(r"([A-Za-z_][A-Za-z0-9_]+)\(\)", d.get("change", "")):
        taken.add("(%s)" % fn)
a = p["anchors"]
with open(out, "w") as f:
    f.write("PROPERTY %s: %s\n\n%s\n\n" % (pid, p["title"], p["statement"]))
    f.write("HOLDS FOR: %s\n\n" % p["quantifier"]["text"])
    f.write("ANCHOR FILES: %s\n\n" % ", ".join(a["files"]))
    f.write("MECHANISMS:\n")
    for m in a["mechanism"]:
        f.write("  - %s  [%s]\n" % (m["name"], m["where"]))
    f.write("\nOBSERVE AT: %s\n\n" % (a.get("observe_at") if isinstance(a.get("observe_at"), str) else "; ".join(a.get("observe_at") or [])))
    f.write("ALREADY TAKEN: other people doing this exercise have already changed the following functions - choose a DIFFERENT "
            "function and a different kind of mistake:\n")
    for t in sorted(taken):
        f.write("  %s\n" % t)
