#!/usr/bin/env python3
"""Regenerates /verif/MANIFEST.json from the table below (kept valid at all times)."""
import json, os
V = "/verif"
props = [json.loads(l) for l in open(V + "/properties.jsonl")]

CLAIMED = {
 "C07": dict(
    text="ORDER/TABLE/WHO rules over misc/mke2fs.c and what it reaches: the quota files (a snapshot of all usage) are written after every step that can still allocate an inode or block (orphan file, huge files, -d population) and only the close follows, usage computed before they are written; "
         "each feature owning an on-disk object (resize_inode, has_journal, orphan_file, mmp, quota, bigalloc fix-up) has its creator call in main, conditional on that feature, and a creator's failure ends the run non-zero; root directory, lost+found, reserved-inode marks and bad-block inode are created on every full run after table allocation; "
         "PRS dominates every write-capable call of main; every wall-clock read reachable from main yields to fs->now (E2FSPROGS_FAKE_TIME / SOURCE_DATE_EPOCH) or is a listed non-persistent use (one reason each), the wrapper ext2fsP_get_time prefers fs->now; UUID and hash seed are generated only when none was given (or overwritten by the given one). "
         "blocks temporarily un-marked in the block map (bad blocks, for the overhead computation) are marked again before anything allocates; `mke2fs -n` is decided under C13.d and backup wiring under C20. Decides ordering/wiring/determinism-source clauses for every configuration; every loop of the allocation/accounting code that consumes a total in pieces hands its callees the piece, not the running total (generic piecewise-loop rule; this is what catches seed C07-1). Does NOT decide geometry arithmetic (group and table placement, overhead, free counts).",
    ref="§8.6 C07", technique="static analysis: call-graph MAY summaries after an ordering point, feature/creator table with control dependence and error-exit classification, who-may-call for time sources with an exemption table"),
 "C10": dict(
    text="Typestate/ORDER/PAIRING rules over lib/ext2fs/{link,unlink,mkdir}.c, debugfs/debugfs.c, misc/create_inode.c and every directory-iterator callback of the tree: a callback that changed an entry reports DIRENT_CHANGED on every non-error return; "
         "a callback that merges an entry into the predecessor it remembers is run with DIRENT_FLAG_INCLUDE_EMPTY; every increment of a link count is dominated by a test against EXT2_LINK_MAX (dir_nlink rule for directories, refusal for files); "
         "ext2fs_mkdir writes inode and directory content before linking the name, updates the parent only after the link succeeded, refuses an over-full parent before any accounting and rolls the accounting back on every later failure; "
         "debugfs removal sets dtime, releases data blocks (whenever the inode has any), the extended-attribute block and the inode on every path, rmdir tests emptiness before touching anything and lowers the parent's count; link/unlink return iteration errors and report 'nothing done'. "
         "(the INCLUDE_EMPTY premise also covers callbacks that can report DIRENT_CHANGED for an entry whose inode is 0, in every tool); every site hashing directory names passes a version adjusted for the unsigned-hash flag. Decides the bookkeeping for every operation history and directory size; does NOT decide hash order, leaf/index splitting or rec_len arithmetic, nor that listing equals a model.",
    ref="§8.6 C10", technique="static analysis: path-sensitive typestate over iterator callbacks, flag-argument rule derived from callback behaviour, dominance, edge-gated must-pass, roll-back pairing"),
 "C15": dict(
    text="SIBLING/ORDER/ERRFLOW rules over lib/ext2fs/ext_attr.c: the space accounting of ext2fs_xattr_set and the layout of ext2fs_xattrs_write derive the in-inode capacity from the same chain (i_extra_isize, else s_want_extra_isize, else the same constant), the chosen value is stored, the accounting reserves magic word + null entry; "
         "accounting (space_used, xattr_array_update) and writer (write_xattrs_to_buffer) agree that an entry with a value inode takes no value space and use the same entry/value size macros; block entries are placed by the sorted-position search over exactly the block part; "
         "the writer hashes every block entry and every value-inode entry, the block path asks for hashes and the inode path does not, the reader recomputes and rejects a mismatch; replacing an entry drops the old value-inode reference before overwriting it, a value inode created before a later failure is released on every error path, remove drops the reference and adjusts the in-inode count by position; "
         "xattrs_write lays the block out before writing it, copies a shared block first (prep_ea_block_for_write), returns every writer failure, writes the inode on every successful path and can release an unneeded block; set/remove write the handle back and return its error. "
         "Decides the agreement and pairing clauses for every set/remove history; does NOT decide that the sorted array is manipulated correctly for all sizes, nor placement decisions.",
    ref="§8.6 C15", technique="static analysis: sibling agreement on constants and size macros, control-dependence, edge-gated must-pass, path-sensitive release pairing and error-flow"),
 "C18": dict(
    text="Exhaustiveness/ORDER/ERRFLOW/TABLE rules over misc/create_inode.c and debugfs/dump.c: the population switch has an arm for each of the seven host file types reaching that kind's creator; after every creator every path to the next directory entry passes set_inode_extra and set_inode_xattr with this entry's lstat buffer; "
         "set_inode_extra stores uid and gid (both halves, >>16), mode (type from the created inode, permission mask containing 07777) and the three timestamps, each from the same-named stat field, and writes the inode back; multiply-linked non-directories are looked up by (st_dev, st_ino) and the first member is recorded on every continuing path; "
         "the chunk copier seeks to the source offset before writing, treats a failed/zero-progress write and a failed read as errors, close and chunk-copy errors are returned, the recorded size is st_size; on extraction regular files, symlinks and directories each have an arm, the dump loop writes exactly the bytes read, mode/owner/times are restored from the inode; "
         "no zero-extended 32-bit ~mask on a 64-bit file offset in either direction. Decides the wiring for every tree shape; does NOT decide byte equality of a copy, hole placement arithmetic, or inline-data corner cases (defects observed there are value-level and outside this technique).",
    ref="§8.6 C18", technique="static analysis: switch-label exhaustiveness, must-pass-through to the loop head, field-pairing table over stores, path-sensitive error-flow, operand-width facts"),
 "C19": dict(
    text="Exhaustiveness/GUARD/PURITY rules over misc/e2image.c and lib/ext2fs/qcow2.c: every block-location accessor of the group descriptor (enumerated from blknum.c), the primary superblock, its descriptor blocks and the MMP block are marked over all groups, "
         "silently skipped for nothing but UNINIT flags / zero location / absent feature; per in-use inode the xattr block; all blocks of directories, symlinks, journal, every quota type (count taken from enum quota_type) and the orphan file; "
         "every other inode is walked whenever the extents flag or any indirect root i_block[IND..TIND] is set (index sets evaluated through one helper level and constant loop bounds), and the callback marks every mapping block; walks are not DATA_ONLY; "
         "both writers scan to ext2fs_blocks_count and copy exactly the marked blocks; the source is opened without EXT2_FLAG_RW; the qcow2-to-raw reader bounds table offsets by the qcow2 file's size and extends the output only when shorter; no 32-bit ~mask on 64-bit offsets. "
         "zero-block skipping in the raw writer is enabled only for a target that did not exist before (raw targets are not truncated); 'Silently skipped' is computed (conditions whose other arm fails the operation are not restrictions). Decides that no metadata class is left out on any file system; does NOT decide qcow2 L1/L2/refcount arithmetic or byte identity itself.",
    ref="§8.6 C19", technique="static analysis: exhaustiveness over source-enumerated classes, control-dependence purity with error-exit classification, edge-gated must-pass, constant index-set evaluation, operand-width facts"),
 "C09": dict(
    text="Typestate/ORDER/WHO rules over lib/ext2fs/fileio.c and the allocation callers, decided on every CFG path: the handle's one-block buffer changes block only after it was written out and invalidated; "
         "load_buffer's dontfill argument governs nothing but the buffer content (all handle state the flush consults is set independently of it), valid only after the lookup, dontfill only for whole-block writes; "
         "copies into the buffer are paired with the dirty mark, copies out are preceded by sync and a filling load; flush allocates/converts before writing, writes to the mapped block, clears dirty only after a successful write; "
         "close flushes before freeing and returns the error; a size change writes out and drops the buffer before zeroing/freeing on disk; only the buffer routines store the cached block numbers; "
         "a block found by the free-block search routines and then used is marked in use on every succeeding path (7 call sites; fallocate's probe idiom excluded with its reason); "
         "no zero-extended 32-bit complement mask on a 64-bit offset/size/block number in the data path; every piecewise loop of the data path hands its callees the piece, not the running total; every routine returning file content limits it by i_size. "
         "Decides the buffer typestate and allocation-marking discipline for every operation history; does NOT decide read-back equality itself, extent split/merge, punch range arithmetic or inline-data lengths.",
    ref="§8.6 C09", technique="static analysis: typestate over clang CFGs (dominance, edge-gated reachability, control-dependence purity), path-sensitive error-flow and use-implies-mark exploration, operand-width facts"),
 "C06": dict(
    text="TAINT-GUARD rule over the anchored parsers of untrusted data (superblock/descriptor open path, journal recovery and fast-commit replay, extent headers, directory blocks, xattr blocks and in-inode xattrs, inline data, dx count/limit, MMP, orphan file, qcow2 header, undo file): "
         "values derived from fields of on-disk record types (through locals, struct copies, byte-order helpers and out-parameters) are followed to their uses as length, I/O count, allocation size, array index, pointer offset, divisor or shift count. "
         "Two reference lists derived from the pinned tree and keyed semantically (function, sink class, source fields / canonical name-independent comparison shape; no text or line numbers) are enforced: every recorded sink that was dominated by a comparison on its value still is, "
         "and every recorded ordering comparison on untrusted values is still present in its function with the same operands, constants and direction (56 sinks, 174 comparisons). "
         "Decides that the bounds checks the parsers rely on are not removed, weakened or bypassed; does not decide absence of all memory errors, termination, or that each bound is the right number; a refactoring that moves a check into another function needs the reference regenerated (python3 -m rules.C06).",
    ref="§4 C06", technique="static analysis: intraprocedural taint from on-disk record fields to sinks, control dependence, canonical guard shapes compared with a reviewed reference"),
 "C05": dict(
    text="GATED-EFFECT / WHO / GUARD rules over e2fsck passes 1-5, super.c and badblocks.c: each of ~200 call sites that change persistent metadata executes only after a problem was reported and its fix accepted "
         "(directly; through a local, struct field or context flag bit every non-zero store of which is itself gated; through a helper derived to return such an answer; or because every call site of the enclosing function, callbacks included, is gated), "
         "or in an explicitly requested mode (-D, bmap2extent, unshare_blocks, discard), or on a listed path with its reason (orphan processing and VALID_FS bookkeeping additionally shown to sit behind the read-only test); "
         "no function of pass5.c reaches an inode/dir/extent/xattr writer (positive control on pass2.c); a checksum-only mismatch leads to rewriting, not clearing; extent merges require equal UNINIT flags. "
         "The counters behind the inode scan's per-block garbage verdict are zeroed whenever the scan leaves a block; a library request that can fail with a checksum error and whose failure a pass discards without a report is made with checksum errors ignored. On a consistent filesystem no problem is raised, so no gated mutator runs. Decides gating and layering; not that -D / extent rebuilding preserve names and bytes.",
    ref="§4 C05", technique="static analysis: edge-gating reachability with derived answer functions / gated flags, interprocedural call-site propagation, who-may-call"),
 "C01": dict(
    text="ORDER/PURITY/PATH rules over e2fsck: every in-place change of the live block/inode bitmap is followed (or dominated) by its dirty-mark on every path on which the repair completes, with open obligations passed to call sites and callback receivers up the call graph; "
         "fix_problem's declined-answer bookkeeping and the exit-status computation (shared with C02.c); pass table order 1<2<3<4<5 with pass 5 last, RUN_RETURN tested before each pass, restart honoured; end-of-run bitmaps < flush < io flush < close on every writable path with PR_FATAL failure rows; "
         "the answer of every prompting fix_problem() is used (228 sites); bitmap checksum verification in pass 5 may be skipped only for a dirty bitmap of the same kind; removal of the orphan file releases or re-creates its inode in e2fsck and tune2fs alike. "
         "every directory-hash site of e2fsck (rehash fill, duplicate rename, pass 2) passes a hash version adjusted for the unsigned-hash flag, so a rebuilt htree verifies on the next run. Decides the bookkeeping that turns 'repair applied' into 'repair on disk and reported'; not that each repair is semantically right.",
    ref="§4 C01", technique="static analysis: must-pass-through with interprocedural obligation passing, MUST summaries, path-sensitive exploration, table checks"),
 "C16": dict(
    text="Two structural necessary conditions only (set semantics over histories is not decided): (a) every block-number entry of the generic 64-bit bitmap layer converts to cluster units before dispatching to the backend slot "
         "(single entries shift the argument; range entries shift the start, round the end up by one cluster minus one and recompute the length; find_first_* shift bounds in and the result out), range-checks the converted value, and the two cluster-unit entries do not shift; "
         "both backends define every slot called without a NULL test; (b) in the rbtree backend cached cursors never outlive what they describe: every tree insertion is preceded on all paths through all callers by a reset of rcursor_next (or of the read cursor), "
         "every erase is surrounded by cursor invalidation, rb_free_extent nulls each cursor that equals the freed extent, functions installing a new root reset all cursors.; (c) unit-step ascending loops over bit positions bounded by the inclusive end/real_end fields (directly or through locals) compare with <= - the rule that decides agreement of the 32- and 64-bit twins; (d) set_range assigns the range in both backends (the tree drops the old content of the range before inserting runs).",
    ref="§4 C16", technique="static analysis: dominance / must-pass-through over clang CFGs with caller propagation, vtable slot completeness"),
 "C20": dict(
    text="ORDER/GUARD/PURITY/WHO rules: tune2fs clears EXT2_FLAG_MASTER_SB_ONLY before every changer, resize2fs before the final close, mke2fs's handle never has it, the flag's setters are a listed set; "
         "e2fsck's end-of-run comparison reads a prescribed backup, compares the feature words, block/inode counts and UUID (ignore masks only run-time bits), is made whenever the fs is valid and writable and its result alone decides the refresh, with nothing re-setting the flag before the flush; "
         "in ext2fs_flush2 the backup superblock / descriptor writes over all groups are restricted by nothing but the documented flags and the computed locations; writer, reader and checker share ext2fs_bg_has_super; "
         "the meta_bg descriptor location used when opening from a backup pairs first block and has_super of the same group on every path; opening from a backup clears the UNINIT flags unconditionally. resize2fs reserves the area of the new last-group backup on every path on which block-move planning succeeds; e2fsck's backup search re-initialises the ext2fs_list_backups iterator for every block size it tries. Decides the refresh/write wiring; not the placement arithmetic.",
    ref="§4 C20", technique="static analysis: dominance, control-dependence purity, who-may-store, path-sensitive symbolic pairing over clang CFGs"),
 "C14": dict(
    text="Static rules over lib/ext2fs/csum.c, the library read/write paths, e2fsck and the journal code: on every read path the verifier is called and, if it keeps failing and checksum errors are not ignored, every return yields the class's error (path-sensitive); "
         "on every write path the setter dominates the device write; verify/set of each class share the compute function, the stored field and the feature gate; each CRC chain starts at the prescribed seed and is threaded through every call, "
         "fixed lengths equal clang's record layout, variable lengths have no constant clamp and cover the object in place; fs->csum_seed has one writer; crc32c-LE, crc32-BE (8x256 each) and crc16 tables equal their algebraic definitions (4352 entries evaluated by the checker); "
         "every library checksum error code and every checksum-mismatch problem row leads to a non-zero -fn verdict. between a checksum setter and the write request nothing stores into the checksummed object or a buffer aliasing it (library writers and the debugfs journal writer: escape before tag checksum); the conditions under which a read path skips its verifier equal the recorded set. Decides wiring, symmetry, fixed-range and table clauses; not variable-range arithmetic or the CRC loop for all lengths.",
    ref="§4 C14", technique="static analysis: path-sensitive exploration, dominance, sibling comparison, record-layout constants, constant-table evaluation"),
 "C11": dict(
    text="TABLE / call-graph / ORDER rules: the checksummed classes are enumerated from the checksum fields of the on-disk record types and rewrite_metadata_checksums() must reach a storer of each (call-site-sensitive callbacks) or must dirty-mark the owner whose flush routine does; "
         "each inode kind is selected by its own request bit and every seed-changing arm (metadata_csum on/off, stale csum_seed, UUID change) requests all bits; with a rewrite requested no path of main() reaches the close without performing it (error exits excepted); "
         "every FEATURE_ON/OFF/CHANGED arm names a bit allowed by ok_features/clear_ok_features and every allowed bit has a handler arm or is a listed flag-only feature; seed-changing arms are dominated by check_fsck_needed(). "
         "in the inode-size growth scan no inode copy taken before the block walk is written back after it without a fresh read. Decides coverage and table agreement for every request sequence; not inode-size growth, journal or quota creation.",
    ref="§4 C11", technique="static analysis: record-layout enumeration, call-graph reachability with call-site-sensitive callbacks, initialiser-table agreement, gated reachability over clang CFGs"),
 "C03": dict(
    text="GUARD/ORDER rules over the recovery core as built for e2fsck and for debugfs, and a SIBLING rule over the two front-ends: filesystem writes only in PASS_REPLAY, revoke scan only in PASS_REVOKE, end of log decided only in PASS_SCAN, "
         "passes in order each only after the previous succeeded (path-sensitive); each replay write gated by !test_revoke(block, transaction being replayed) and a verifying tag checksum; the revoke table keeps the newest revoking transaction and "
         "a later transaction is not revoked (comparator argument roles); bad magic / wrong sequence / unknown type end the scan; escape restore between copy and write; needs_recovery cleared after recovery; "
         "effect skeletons (device I/O calls, stores to journal state) of 15 sibling function pairs agree up to a listed set of accepted differences. the old-style running crc32 is reset on every path that accepts a commit block. Decides the control structure for every journal content; not tag-size/wrap arithmetic or checksum values.",
    ref="§4 C03", technique="static analysis: edge-gating reachability over clang CFGs, comparator-role checks, path-sensitive exploration, sibling effect-skeleton comparison"),
 "C02": dict(
    text="TABLE and path rules: every problem code that can reach fix_problem() (constants, constant-valued locals, constants passed to helpers) has exactly one problem_table row, "
         "the zero terminator is last, PR_AFTER_CODE/latch references resolve; per row the (has prompt, PR_NO_OK) pair equals the reference recorded from the pinned tree; "
         "fix_problem un-marks the fs valid on a declined answer restricted only by PR_NO_OK/prompt, -n answers no, nobody re-marks valid after the run started and no store to fs->flags can resurrect the VALID bit "
         "(wholesale restores are checked against calls that may un-mark); main or-s FSCK_UNCORRECTED into the exit status whenever the fs is not valid and nothing clears it. "
         "in pass 1D only the bad-blocks and resize inodes are exempt from the un-mark that makes multiply-claimed blocks a non-zero verdict. Decides that every inconsistency e2fsck detects yields a non-zero -fn exit; does not decide that passes 1-5 detect every inconsistency.",
    ref="§4 C02", technique="static analysis: initialiser-table consistency, constant resolution of call arguments, control dependence, who-may-store over the call graph"),
 "C08": dict(
    text="ORDER/WHO/GATED-EFFECT rules on every CFG path and over the resize2fs call graph: the EXT2_ERROR_FS store, dirty-mark and flush come in that order in resize_fs and dominate every write-capable call and the handle duplication; "
         "among all functions reachable from resize_fs only resize_fs clears the flag, after every phase, and only the final close follows; ext2fs_flush2 writes the primary superblock last with a flush before and after; "
         "in main no refusal/no-op path between open and exit contains a write request, dirty-mark or superblock store. the directory walk that renumbers inodes is shown unused entries too, because its callback forces a rewrite (new checksum seed) of every block before it looks at the entry (shared with C10.b). Decides the crash-marker and refused-request clauses for all crash points and requests; not relocation arithmetic.",
    ref="§4 C08", technique="static analysis: dominance / must-pass-through over clang CFGs, who-may-store over the call graph, gated-effect reachability"),
 "C12": dict(
    text="ORDER/GUARD/TABLE rules on every CFG path: each device-mutating slot of the I/O-manager vtable (computed from the unix manager's raw writes) is defined by the undo manager, "
         "saves old bytes before forwarding and never forwards after a failed save; first-write-wins bookkeeping in undo_write_tdb; FINISHED marker stored only by undo_close before the flushed final index write; "
         "six tools install the manager identically and open through it; re-open and e2undo validate header magic/CRC/geometry/features/superblock/key blocks/block CRCs before use, "
         "e2undo cannot bypass a comparison when not forced, performs all of them before the first device write and never writes under -n. "
         "a user-named undo file is never unlinked or truncated by any *_setup_tdb; whoever raises the key count of the current key block passes the block-full step before returning (the key array is indexed without a bound); write_undo_indexes has no successful return before the header write (which is what pushes saved data out of the undo file's cache before the device is overwritten); replay and re-open advance the cursor by the same function of key size and block size. Decides the interposition/verification discipline for all tools and inputs; not the key/extent arithmetic.",
    ref="§4 C12", technique="static analysis: vtable completeness, dominance, control dependence, path-sensitive exploration over clang CFGs"),
 "C17": dict(
    text="Static rules over lib/ext2fs/unix_io.c, undo_io.c, test_io.c, io_manager.c and rw_bitmaps.c decided on every CFG path: "
         "(a) coherence: each cache-bypassing device write in a mutating slot is dominated by flush_cached_blocks(FLUSH_INVALIDATE), whose loop leaves no in-use entry except on write error; "
         "(b) durability: unix_flush returns 0 only after write-out and fsync, close flushes first, a dirty victim is written before reuse; "
         "(c) error flow (path-sensitive constant propagation): a non-zero result of every internal write/flush call reaches the slot's return value, syscall results are never discarded; "
         "(d) lock discipline (must-hold lockset dataflow, two contexts for FLUSH_NOLOCK): cache fields under CACHE_MTX, bounce buffer and seek/transfer pairs under BOUNCE_MTX, stats under STATS_MTX, no call acquires a held mutex, "
         "locks balanced; shared bitmap updates of the threaded loader under its mutex, threads joined before the result is used. Necessary conditions of C17 for all histories/schedules; does not compute cache contents.",
    ref="§4 C17", technique="static analysis: dominance/must-pass-through, path-sensitive error-flow, must-hold lockset dataflow, lock-order check over clang CFGs"),
 "C13": dict(
    text="GUARD/WHO rules over clang CFGs: the open(2) mode in unix_open derives from IO_FLAG_RW only, IO_FLAG_RW in ext2fs_open2 from EXT2_FLAG_RW only, "
         "and in every tool (e2fsck -n, debugfs without -w, dumpe2fs, tune2fs -l, resize2fs -P, e2image, e2freefrag, e2undo -n, mke2fs -n) each store or argument "
         "introducing a write mode is control-dependent on the tool's read-only option; every raw open(2) with a write mode is a listed non-device path; "
         "e2fsck's journal code opens an external journal read-write / dirties the journal superblock only when not read-only or under an accepted prompting fix_problem; "
         "mke2fs -n reaches no write request; ext2fs_close2 flushes only dirty handles. Because the kernel refuses writes on O_RDONLY descriptors this decides the property's mechanism for all inputs; "
         "it does not execute the tools.",
    ref="§4 C13", technique="static analysis: control-dependence (guard) rules, switch-label reachability, who-may-call over the whole-program call graph"),
 "C04": dict(
    text="Static ORDER/GUARD/WHO rules decided on every CFG path of both journal front-ends (e2fsck, debugfs): "
         "replayed blocks are flushed and the flush result propagated before recovery returns; the journal is marked "
         "empty (s_start=0) only by the release routine, under reset and writable, never before jbd2_journal_recover; "
         "needs_recovery is cleared only at listed sites each dominated by recovery or an accepted fix_problem; one replay per run. "
         "Decides the write/flush ordering that crash-restartability depends on, for all crash points at once; does not decide the content replayed (C03).",
    ref="§4 C04", technique="static analysis: must-pass-through / dominance over clang CFGs, who-may-store, path-sensitive error-flow"),
}

NA_REASON = {
}

# clauses added in the fourth round (DESIGN.md §8.10); appended to the texts above
ROUND4 = {
 "C12": " Round 4: the file system offset is applied once on the way from a request to the undo key (C12.k; genuine defect found and repaired).",
 "C16": " Round 4: every caller-supplied position is compared with the bitmap's start and end/real_end before a backend operation receives it (C16.e; genuine defect in the 64-bit bulk get/set found and repaired).",
 "C01": " Round 4: no index derived from the refcount list's count is used after a call that shrinks the list (C01.k); the block-walk protocol of check_blocks - BLOCK_CHANGED raises inode_modified, and the inode is re-read under it before any later write (C01.l); ext2fs_mark_valid() cannot follow a call from which a problem can be declined unless the declined verdict is re-applied before the passes run (C01.c, shared with C02).",
 "C02": " Round 4: block numbers are compared exclusively with ext2fs_blocks_count() at all 22 sites of e2fsck (C02.e); the verdict of a declined problem is never restored by a later ext2fs_mark_valid() (C02.c) - this rule found a genuine defect (exit 0 after 'Fix? no' before pass 1), repaired. Every non-root extent node has the depth its level gives it (C02.g; genuine defect found and repaired).",
 "C03": " Round 4: a ring cursor of the log is wrapped after every advance before it is read, copied, passed by address or returned (C03.h).",
 "C05": " Round 4: the logical and physical start of an extent move together in every compound update (C05.g).",
 "C06": " Round 4, absolute rules (not reference-based): a disk-derived value that bounds an index or pointer walk has passed a comparison of its own on every path, debugfs htree/logdump dumpers included (C06.c); every `while (1)` walk over the journal has a counter incremented and tested against a loop-invariant length on every turn (C06.d); a field released without being cleared is not released again by the function or its direct callers (C06.e). Three genuine defects found through these (SIGSEGV in debugfs htree, endless scan in e2fsck -p/-y and in debugfs logdump), repaired. Comparison shapes are strict and counted. A record is validated against the end of the block before a walk strides by its length (fast-commit tags, C06.f; genuine defect found and repaired).",
 "C08": " Round 4: the inode copy of the scan is not written after the block walk without a re-read (C08.f); a relocated inode table is written in full unless it moves up (C08.g; genuine defect found and repaired).",
 "C09": " Round 4: every replace/insert that can change a leaf's first key is followed by ext2fs_extent_fix_parents (C09.r). Expanding an inline-data file keeps i_size (C09.s, shared with C18.g).",
 "C10": " Round 4: an inode written after a call that rewrites the same on-disk inode (link, expand, inline-data helpers, block walk) was read again in between (C10.i); block and inode accounting of mkdir and symlink are rolled back on every failure after them, followed through flag and bit-mask values (C10.d). Creation commands cut the path at its last '/' and refuse an existing name before they add the entry (C10.j; genuine defect in debugfs mknod found and repaired).",
 "C11": " Round 4: where the UNINIT group flags are dropped both bitmaps are marked dirty (C11.g).",
 "C13": " Round 4: stacked I/O managers (undo_io, test_io) hand the caller's flags to the backing open of the device; IO_FLAG_RW is spelled out only for a private file (C13.f).",
 "C14": " Round 4: a failed journal checksum is excused as stale only for a strictly older commit time (C14.i); an inode cache slot's buffer is overwritten only under a matching or cleared label (C14.j; genuine defect found and repaired).",
 "C15": " Round 4: i_blocks is charged for an EA block only when the inode had none (C15.f).",
 "C18": " Round 4: a populate step that is retried after ext2fs_expand_dir gives back the block and inode accounting of the failed attempt (C18.f). Expanding an inline-data file keeps i_size (C18.g; genuine defect found and repaired).",
 "C19": " Round 4: a recycled qcow2 table/refcount/header buffer is cleared over the length it is written or was allocated with (C19.h).",
 "C20": " Round 4: EXT2_FLAG_MASTER_SB_ONLY is set only on a freshly opened handle - no call that may clear it reaches a set without a re-open (C20.g).",
}
for _k, _v in ROUND4.items():
    CLAIMED[_k]["text"] += _v

# clauses added in the fifth round (DESIGN.md §8.12)
ROUND5 = {
 "C01": " Round 5: the flush at the end writes every primary descriptor block whatever EXT2_FLAG_MASTER_SB_ONLY says (C01.m, shared with C20.c; guards written `A || B` are seen).",
 "C02": " Round 5: a read whose result is taken as the inode-checksum verdict bypasses pass 1's stashed inode (C02.h).",
 "C04": " Round 5: in the block-device emulation the channel is chosen by the device the request names - fs->io for K_DEV_FS, journal_io otherwise (C04.f).",
 "C05": " Round 5: -D folds case only in directories that carry EXT4_CASEFOLD_FL (C05.h).",
 "C06": " Round 5: directory-block walkers in debugfs validate rec_len before they stride by it (C06.f); rw_bitmaps.c and resize2fs -P's minimum-size computation joined the reference scope; two genuine defects (endless dirsearch, SIGSEGV in resize2fs -f -P) repaired.",
 "C08": " Round 5: a helper that re-points i_file_acl in the caller's inode copy raises its out-flag on every successful return (C08.h).",
 "C09": " Round 5: an indirect block is released only after it was found empty (C09.t); the punched range is carried correctly from level to level (C09.u; two genuine defects repaired).",
 "C10": " Round 5: an index node's limit is computed with the index tail, not the leaf tail (C10.k); a name longer than EXT2_NAME_LEN is refused before insertion (C10.l); '/name' is looked up in the root (C10.j); three genuine defects repaired.",
 "C11": " Round 5: a full index node is recognised before its limit is lowered (C11.h); switching dir_index off leads to the directory rewrite or to a request for e2fsck with and without metadata_csum (C11.i; genuine defect repaired).",
 "C12": " Round 5: every return of 0 of a tool's undo set-up has switched to undo_io_manager or found no undo directory (C12.l).",
 "C14": " Round 5: the external journal's ext2 superblock is verified through a handle with metadata_csum forced on (C14.k).",
 "C15": " Round 5: nothing that can fail follows the release of an attribute's old value inode (C15.g).",
 "C16": " Round 5: a copy takes every header field from its source (C16.f); bulk get clears its output on every path (C16.g); compare converts cluster indices to block numbers (C16.h); two genuine defects repaired.",
 "C17": " Round 5: data read from the device is copied only into a cache slot taken for a block that was absent (C17.e).",
 "C20": " Round 5: the flush2 writer rules see guards written `A || B`.",
}
for _k, _v in ROUND5.items():
    CLAIMED[_k]["text"] += _v
ROUND6 = {
 "C01": " After round 5: pass 1B writes a cloned EA block through the checksumming writer and gives up the old block's claim on every path (C01.n; two genuine defects repaired).",
 "C06": " After round 5: a recursion depth read from the disk is range-checked before the first call (C06.g); a loop advanced by the result of read() is left when read() returns 0 (C06.h); two genuine hangs repaired.",
 "C09": " After round 5: a write into the inline area copies the caller's count to buf + pos and stores max(old length, end of the write) (C09.v; genuine defect repaired).",
 "C15": " After round 5: the xattr commands of debugfs report every failing library call (C15.h; genuine defect repaired).",
 "C18": " After round 5: every kind of multiply-linked object goes through the hard-link lookup (C18.c); on every successful copy the inline state is compared with the length (C18.h); two genuine defects repaired.",
 "C19": " After round 5: unlinked inodes are passed over only off the orphan list (C19.b); qcow2-to-raw conversion starts from an empty file (C19.g); a continued partial write asks for the remaining count (C19.i); three genuine defects repaired.",
}
for _k, _v in ROUND6.items():
    CLAIMED[_k]["text"] += _v
ROUND7 = {
 "C01": " Round 6: a counter handed to ext2fs_iblk_add_blocks() goes up only behind the allocator (C01.o).",
 "C02": " Round 6: every group's fixed metadata is reserved before any location is judged (C02.i).",
 "C03": " Round 6: the revoke record loop is bounded by the block's r_count (C03.i).",
 "C04": " Round 6: the flush in front of the replay waits for the device (C04.g).",
 "C05": " Round 6: in calculate_tree() the quantity measured against the capacity equals the number of entries written (C05.i, linear forms).",
 "C06": " Round 6: a direct index into a null-terminated table stops short of the marker (C06.i); a debugfs function that tests current_fs dereferences it only behind a test (C06.j); buffers for ext2fs_inline_data_get() hold the whole inline area (C06.k); directory walkers stop when no entry header fits (C06.f); three genuine memory-safety defects repaired.",
 "C07": " Round 6: a configuration is refused after the last thing that can switch the tested feature on (C07.g).",
 "C10": " Round 6: a leaf split leaves something behind (C10.m; genuine defect repaired).",
 "C11": " After round 5: clusters of a removed journal are released once (C11.j), no orphan file without a journal (C11.k), a request for e2fsck stands (C11.l), inode tables grow inside the file system (C11.m), the user taken off a shared journal is this file system (C11.n); five genuine defects repaired.  Round 6: quota off disables every type whatever Q_flag says (C11.o).",
 "C13": " Round 6: flag constants of twelve families are used only in the field of their own family (C13.g); C13.a follows the flag translation into a helper.",
 "C14": " Round 6: the walk that repairs extent checksums moves one node at a time (C14.l).",
 "C15": " Round 6: a vacated slot of the attribute array is cleared whenever the count goes down (C15.i).",
 "C16": " Round 6: an extent touching a range from outside does not count as removed (C16.i; genuine defect repaired).",
 "C18": " Round 6: partial tail writes fill the block buffer first (C18.i, shared with C09.d); no error message of __populate_fs() is followed by a zero status (C18.j; genuine defect repaired).",
 "C19": " Round 6: the pending-hole counter of the raw writer never reaches 0 behind a hole (C19.j).",
 "C20": " Round 6: the owner of a block in a new backup area is searched among all old groups (C20.h).",
}
for _k, _v in ROUND7.items():
    CLAIMED[_k]["text"] += _v
ROUND8 = {
 "C02": " A climb towards the root tests the done map and marks it afterwards, so that a detached directory cycle reaches the loop detector (C02.j; genuine defect repaired).",
 "C09": " The kept zero buffer is remade for another block size (C09.x); inline files are resized in the inline area (C09.y); two genuine defects repaired.",
 "C15": " Set refuses a value the reader refuses (C15.j); a value inode that could not be filled is taken back (C15.k); two genuine defects repaired.",
}
for _k, _v in ROUND8.items():
    CLAIMED[_k]["text"] += _v
ROUND9 = {
 "C01": " Round 7: an extent handed to ext2fs_extent_insert() by the tree rebuild has been measured against the maximum of its kind (C01.p).",
 "C02": " Round 7: `start + len - 1` is held to the exclusive comparison with the block count as well (C02.e).",
 "C03": " Round 7: transaction numbers are compared on a 32-bit signed difference (C03.j).",
 "C05": " Round 7: an inline directory whose EA part is exactly one entry is not too small (C05.j).",
 "C06": " Round 7: an extent block is checksummed only after its header was verified (C06.m); path_append() counts separator and NUL (C06.l; genuine defect repaired).",
 "C07": " Round 7: the orphan file is charged the blocks its walk allocated (C07.h).",
 "C08": " Round 7: a renumbered inode takes the superblock's reference along (C08.i; genuine defect repaired); a shortened bad-block list is written back on every successful return (C08.j).",
 "C09": " Round 7: punching a hole into an extent cuts nothing before the right half is inserted (C09.z).",
 "C10": " Round 7: debugfs rm/rmdir release the inode only behind the outcome of the unlink (C10.n; genuine defect repaired); the hash version kept for a directory is the one its names are looked up with (C10.o).",
 "C11": " Round 7: `-O none` consults clear_ok_array (C11.p; genuine defect repaired); a quota leaf leaves the free list when its last slot is taken (C11.q).",
 "C12": " Round 7: -I keeps the undo file given with -z (C12.m) and an empty run leaves a well-formed undo file (C12.n) - two genuine defects repaired; an odd-sized unix_io write is preceded by a write-back of the whole cache (C12.o).",
 "C14": " Round 7: every block of a renumbered directory is rewritten, empty ones too (C14.m).",
 "C15": " Round 7: a value inode marked before it is filled is un-marked on the failing path (C15.k).",
 "C16": " Round 7: the read cursor and its successor move together (C16.j).",
 "C17": " Round 7: a bounce-buffered write pre-reads a unit entered at a non-zero offset (C17.f).",
 "C18": " Round 7: no populate step writes back a stale parent inode (C18.k, shared with C10.i).",
 "C20": " Round 7: a backup slot follows the last group only from there (C20.i; genuine defect repaired); old backup blocks are released only when no new slot names the group (C20.j).",
}
for _k, _v in ROUND9.items():
    CLAIMED[_k]["text"] += _v
ROUND10 = {
 "C04": " The re-open after the replay passes the I/O options of the first open (C04.h; genuine defect repaired).",
 "C06": " Inline data is copied into a file handle's buffer only after its size was compared with the buffer (C06.n; genuine defect repaired).",
 "C09": " A failed mapping releases only a block this call allocated (C09.aa; genuine defect repaired).",
 "C10": " An inline directory gives up its inline copy only when a block can be had (C10.p; genuine defect repaired).",
 "C15": " A name part longer than 255 bytes is refused (C15.l) and a value file is read whole (C15.m); two genuine defects repaired.",
 "C16": " An empty tree is not reported as full by find_first_zero (C16.k; genuine defect repaired).",
 "C19": " Of the qcow2 refcount arithmetic one clause is claimed: a refcount block started for the cluster reserved for an L2 table goes behind it (C19.k).",
 "C20": " The old last group's backup is released block for block (C20.k; genuine defect repaired).",
}
for _k, _v in ROUND10.items():
    CLAIMED[_k]["text"] += _v
ROUND11 = {
 "C13": " For e2fsck -n a consent analysis (least fixpoint over the call graph and per-function CFGs) decides that every ext2fs_mark_super_dirty() (C13.h), every write request e2fsck sends itself (C13.i) and every library writer it calls (C13.j; 18 calls gated through values are listed with the reason, each read) is reached only past something -n cannot give: !(READONLY/NO), an option PRS refuses or clears with -n, an accepted fix_problem()/ask(), or in-memory state set only past one; seven genuine defects repaired.",
 "C15": " With nothing left for it the EA block is released, not kept (C15.n; genuine defect repaired).",
}
for _k, _v in ROUND11.items():
    CLAIMED[_k]["text"] += _v
ROUND12 = {
 "C01": " An old /lost+found directory unlinked from the root always restarts the check (C01.q); the directories e2fsck re-creates are extent mapped where the file system has extents (C01.r; genuine defect repaired).",
 "C05": " The rebuilt directory's mapping is extended before its blocks are written, on every path (C05.k).",
 "C09": " A new file size always clears the rest of its last block (C09.ab).",
 "C12": " tune2fs offers the undo manager before any modifying call of main (C12.p); e2undo's second open of the device carries the offset of the replay (C12.q; genuine defect repaired).",
 "C13": " The MMP block is written only behind a test of EXT2_FLAG_RW (C13.k).",
}
for _k, _v in ROUND12.items():
    CLAIMED[_k]["text"] += _v
for _k in CLAIMED:
    CLAIMED[_k]["text"] += " Names of locals, parameters and file-local functions are mapped onto the pinned tree's before any rule runs (renaming all of them is silent)."

checks = []
na = []
for p in props:
    pid = p["id"]
    if pid in CLAIMED and os.path.exists("%s/rules/%s.py" % (V, pid)):
        c = CLAIMED[pid]
        checks.append({
            "property_id": pid,
            "quick_cmd": "./check %s --tier quick" % pid,
            "thorough_cmd": "./check %s --tier thorough" % pid,
            "evidence_file": "/verif/evidence/%s.json" % pid,
            "replay_cmd_template": "./check %s --replay {path}" % pid,
            "engine": "e2facts+engine",
            "level_claimed": {"category": "other", "text": c["text"], "design_ref": c["ref"]},
            "level_note": "trusted: clang 14 parser/Sema/CFG builder, tool/e2facts.cc, vlib/*.py, the rule tables in rules/%s.py; "
                          "structural necessary conditions only; CFG paths over-approximate feasible paths; "
                          "unselected #ifdef arms are not analysed" % pid,
            "technique": c["technique"],
        })
    else:
        na.append({"property_id": pid, "reason": NA_REASON.get(pid, "check not yet implemented in this session (framework under construction)")})

m = {
 "version": 1,
 "setup_cmd": "make -s -C /verif/tool",
 "hooks": {"guard": "TYTSO_E2FSPROGS_VERIF", "enable": "no hooks: the analyses read the unmodified source",
           "baseline_off_cmd": "cd /repo && make -s -j16 >/dev/null && make -s -C tests check",
           "source_commits": [], "add_only": True},
 "engines": [{"name": "e2facts+engine", "path": "/verif/tool/e2facts.cc, /verif/vlib",
              "serves_properties": [c["property_id"] for c in checks],
              "kind_free_text": "libTooling fact extractor (clang 14 AST + CFG) and a Python rule engine: call graph, "
                                "dominance/must-pass-through, control dependence, MAY/MUST summaries, path-sensitive constant propagation"}],
 "checks": checks,
 "notes": "Static analysis only. Exit codes: 0 holds, 1 VIOLATION, 2 analysis broken (anchor vanished / floor not met). See DESIGN.md.",
 "not_applicable": na,
}
json.dump(m, open(V + "/MANIFEST.json", "w"), indent=1)
print("claimed", [c["property_id"] for c in checks])
