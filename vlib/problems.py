"""e2fsck problem table, read from the initialiser of problem_table[] / pr_latch_info[]."""
from . import tree as T
from .engine import Broken


class Row:
    __slots__ = ("code", "name", "prompt", "prompt_name", "flags", "flag_names", "second", "index", "desc", "latch")

    @property
    def no_ok(self):
        return "PR_NO_OK" in self.flag_names

    @property
    def fatal(self):
        return "PR_FATAL" in self.flag_names

    @property
    def after_code(self):
        return "PR_AFTER_CODE" in self.flag_names

    @property
    def not_a_fix(self):
        return "PR_NOT_A_FIX" in self.flag_names


def load(world):
    prog = world.program("e2fsck")
    g = world.globals_named("problem_table", prog)
    if len(g) != 1 or g[0]["init"].get("k") != "arr":
        raise Broken("problem_table[] initialiser not found")
    rows = []
    for i, r in enumerate(g[0]["init"]["e"]):
        f = r.get("f", {})
        row = Row()
        row.index = i
        row.code = T.const(f.get("e2p_code")) or 0
        row.name = (f.get("e2p_code") or {}).get("m") or ""
        row.prompt = T.const(f.get("prompt")) or 0
        row.prompt_name = (f.get("prompt") or {}).get("m") or ("PROMPT_NONE" if row.prompt == 0 else "?")
        row.flags = T.const(f.get("flags")) or 0
        row.flag_names = T.macros(f.get("flags")) if f.get("flags") else set()
        row.latch = 0
        for x in T.walk(f.get("flags") or {}):
            if isinstance(x.get("m"), str) and x["m"].startswith("PR_LATCH_") and x["m"] != "PR_LATCH_MASK":
                row.latch = x.get("c", 0)
        row.second = T.const(f.get("second_code")) or 0
        row.desc = (f.get("e2p_description") or {}).get("v", "")
        rows.append(row)
    latch = []
    gl = world.globals_named("pr_latch_info", prog)
    if len(gl) != 1:
        raise Broken("pr_latch_info[] not found")
    for r in gl[0]["init"]["e"]:
        f = r.get("f", {})
        latch.append({"latch_code": T.const(f.get("latch_code")) or 0,
                      "question": T.const(f.get("question")) or 0,
                      "end_message": T.const(f.get("end_message")) or 0,
                      "name": (f.get("latch_code") or {}).get("m", "")})
    return rows, latch


def by_code(rows):
    return {r.code: r for r in rows if r.code}


def codes_at(fn, call_node, prog=None):
    """problem codes that may reach the `code` argument (index 1) of a fix_problem() call:
    constant, or a local/param all of whose reaching definitions in fn are constants.
    -> (set of (value, name), resolved: bool)"""
    a = call_node.ev["x"].get("a", [])
    if len(a) < 2:
        return set(), False
    e = T.strip(a[1])
    c = T.const(e)
    if c is not None and e.get("k") != "v":
        return {(c, _name(e))}, True
    if e.get("k") == "?":
        out = set()
        ok = True
        for br in (e["t"], e["f"]):
            cb = T.const(br)
            if cb is None:
                ok = False
            else:
                out.add((cb, _name(T.strip(br))))
        return out, ok
    if e.get("k") == "v":
        out = set()
        ok = True
        n = 0
        for s in fn.events("S"):
            l = T.strip(s.ev["lhs"])
            if l.get("k") == "v" and l["n"] == e["n"]:
                n += 1
                r = s.ev.get("rhs")
                cr = T.const(r)
                rs = T.strip(r) if isinstance(r, dict) else None
                if cr is not None and s.ev["o"] == "=":
                    out.add((cr, _name(rs)))
                elif rs is not None and rs.get("k") == "?" and s.ev["o"] == "=":
                    for br in (rs["t"], rs["f"]):
                        cb = T.const(br)
                        if cb is None:
                            ok = False
                        else:
                            out.add((cb, _name(T.strip(br))))
                else:
                    ok = False
        if e.get("s") == "p" and prog is not None:
            # parameter: constants passed at every direct call site
            try:
                pi = fn.params.index(e["n"])
            except ValueError:
                pi = -1
            callers = prog.callers().get(fn.key, [])
            if pi < 0 or not callers:
                ok = False
            for (cfn, cn) in callers:
                args = cn.ev["x"].get("a", [])
                cv = T.const(args[pi]) if pi < len(args) else None
                if cv is None:
                    ok = False
                else:
                    out.add((cv, _name(T.strip(args[pi]))))
            n += 1
        if n == 0:
            ok = False
        out = {(v, nm) for (v, nm) in out if v != 0}
        return out, ok
    return set(), False


def _name(e):
    if not isinstance(e, dict):
        return ""
    return e.get("om") or e.get("m") or ""
