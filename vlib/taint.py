"""Bounds-discipline facts for C06: values derived from on-disk record fields, the sinks where they are
used as length / index / divisor / shift / allocation size, and the comparison literals on them."""
from . import tree as T
from .rulelib import is_call, resolve_local

ONDISK = {
    "ext2_super_block", "ext2_group_desc", "ext4_group_desc", "ext2_inode", "ext2_inode_large", "ext2_dir_entry",
    "ext2_dir_entry_2", "ext2_dir_entry_tail", "ext2_dx_root_info", "ext2_dx_entry", "ext2_dx_countlimit", "ext2_dx_tail",
    "ext3_extent_header", "ext3_extent", "ext3_extent_idx", "ext3_extent_tail", "ext2_ext_attr_header", "ext2_ext_attr_entry",
    "journal_superblock_s", "journal_header_s", "journal_block_tag_s", "journal_block_tag3_s", "jbd2_journal_block_tail",
    "journal_revoke_header_s", "commit_header", "mmp_struct", "ext4_orphan_block_tail", "undo_header", "undo_key",
    "undo_key_block", "undo_key_info", "ext2_qcow2_hdr", "ext2_image_hdr", "ext4_fc_tl", "ext4_fc_add_range",
    "ext4_fc_del_range", "ext4_fc_dentry_info", "ext4_fc_inode", "ext4_fc_tail", "ext4_fc_head", "ext2_inline_data",
}
LEN_CALLS = {"memcpy": 2, "memmove": 2, "memset": 2, "memcmp": 2, "strncpy": 2, "strncmp": 2, "__builtin___memcpy_chk": 2,
             "__builtin___memset_chk": 2, "__builtin___memmove_chk": 2}
ALLOC_CALLS = {"ext2fs_get_mem": (0,), "ext2fs_get_memzero": (0,), "ext2fs_get_array": (0, 1), "ext2fs_get_arrayzero": (0, 1),
               "malloc": (0,), "calloc": (0, 1), "realloc": (1,), "ext2fs_resize_mem": (1,), "e2fsck_allocate_memory": (1,)}
IO_CALLS = {"io_channel_read_blk64": 2, "io_channel_read_blk": 2, "io_channel_write_blk64": 2, "io_channel_write_blk": 2}


def ondisk_fields(e):
    return {"%s.%s" % (r, f) for (r, f) in T.fields(e) if r in ONDISK}


class FnTaint:
    def __init__(self, fn, prog=None, _depth=0):
        self.fn = fn
        self.prog = prog     # when given, file-local callees are looked into for what they store through out-parameters
        self._depth = _depth
        self.src = {}        # local name -> set of on-disk fields it derives from
        self._fix()

    def _out_param_sources(self, call, idx):
        """on-disk fields a file-local callee stores through its parameter number idx (`*p = …`), None if the callee
        cannot be looked into"""
        if self.prog is None or self._depth >= 2:
            return None
        name = call.get("fn")
        if not name:
            return None
        out = None
        for g in self.prog.lookup(name, self.fn):
            if g.file != self.fn.file or idx >= len(g.params):
                continue
            p_ = g.params[idx]
            gt = FnTaint(g, self.prog, self._depth + 1)
            for n in g.events("S"):
                l = T.strip(n.ev["lhs"])
                if isinstance(l, dict) and l.get("k") == "u" and l.get("o") == "*" and T.path(l.get("e")) == p_:
                    out = (out or set()) | gt.sources(n.ev.get("rhs") or {})
        return out

    def _fix(self):
        changed = True
        rounds = 0
        while changed and rounds < 8:
            changed = False
            rounds += 1
            for n in self.fn.events("S"):
                l = T.strip(n.ev["lhs"])
                if not isinstance(l, dict):
                    continue
                if l.get("k") == "v":
                    key = l["n"]
                elif l.get("k") == "m" and l.get("r") not in ONDISK:
                    key = T.path(l)       # field of a local / context structure
                    if key is None or "?" in key:
                        continue
                else:
                    continue
                s = self.sources(n.ev.get("rhs") or {})
                if n.ev["o"] not in ("=",):
                    s = s | self.src.get(key, set())
                if s and not s <= self.src.get(key, set()):
                    self.src[key] = self.src.get(key, set()) | s
                    changed = True
            # out-parameters: a call given a pointer to an on-disk record and the address of a scalar local fills
            # the local from that record (ext2fs_get_rec_len(fs, dirent, &rec_len), …)
            for n in self.fn.events("C"):
                c = n.ev["x"]
                args = c.get("a", [])
                recs = set()
                for a in args:
                    a = T.strip(a)
                    if isinstance(a, dict) and a.get("k") in ("v", "m"):
                        t = a.get("t", "").replace("struct ", "").replace("const ", "").strip()
                        if t.endswith("*") and t[:-1].strip() in ONDISK:
                            recs.add(t[:-1].strip())
                nm = c.get("fn") or c.get("mac") or "call"
                for ai, a in enumerate(args):
                    a = T.strip(a)
                    if isinstance(a, dict) and a.get("k") == "u" and a.get("o") == "&":
                        v = T.strip(a.get("e"))
                        if isinstance(v, dict) and v.get("k") == "v" and v.get("s") == "l" and "*" not in v.get("t", "") \
                                and "struct" not in v.get("t", ""):
                            srcs = self._out_param_sources(c, ai)
                            if not srcs:
                                srcs = {"%s.(%s)" % (r, nm) for r in recs}
                            if not srcs:
                                continue
                            if not srcs <= self.src.get(v["n"], set()):
                                self.src[v["n"]] = self.src.get(v["n"], set()) | srcs
                                changed = True

    def sources(self, e):
        out = set(ondisk_fields(e))
        for x in T.walk(e):
            k = x.get("k")
            if k == "v":
                out |= self.src.get(x["n"], set())
            elif k == "m" and x.get("r") not in ONDISK:
                p = T.path(x)
                if p:
                    out |= self.src.get(p, set())
        return out

    # ------------------------------------------------------------------ sinks
    def sinks(self):
        """[(node, kind, op, sources, expr)]"""
        res = []
        fn = self.fn
        for n in fn.nodes():
            trees = []
            if n.ev:
                if n.ev["e"] == "C":
                    c = n.ev["x"]
                    nm = c.get("fn") or c.get("mac") or ""
                    names = T.call_names(c)
                    for table, kind in ((LEN_CALLS, "len"), (IO_CALLS, "iolen")):
                        for cn in names:
                            if cn in table:
                                i = table[cn]
                                a = c.get("a", [])
                                if i < len(a):
                                    s = self.sources(a[i])
                                    if s and T.const(a[i]) is None:
                                        res.append((n, kind, cn.replace("__builtin___", "").replace("_chk", ""), s, a[i]))
                    for cn in names:
                        if cn in ALLOC_CALLS:
                            a = c.get("a", [])
                            for i in ALLOC_CALLS[cn]:
                                if i < len(a):
                                    s = self.sources(a[i])
                                    if s and T.const(a[i]) is None:
                                        res.append((n, "alloc", cn, s, a[i]))
                    trees.extend(c.get("a", []))
                elif n.ev["e"] == "S":
                    trees.extend([n.ev.get("lhs"), n.ev.get("rhs")])
                elif n.ev["e"] == "R":
                    trees.append(n.ev.get("x"))
            else:
                t = fn.blocks[n.bid].get("t")
                if t:
                    trees.append(t.get("c"))
            if not n.ev:
                b_ = self._bound_sink(n)
                if b_:
                    res.append(b_)
            for tr in trees:
                if not isinstance(tr, dict):
                    continue
                for x in T.walk(tr):
                    k = x.get("k")
                    if k == "x":
                        s = self.sources(x.get("i") or {})
                        if s and T.const(x.get("i")) is None:
                            res.append((n, "index", "[]", s, x["i"]))
                    elif k == "b" and x.get("o") in ("/", "%"):
                        s = self.sources(x.get("r") or {})
                        if s and T.const(x.get("r")) is None:
                            res.append((n, "div", x["o"], s, x["r"]))
                    elif k == "b" and x.get("o") in ("<<", ">>"):
                        s = self.sources(x.get("r") or {})
                        if s and T.const(x.get("r")) is None:
                            res.append((n, "shift", x["o"], s, x["r"]))
                    elif k == "b" and x.get("o") == "+":
                        l, r = T.strip(x.get("l")), T.strip(x.get("r"))
                        for p, q in ((l, r), (r, l)):
                            if isinstance(p, dict) and p.get("k") in ("v", "m", "cast") and _is_ptr(p):
                                s = self.sources(q or {})
                                if s and T.const(q) is None:
                                    res.append((n, "ptr+", "+", s, q))
        return res

    def _index_vars(self):
        """locals used as a subscript or added to a pointer somewhere in the function"""
        if getattr(self, "_ivs", None) is not None:
            return self._ivs
        ivs = set()
        from .width import _exprs_of
        for line, e in _exprs_of(self.fn):
            for x in T.walk(e):
                if not isinstance(x, dict):
                    continue
                if x.get("k") == "x":
                    ivs |= T.vars_in(x.get("i") or {})
                elif x.get("k") == "b" and x.get("o") in ("+", "+=", "-"):
                    l, r = T.strip(x.get("l")), T.strip(x.get("r"))
                    for p_, q_ in ((l, r), (r, l)):
                        if isinstance(p_, dict) and p_.get("k") in ("v", "m", "cast") and _is_ptr(p_):
                            ivs |= T.vars_in(q_ or {})
        for n in self.fn.events("S"):
            # p += n / p++ on a pointer: the pointer itself walks
            l = T.strip(n.ev["lhs"])
            if isinstance(l, dict) and l.get("k") == "v" and _is_ptr(l) and n.ev.get("o") in ("+=", "++"):
                ivs.add(l["n"])
        self._ivs = ivs
        return ivs

    def _bound_sink(self, n):
        """a loop/branch test `iv < E` where E derives from the disk and iv indexes memory: E is a trusted bound"""
        t = self.fn.blocks[n.bid].get("t")
        if not t or not isinstance(t.get("c"), dict) or t.get("k") == "switch":
            return None
        for x in T.walk(t["c"]):
            if not (isinstance(x, dict) and x.get("k") == "b" and x.get("o") in ("<", "<=", ">", ">=")):
                continue
            iv, bd = (x.get("l"), x.get("r")) if x["o"] in ("<", "<=") else (x.get("r"), x.get("l"))
            iv0 = T.strip(iv)
            if not (isinstance(iv0, dict) and iv0.get("k") == "v" and iv0.get("s") in ("l", "p")):
                continue
            if self.sources(iv) or T.const(bd) is not None:
                continue
            s = self.sources(bd)
            if not s or iv0["n"] not in self._index_vars():
                continue
            return (n, "bound", "<", s, bd)
        return None

    def bound_checks(self, node, expr):
        """tests that every path to the bound sink `node` passes and that look at the bound value `expr` other than
        as the limit of an index variable (a range check, or the test of a clamp): [block ids]"""
        fn = self.fn
        out = []
        want_src, want_vars = self.sources(expr), T.vars_in(expr)
        for bid, b in fn.blocks.items():
            t = b.get("t")
            if bid == node.bid or not t or not isinstance(t.get("c"), dict) or t.get("k") == "switch":
                continue
            hit = False
            for x in T.walk(t["c"]):
                if not (isinstance(x, dict) and x.get("k") == "b" and x.get("o") in ("<", "<=", ">", ">=", "==", "!=")):
                    continue
                if not ((self.sources(x) & want_src) or (T.vars_in(x) & want_vars)):
                    continue
                iv, bd = (x.get("l"), x.get("r")) if x["o"] in ("<", "<=") else (x.get("r"), x.get("l"))
                iv0 = T.strip(iv)
                if x["o"] in ("<", "<=", ">", ">=") and isinstance(iv0, dict) and iv0.get("k") == "v" and \
                        iv0["n"] in self._index_vars() and not self.sources(iv):
                    continue        # another use of the value as a limit
                hit = True
            if hit and fn.dominated_by(node, [fn.block_end(bid)]):
                out.append(bid)
        return out

    # ------------------------------------------------------------------ guards
    def guard_shape(self, atom):
        """canonical, name-independent shape of a comparison literal on tainted values (None if it is not one)"""
        a = T.strip(atom)
        if not isinstance(a, dict):
            return None
        if not self.sources(a):
            return None
        names = {}
        vague = [False]

        def canon(e):
            e = T.strip(e)
            if not isinstance(e, dict):
                return "?"
            k = e.get("k")
            c = T.const(e)
            if c is not None and k != "v":
                ms = sorted(m for m in T.macros(e) if not m.startswith("__"))
                if ms and len(ms) <= 3:
                    return "|".join(ms) if k != "i" or e.get("m") else str(c)
                if "sz" in e:
                    return "sizeof(%s)" % e["sz"].replace("struct ", "")
                if "off" in e:
                    return "offsetof(%s,%s)" % (e.get("offr", ""), e["off"])
                return str(c)
            if k == "m":
                if e.get("r") in ONDISK:
                    return "%s.%s" % (e["r"], e["f"])
                pth = T.path(e)
                src = sorted(self.src.get(pth, [])) if pth else []
                if len(src) == 1:
                    return "<" + src[0] + ">"
                return "%s.%s" % (e.get("r", "?"), e["f"])
            if k == "v":
                if e.get("s") == "l":
                    r = resolve_local(self.fn, e)
                    if r is not e and T.strip(r) is not e and not (T.vars_in(r) & {e["n"]}):
                        return canon(r)
                    src = sorted(self.src.get(e["n"], []))
                    if len(src) == 1:
                        return "<" + src[0] + ">"
                    if src and len(src) <= 3:
                        return "<" + "|".join(src) + ">"
                    if src:
                        vague[0] = True      # a reused local (retval, i, …): not a specific bounds check
                        return "<*>"
                if e["n"] not in names:
                    names[e["n"]] = "$%d" % len(names)
                return names[e["n"]]
            if k == "c":
                nm = e.get("mac") or e.get("fn") or "call"
                if nm in ("ext2fs_le32_to_cpu", "ext2fs_le16_to_cpu", "ext2fs_le64_to_cpu", "ext2fs_be32_to_cpu", "ntohl", "htonl",
                          "be32_to_cpu", "be16_to_cpu", "be64_to_cpu", "ext2fs_swab32", "ext2fs_swab16", "__bswap_32", "__bswap_16",
                          "ext2fs_cpu_to_le32", "ext2fs_cpu_to_le16", "cpu_to_be32") and e.get("a"):
                    return canon(e["a"][0])
                return "%s(%s)" % (nm, ",".join(canon(x) for x in e.get("a", [])[:3]))
            if k == "u":
                return "%s%s" % (e.get("o"), canon(e["e"]))
            if k == "b":
                o = e.get("o")
                l, r = canon(e["l"]), canon(e["r"])
                if o in (">", ">="):
                    o = "<" if o == ">" else "<="
                    l, r = r, l
                if o == "<=":
                    # the same test with the outcome negated: `a <= b` is `!(b < a)`; a shape carries no polarity
                    o = "<"
                    l, r = r, l
                if o in ("+", "*", "==", "!=", "&", "|") and r < l:
                    l, r = r, l
                return "(%s %s %s)" % (l, o, r)
            if k == "x":
                return "%s[%s]" % (canon(e["b"]), canon(e["i"]))
            if k == "?":
                return "(%s?%s:%s)" % (canon(e["c0"]), canon(e["t"]), canon(e["f"]))
            return "?"
        if a.get("k") == "b" and a.get("o") in ("<", ">", "<=", ">=", "==", "!="):
            sh = canon(a)
        elif a.get("k") in ("v", "m", "u", "c", "b"):
            sh = "nz:" + canon(a)
        else:
            return None
        if vague[0] or "?" in sh:
            return None
        # a local that holds one on-disk field reads like the field itself: whether the value took a detour through
        # a variable (or a helper's out-parameter) is not part of the comparison's meaning
        import re as _re
        return _re.sub(r"<([^<>|]+)>", r"\1", sh)


def _is_ptr(p):
    t = p.get("t", "")
    if p.get("k") == "cast":
        return "*" in t
    return "*" in t or "[" in t
