"""Problem-gating analysis for e2fsck (C05.a, C13): which sites execute only after a problem was
reported and its fix accepted.

accepted edge   : a branch edge on which a fix_problem()/end_problem_latch() result — or a value derived
                  from one — is non-zero
answer function : every possibly-non-zero return is an answer (return fix_problem(...), or unreachable once
                  the accepted edges are removed)
gated variable / field : every non-zero store to it, program-wide, is gated
"""
from . import tree as T
from .rulelib import is_call, resolve_local

ANSWER_SEEDS = ("fix_problem", "end_problem_latch")


class Gating:
    def __init__(self, prog, files_prefix="e2fsck/", mode_bits=(), reviewed_answer_fns=()):
        self.prog = prog
        self.mode_bits = tuple(mode_bits)
        self.gated_bits = set()
        self.prefix = files_prefix
        self.fns = [f for f in prog.functions() if f.file.startswith(files_prefix)]
        self.answer_fns = set(ANSWER_SEEDS) | set(reviewed_answer_fns)
        self.gated_fields = set()
        self.zero_fns = self._compute_zero_fns()
        self._edges = {}
        self._gv = {}
        for _round in range(4):
            before = (len(self.answer_fns), len(self.gated_fields), len(self.gated_bits))
            self._edges.clear()
            self._gv.clear()
            self._compute_answer_fns()
            self._compute_gated_fields()
            if (len(self.answer_fns), len(self.gated_fields), len(self.gated_bits)) == before:
                break
        self._edges.clear()
        self._gv.clear()
        self._sites = None

    # ----------------------------------------------------------------------------------
    def _is_answer_expr(self, fn, e):
        e = resolve_local(fn, e)
        for c in T.calls(e):
            if c.get("fn") in self.answer_fns:
                return True
        lf = T.last_field(e)
        if lf and lf in self.gated_fields:
            return True
        return False

    def edges(self, fn):
        """{(bid, succ index)} accepted edges of fn, and the set of gated locals"""
        if fn.key in self._edges:
            return self._edges[fn.key]
        edges = set()
        gv = set()
        for _r in range(3):
            for bid in fn.blocks:
                lit = fn.literal(bid)
                if not lit:
                    continue
                atom, pos = lit
                a0 = T.strip(atom)
                ans = self._is_answer_expr(fn, atom) or self._is_answer_expr(fn, resolve_local(fn, atom))
                if not ans and isinstance(a0, dict) and a0.get("k") == "v" and a0["n"] in gv:
                    ans = True
                if not ans:
                    bt = T.bits_test(atom)
                    if bt and (bt[2] & set(self.mode_bits)):
                        ans = True          # an explicitly requested rewriting mode
                    elif bt and T.last_field(bt[0]) == ("e2fsck_struct", "flags") and bt[2] and bt[2] <= self.gated_bits:
                        ans = True          # a context flag that is only ever set on accepted answers
                if not ans and isinstance(a0, dict) and a0.get("k") == "b" and a0.get("o") == "==":
                    # `fixit == 1`, `ans > 0`-style comparisons of a gated local with a non-zero constant
                    for x, y in ((a0["l"], a0["r"]), (a0["r"], a0["l"])):
                        xs = T.strip(x)
                        if isinstance(xs, dict) and xs.get("k") == "v" and xs["n"] in gv and (T.const(y) or 0) != 0:
                            ans = True
                        # `fixit == 1` where fixit is either an answer or a constant other than 1
                        cy = T.const(y)
                        if not ans and isinstance(xs, dict) and xs.get("k") == "v" and xs.get("s") == "l" and cy not in (None, 0):
                            defs = [n for n in fn.events("S") if T.strip(n.ev["lhs"]).get("k") == "v"
                                    and T.strip(n.ev["lhs"])["n"] == xs["n"]]
                            if defs and any(self._is_answer_expr(fn, d.ev.get("rhs") or {}) for d in defs) and \
                                    all(self._is_answer_expr(fn, d.ev.get("rhs") or {}) or
                                        (d.ev["o"] == "=" and T.const(d.ev.get("rhs")) not in (None, cy)) for d in defs):
                                ans = True
                if ans:
                    edges.add((bid, 0 if pos else 1))
            r = self._reach_without(fn, edges)
            cand = {}
            for n in fn.events("S"):
                l = T.strip(n.ev["lhs"])
                if l.get("k") == "v" and l.get("s") in ("l", "sl"):
                    cand.setdefault(l["n"], []).append(n)
            new = set()
            for v, ns in cand.items():
                nz = [n for n in ns if not (n.ev["o"] == "=" and T.const(n.ev.get("rhs")) == 0)]
                if not nz:
                    continue
                if all((n not in r) or self._is_answer_expr(fn, n.ev.get("rhs") or {}) for n in nz):
                    new.add(v)
            if new <= gv:
                break
            gv |= new
        self._edges[fn.key] = edges
        self._gv[fn.key] = gv
        return edges

    def _reach_without(self, fn, edges):
        def ok(nn, si, m):
            return not ((nn.bid, si) in edges and nn is fn.block_end(nn.bid))
        return fn.reach([fn.entry_node()], edge_ok=ok)

    def direct(self, fn, node):
        return node not in self._reach_without(fn, self.edges(fn))

    def _compute_zero_fns(self):
        """functions every return of which yields 0 (constants, or calls of such functions)"""
        z = set()
        cand = [f for f in self.fns if f.raw.get("ret") != "void" and list(f.events("R"))]
        changed = True
        while changed:
            changed = False
            for fn in cand:
                if fn.name in z:
                    continue
                ok = True
                for n in fn.events("R"):
                    x = T.strip(n.ev.get("x"))
                    if x is None:
                        ok = False
                        break
                    if T.const(x) == 0:
                        continue
                    if isinstance(x, dict) and x.get("k") == "c" and x.get("fn") in z:
                        continue
                    ok = False
                    break
                if ok:
                    z.add(fn.name)
                    changed = True
        return z

    def _compute_answer_fns(self):
        for fn in self.fns:
            if fn.name in self.answer_fns or fn.raw.get("ret") == "void":
                continue
            rets = [n for n in fn.events("R") if n.ev.get("x") is not None]
            if not rets:
                continue
            r = self._reach_without(fn, self.edges(fn))
            ok = True
            some = False
            for n in rets:
                x = n.ev["x"]
                c = T.const(x)
                if c == 0:
                    continue
                xs0 = T.strip(x)
                if isinstance(xs0, dict) and xs0.get("k") == "c" and xs0.get("fn") in self.zero_fns:
                    continue
                if self._is_answer_expr(fn, x):
                    some = True
                    continue
                if n not in r:
                    some = True
                    continue
                xs = T.strip(x)
                if isinstance(xs, dict) and xs.get("k") == "v" and xs["n"] in self._gv.get(fn.key, set()):
                    some = True
                    continue
                ok = False
                break
            if ok and some:
                self.answer_fns.add(fn.name)

    def _compute_gated_fields(self):
        stores = {}
        for fn in self.fns:
            r = None
            for n in fn.events("S"):
                lf = T.last_field(n.ev["lhs"])
                if not lf or not lf[0]:
                    continue
                if n.ev["o"] == "=" and T.const(n.ev.get("rhs")) == 0:
                    stores.setdefault(lf, [])
                    continue
                if r is None:
                    r = self._reach_without(fn, self.edges(fn))
                g = (n not in r) or self._is_answer_expr(fn, n.ev.get("rhs") or {})
                stores.setdefault(lf, []).append(g)
        # context flag bits: every `ctx->flags |= BIT` gated
        bits = {}
        for fn in self.fns:
            r = None
            for n in fn.events("S"):
                if T.last_field(n.ev["lhs"]) != ("e2fsck_struct", "flags") or n.ev["o"] != "|=":
                    continue
                if r is None:
                    r = self._reach_without(fn, self.edges(fn))
                for m in T.macros(n.ev.get("rhs") or {}):
                    bits.setdefault(m, []).append(n not in r)
        for m, gs in bits.items():
            if gs and all(gs):
                self.gated_bits.add(m)
        for lf, gs in stores.items():
            # only small flag-like fields of e2fsck-private records
            rec = self.prog.world.records.get(lf[0])
            if gs and all(gs) and rec is not None and rec["file"].startswith(self.prefix) and \
                    lf not in (("e2fsck_struct", "flags"), ("e2fsck_struct", "options")):
                self.gated_fields.add(lf)

    # ----------------------------------------------------------------------------------
    def call_sites(self, fn):
        """direct call sites and the calls that received fn as a callback"""
        if self._sites is None:
            self._sites = {}
            for f2 in self.fns:
                for cn in f2.call_nodes():
                    c = cn.ev["x"]
                    if c.get("fn"):
                        for g in self.prog.lookup(c["fn"], f2):
                            self._sites.setdefault(g.key, []).append((f2, cn))
                    for a in c.get("a", []):
                        a0 = T.strip(a)
                        while isinstance(a0, dict) and a0.get("k") == "u" and a0.get("o") in ("&", "*"):
                            a0 = T.strip(a0["e"])
                        if isinstance(a0, dict) and a0.get("k") == "fn":
                            for g in self.prog.lookup(a0["n"], f2):
                                self._sites.setdefault(g.key, []).append((f2, cn))
        return self._sites.get(fn.key, [])

    def gated(self, fn, node, depth=0, seen=(), stop=None):
        """(ok, why)"""
        if self.direct(fn, node):
            return True, "problem-gated in %s" % fn.name
        if stop is not None:
            s = stop(fn, node)
            if s:
                return True, s
        if depth >= 6 or fn.key in seen:
            return False, "not gated in %s" % fn.name
        sites = self.call_sites(fn)
        if not sites:
            return False, "not gated in %s (no callers)" % fn.name
        why = []
        for (cf, cn) in sites:
            ok, w = self.gated(cf, cn, depth + 1, seen + (fn.key,), stop)
            if not ok:
                return False, "via %s:%d: %s" % (cf.name, cn.line, w)
            why.append(cf.name)
        return True, "every call site gated: %s" % sorted(set(why))[:6]


FLAG_RECORDS = ("process_block", "check_dir_struct", "process_inode_block", "dup_cluster", "dup_inode", "clone_struct",
                "fix_dotdot_struct", "expand_dir_struct", "fill_dir_struct", "out_dir", "process_orphan_block_data",
                "problem_context", "lookup_struct", "dir_info", "dx_dir_info", "extent_list")
