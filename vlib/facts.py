"""Run the extractor over every unit of the compilation database (parallel, cached by a
digest of the *current* sources) and load the resulting facts."""
import hashlib, json, os, subprocess, sys, time, glob, pickle
from concurrent.futures import ThreadPoolExecutor
from . import compdb

VERIF = os.path.dirname(os.path.dirname(os.path.abspath(__file__)))
TOOL = os.path.join(VERIF, "tool", "e2facts")
CACHE = os.environ.get("VERIF_CACHE", os.path.join(VERIF, ".cache"))
REPO = compdb.REPO

HEADER_DIRS = ["lib", "lib/ext2fs", "lib/e2p", "lib/support", "lib/et", "lib/ss", "lib/uuid",
               "lib/blkid", "e2fsck", "misc", "resize", "debugfs", "."]


def _headers_digest():
    h = hashlib.sha256()
    for d in HEADER_DIRS:
        for p in sorted(glob.glob(os.path.join(REPO, d, "*.h"))):
            h.update(p.encode())
            with open(p, "rb") as f:
                h.update(hashlib.sha256(f.read()).digest())
    return h.hexdigest()


def _tool_digest():
    with open(TOOL, "rb") as f:
        return hashlib.sha256(f.read()).hexdigest()


def ensure_tool():
    src = os.path.join(VERIF, "tool", "e2facts.cc")
    if not os.path.exists(TOOL) or os.path.getmtime(TOOL) < os.path.getmtime(src):
        r = subprocess.run(["make", "-s", "-C", os.path.join(VERIF, "tool")])
        if r.returncode != 0:
            sys.stderr.write("ANALYSIS-BROKEN: cannot build extractor\n")
            sys.exit(2)


def extract_all(verbose=False):
    """-> ({uid: path-to-json}, units, groups). Exit 2 if any unit cannot be analysed."""
    ensure_tool()
    units, groups = compdb.build()
    os.makedirs(CACHE, exist_ok=True)
    hd = _headers_digest()
    td = _tool_digest()
    jobs = []
    paths = {}
    for u in units:
        with open(os.path.join(REPO, u.src), "rb") as f:
            sd = hashlib.sha256(f.read()).hexdigest()
        key = hashlib.sha256(("|".join([u.uid, sd, hd, td, " ".join(u.flags)])).encode()).hexdigest()[:24]
        out = os.path.join(CACHE, u.uid.replace("/", "__") + "." + key + ".json")
        paths[u.uid] = out
        if not os.path.exists(out):
            jobs.append((u, out))

    def run(job):
        u, out = job
        tmp = out + ".tmp%d" % os.getpid()
        cmd = [TOOL, os.path.join(REPO, u.src), "--out=" + tmp, "--root=" + REPO, "--"] + u.flags
        r = subprocess.run(cmd, cwd=os.path.join(REPO, u.dir), stdout=subprocess.PIPE,
                           stderr=subprocess.PIPE, universal_newlines=True)
        if r.returncode != 0 or not os.path.exists(tmp):
            return (u.uid, r.stderr[-2000:])
        os.replace(tmp, out)
        return None

    t0 = time.time()
    errs = []
    if jobs:
        # drop stale cache entries of the units being rebuilt
        for u, out in jobs:
            for old in glob.glob(os.path.join(CACHE, u.uid.replace("/", "__") + ".*.json")):
                try:
                    os.unlink(old)
                except OSError:
                    pass
            for old in glob.glob(os.path.join(CACHE, u.uid.replace("/", "__") + ".*.pkl")):
                try:
                    os.unlink(old)
                except OSError:
                    pass
        with ThreadPoolExecutor(max_workers=int(os.environ.get("VERIF_JOBS", "16"))) as ex:
            for res in ex.map(run, jobs):
                if res:
                    errs.append(res)
    if errs:
        for uid, e in errs:
            sys.stderr.write("ANALYSIS-BROKEN: extractor failed on %s:\n%s\n" % (uid, e))
        sys.exit(2)
    if verbose:
        sys.stderr.write("facts: %d units (%d re-extracted) in %.1fs\n" % (len(units), len(jobs), time.time() - t0))
    return paths, units, groups


def load_unit(path):
    pk = path[:-5] + ".pkl"
    if os.path.exists(pk):
        try:
            with open(pk, "rb") as f:
                return pickle.load(f)
        except Exception:
            pass
    with open(path) as f:
        d = json.load(f)
    try:
        with open(pk + ".tmp%d" % os.getpid(), "wb") as f:
            pickle.dump(d, f, protocol=pickle.HIGHEST_PROTOCOL)
        os.replace(pk + ".tmp%d" % os.getpid(), pk)
    except Exception:
        pass
    return d
