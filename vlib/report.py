"""Obligation bookkeeping, evidence files, VIOLATION / KNOWN-FINDING lines."""
import json, os, sys, time, re

VERIF = os.path.dirname(os.path.dirname(os.path.abspath(__file__)))
EVIDENCE_DIR = os.environ.get("VERIF_EVIDENCE_DIR", os.path.join(VERIF, "evidence"))
REPLAY_DIR = os.environ.get("VERIF_REPLAY_DIR", os.path.join(VERIF, "replay"))
KNOWN = os.path.join(VERIF, "known_findings.txt")


def load_known():
    """-> list of (property, rule, site, text) from 'finding:' lines"""
    out = []
    if not os.path.exists(KNOWN):
        return out
    for line in open(KNOWN):
        line = line.strip()
        if not line.startswith("finding:"):
            continue
        m = re.match(r"finding:\s+property=(\S+)\s+rule=(\S+)\s+site=(\S+)\s*(.*)", line)
        if m:
            out.append(m.groups())
    return out


class Report:
    def __init__(self, prop, tier, explanation):
        self.prop = prop
        self.tier = tier
        self.explanation = explanation
        self.t0 = time.time()
        self.obligations = []   # (rule, site, ok, detail)
        self.notes = []
        self.violations = []
        self.known_hit = []
        self.samples = []
        self.extra = {}
        self.broken = []
        self.nontrivial = set()
        self.evaluations = 0
        self.assumptions = []
        self.known = [k for k in load_known() if k[0] == prop]

    # an obligation: rule instance x site
    def ob(self, rule, site, ok, detail="", witness=None, sample=False):
        self.obligations.append((rule, site, bool(ok), detail))
        self.nontrivial.add((rule, site))
        self.evaluations += 1
        if sample or (ok and len([s for s in self.samples if s["rule"] == rule]) < 2):
            self.samples.append({"rule": rule, "site": site, "verdict": "holds" if ok else "VIOLATED",
                                 "detail": detail[:400]})
        if not ok:
            self.fail(rule, site, detail, witness)
        return ok

    def examined(self, n=1):
        """sites looked at whose premise did not match (vacuous)"""
        self.evaluations += n

    def fail(self, rule, site, detail, witness=None):
        for k in self.known:
            if k[1] == rule and k[2] == site:
                self.known_hit.append((rule, site, k[3] or detail))
                return
        self.violations.append({"rule": rule, "site": site, "detail": detail, "witness": witness})

    def note(self, text):
        self.notes.append(text)

    def floor(self, what, got, minimum):
        """instance floor: fewer matched sites than confirmed by hand => analysis broken"""
        if got < minimum:
            self.broken.append("%s: matched %d sites, floor is %d" % (what, got, minimum))

    def broke(self, text):
        self.broken.append(text)

    def finish(self, world=None, paths=0):
        wall = time.time() - self.t0
        os.makedirs(EVIDENCE_DIR, exist_ok=True)
        os.makedirs(REPLAY_DIR, exist_ok=True)
        n_ob = len(self.obligations)
        n_ok = sum(1 for o in self.obligations if o[2])
        # known findings count as not discharged but are not violations
        cov = {
            "explanation": self.explanation,
            "obligations": n_ob,
            "discharged": n_ok,
            "evaluations": self.evaluations,
            "distinct_nontrivial": len(self.nontrivial),
            "rule": "one obligation per (rule instance, site); non-trivial = the rule's premise matched at that site "
                    "(anchor found, event present); distinct by (rule, file:function:construct)",
            "samples": self.samples[:24],
            "checker_cmd": "./check %s --tier %s" % (self.prop, self.tier),
            "trusted_base": ["clang 14 parser/Sema/CFG", "tool/e2facts.cc", "vlib/engine.py", "rules/%s.py" % self.prop],
            "notes": self.notes[:60],
            "known_findings_matched": ["%s %s" % (r, s) for r, s, _ in self.known_hit],
            "per_rule": {},
        }
        for (rule, site, ok, _d) in self.obligations:
            pr = cov["per_rule"].setdefault(rule, {"sites": 0, "discharged": 0})
            pr["sites"] += 1
            pr["discharged"] += 1 if ok else 0
        if world is not None:
            cov["units"] = len(world.units)
            cov["functions"] = world.n_functions
        cov.update(self.extra)
        ev = {
            "property_id": self.prop,
            "tier": self.tier,
            "seed": int(os.environ.get("VERIF_SEED", "0") or 0),
            "level": "other",
            "coverage": cov,
            "assumptions": self.assumptions + [
                "decides structural clauses (necessary conditions) of the property, not the behaviour itself",
                "CFG over-approximates feasible paths; call graph resolves slots by every function ever stored in the field",
                "#ifdef arms not selected by the configured build are not analysed",
            ],
            "wall_s": round(wall, 2),
            "violations": len(self.violations),
        }
        if self.broken:
            for b in self.broken:
                print("ANALYSIS-BROKEN property=%s %s" % (self.prop, b))
            ev["coverage"]["analysis_broken"] = self.broken
            if not self.violations:
                with open(os.path.join(EVIDENCE_DIR, self.prop + ".json"), "w") as f:
                    json.dump(ev, f, indent=1)
                return 2
            # a violation found next to a vanished anchor is still reported as a violation
        with open(os.path.join(EVIDENCE_DIR, self.prop + ".json"), "w") as f:
            json.dump(ev, f, indent=1)
        for (rule, site, what) in self.known_hit:
            print("KNOWN-FINDING: property=%s rule=%s site=%s %s" % (self.prop, rule, site, what))
        for i, v in enumerate(self.violations):
            path = os.path.join(REPLAY_DIR, "%s-%d.json" % (self.prop, i))
            with open(path, "w") as f:
                json.dump({"property": self.prop, **v}, f, indent=1)
            print("  %s at %s: %s" % (v["rule"], v["site"], v["detail"]))
            if v.get("witness"):
                print("    witness: %s" % (v["witness"],))
            print("VIOLATION property=%s replay=%s" % (self.prop, path))
        print("%s [%s]: %d obligations, %d discharged, %d known findings, %d violations, %.1fs" %
              (self.prop, self.tier, n_ob, n_ok, len(self.known_hit), len(self.violations), wall))
        return 1 if self.violations else 0
