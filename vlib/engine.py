"""Whole-program model over the extracted facts: functions, event-level control-flow graphs,
call resolution (direct, slot, function-pointer parameter), reachability with avoided
nodes (dominance / must-pass-through), MAY / MUST / never-returns summaries."""
import sys
from collections import defaultdict, deque
from . import facts, compdb
from . import tree as T


class Broken(Exception):
    """the analysis cannot be carried out (anchor vanished, floor not met): exit 2"""


class Node:
    """one event of a function, or the end-of-block pseudo event"""
    __slots__ = ("fn", "bid", "idx", "ev")

    def __init__(self, fn, bid, idx, ev):
        self.fn, self.bid, self.idx, self.ev = fn, bid, idx, ev

    @property
    def kind(self):
        return self.ev["e"] if self.ev else "T"

    @property
    def line(self):
        if self.ev:
            return self.ev.get("l", 0)
        b = self.fn.blocks[self.bid]
        t = b.get("t")
        return (t or {}).get("l") or b.get("l", 0)

    def where(self):
        return "%s:%s:%d" % (self.fn.file, self.fn.name, self.line)

    def text(self):
        if self.ev:
            return self.ev.get("t", "")
        t = self.fn.blocks[self.bid].get("t")
        return "<%s %s>" % (t["k"], T.pp(t.get("c"))) if t else "<end of block>"

    def __repr__(self):
        return "<%s B%d.%d %s>" % (self.fn.name, self.bid, self.idx, self.text()[:50])


_COMPOUND = {"+", "-", "*", "/", "%", "<<", ">>", "&", "|", "^"}
_COMMUTES = {"+", "*", "&", "|", "^"}


def _normalise_stores(raw):
    """`x = x op e` (and `x = e op x` for commutative op) is recorded as the compound store `x op= e`: one spelling
    for read-modify-write updates.  The full right-hand side stays available under "rhs0"."""
    if raw.get("_ns"):
        return
    raw["_ns"] = True
    for b in raw.get("blocks", []):
        for ev in b.get("ev", []):
            if ev.get("e") != "S" or ev.get("o") != "=" or ev.get("decl") or not isinstance(ev.get("rhs"), dict):
                continue
            r = ev["rhs"]       # no look through casts: `p = (T *)((char *)p + n)` is not `p += n`
            if not isinstance(r, dict) or r.get("k") != "b" or r.get("o") not in _COMPOUND:
                continue
            lp = T.path(ev["lhs"])
            if not lp or T.calls(ev["lhs"]):
                continue
            l, rr = r.get("l"), r.get("r")
            def same(x):
                return isinstance(x, dict) and x.get("k") != "cast" and T.path(x) == lp and T.pp(x) == T.pp(ev["lhs"])
            if same(l):
                other = rr
            elif r["o"] in _COMMUTES and same(rr):
                other = l
            else:
                continue
            ev["rhs0"] = ev["rhs"]
            ev["rhs"] = other
            ev["o"] = r["o"] + "="


class Fn:
    def __init__(self, raw, uid):
        self.raw = raw
        self.uid = uid
        self.name = raw["name"]
        self.file = raw["file"]
        self.line = raw["line"]
        self.static = raw.get("static", False)
        self.params = [p["n"] for p in raw.get("params", [])]
        self.blocks = {b["id"]: b for b in raw.get("blocks", [])}
        _normalise_stores(raw)
        self._thread_logical_joins()
        self.entry = raw.get("entry")
        self.exit = raw.get("exit")
        self.noreturn_attr = raw.get("nr", False)
        self.absorbed_into = None
        self._nodes = None
        self._succ = None
        self._pred = None

    @property
    def key(self):
        return (self.file, self.name)

    def __repr__(self):
        return "Fn(%s:%s)" % (self.file, self.name)

    def _thread_logical_joins(self):
        """clang decomposes `a || b` / `a && b` used directly as a condition into one block per operand,
        but for `!(a || b)` (and `!(a && b)`) it evaluates the operator into a *join* block and branches
        on the negation there, so the short-circuit edge loses what it knows.  On that edge the value of
        the operator - hence of the whole condition - is fixed: re-target it to the successor the join
        block would take.  Equivalent spellings of a condition (De Morgan) then give the same graph."""
        for J in list(self.blocks.values()):
            t = J.get("t")
            if not t or not isinstance(t.get("c"), dict) or t.get("k") in ("||", "&&", "switch") or J.get("ev"):
                continue
            js = J.get("s", [])
            if len(js) != 2 or js[0] is None or js[1] is None:
                continue
            c = T.strip(t["c"])
            neg = False
            while isinstance(c, dict) and c.get("k") == "u" and c.get("o") == "!":
                neg = not neg
                c = T.strip(c["e"])
            if not (isinstance(c, dict) and c.get("k") == "b" and c.get("o") in ("||", "&&")):
                continue
            if not neg:
                continue        # a plain logical operator is already decomposed by clang
            op = c["o"]
            operands = []
            x = c
            while isinstance(x, dict) and x.get("k") == "b" and x.get("o") == op:
                operands.append(T.pp(T.strip(x["r"])))
                x = T.strip(x["l"])
            operands.append(T.pp(x))
            idx = 0 if op == "||" else 1
            for P in self.blocks.values():
                tp = P.get("t")
                if not tp or tp.get("k") != op or not isinstance(tp.get("c"), dict):
                    continue
                ps = P.get("s", [])
                if len(ps) > idx and ps[idx] == J["id"] and T.pp(T.strip(tp["c"])) in operands:
                    value = (op == "||")            # the operator's value on its short-circuit edge
                    cond = (not value) if neg else value
                    ps = list(ps)
                    ps[idx] = js[0] if cond else js[1]
                    P["s"] = ps

    # --- event-level graph ---------------------------------------------------------
    def _build(self):
        nodes = {}
        order = []
        for bid, b in self.blocks.items():
            evs = b.get("ev", [])
            for i, ev in enumerate(evs):
                n = Node(self, bid, i, ev)
                nodes[(bid, i)] = n
                order.append(n)
            n = Node(self, bid, len(evs), None)
            nodes[(bid, len(evs))] = n
            order.append(n)
        self._nodes = nodes
        self._order = order
        succ = defaultdict(list)
        pred = defaultdict(list)
        for bid, b in self.blocks.items():
            evs = b.get("ev", [])
            for i in range(len(evs)):
                a, c = nodes[(bid, i)], nodes[(bid, i + 1)]
                succ[a].append((c, None))
                pred[c].append(a)
            end = nodes[(bid, len(evs))]
            if b.get("nr"):
                continue
            for si, s in enumerate(b.get("s", [])):
                if s is None or s < 0 or s not in self.blocks:
                    continue
                first = nodes[(s, 0)]
                succ[end].append((first, si))
                pred[first].append(end)
        self._succ = succ
        self._pred = pred

    def nodes(self):
        if self._nodes is None:
            self._build()
        return self._order

    def node(self, bid, idx):
        if self._nodes is None:
            self._build()
        return self._nodes[(bid, idx)]

    def succ(self, n):
        if self._succ is None:
            self._build()
        return self._succ.get(n, [])

    def pred(self, n):
        if self._pred is None:
            self._build()
        return self._pred.get(n, [])

    def entry_node(self):
        return self.node(self.entry, 0)

    def exit_node(self):
        return self.node(self.exit, 0)

    def events(self, kind=None):
        for n in self.nodes():
            if n.ev and (kind is None or n.ev["e"] == kind):
                yield n

    def call_nodes(self):
        return self.events("C")

    def block_end(self, bid):
        return self.node(bid, len(self.blocks[bid].get("ev", [])))

    def label_block(self, label):
        for bid, b in self.blocks.items():
            lab = b.get("lab")
            if lab and lab.get("label") == label:
                return bid
        return None

    # terminator literal of a block: (atom, positive) or None
    def literal(self, bid):
        b = self.blocks[bid]
        t = b.get("t")
        if not t or "c" not in t or t["k"] == "switch":
            return None
        if len([s for s in b.get("s", [])]) != 2:
            return None
        c = t["c"]
        # a block ending a short-circuit chain decides on its last-evaluated operand: the
        # earlier operands were decided by the preceding blocks (also under a negation, see
        # _thread_logical_joins)
        flip = False
        while True:
            c0 = T.strip(c)
            if isinstance(c0, dict) and c0.get("k") == "b" and c0.get("o") in ("&&", "||"):
                c = c0["r"]
                continue
            if isinstance(c0, dict) and c0.get("k") == "u" and c0.get("o") == "!":
                inner = T.strip(c0["e"])
                if isinstance(inner, dict) and inner.get("k") == "b" and inner.get("o") in ("&&", "||"):
                    flip = not flip
                    c = inner["r"]
                    continue
            break
        atom, pos = T.norm_cond(c)
        return atom, (pos != flip)

    # --- reachability ----------------------------------------------------------------
    def reach(self, starts, avoid=(), edge_ok=None, include_starts=True):
        """nodes reachable from `starts` along CFG edges, never entering a node in `avoid`
        (starts themselves are kept even if in avoid).  edge_ok(end_node, succ_index, target)
        may veto block-to-block edges."""
        avoid = set(avoid)
        seen = set()
        dq = deque()
        for s in starts:
            if include_starts:
                seen.add(s)
            dq.append(s)
        while dq:
            n = dq.popleft()
            for (m, si) in self.succ(n):
                if m in seen or m in avoid:
                    continue
                if si is not None and edge_ok is not None and not edge_ok(n, si, m):
                    continue
                seen.add(m)
                dq.append(m)
        return seen

    def reach_back(self, starts, avoid=()):
        avoid = set(avoid)
        seen = set(starts)
        dq = deque(starts)
        while dq:
            n = dq.popleft()
            for m in self.pred(n):
                if m in seen or m in avoid:
                    continue
                seen.add(m)
                dq.append(m)
        return seen

    def after(self, n):
        """start set 'just after n'"""
        return [m for (m, _) in self.succ(n)]

    def dominated_by(self, target, doms, edge_ok=None):
        """True iff every path entry -> target passes a node of `doms`"""
        doms = set(doms)
        if target in doms:
            return True
        r = self.reach([self.entry_node()], avoid=doms, edge_ok=edge_ok)
        if self.entry_node() in doms:
            return True
        return target not in r

    def must_pass_after(self, start, through, to=None, edge_ok=None):
        """True iff every path from just after `start` to `to` (default: function exit)
        passes a node in `through`"""
        to = to or [self.exit_node()]
        through = set(through)
        starts = [m for m in self.after(start) if m not in through]
        r = self.reach(starts, avoid=through, edge_ok=edge_ok)
        # nodes in `through` directly after start are fine (they are avoided -> not in r)
        return not any(t in r for t in to)

    def witness_path(self, starts, targets, avoid=(), edge_ok=None):
        """shortest node path from a start to a target avoiding `avoid` (for reports)"""
        avoid = set(avoid)
        targets = set(targets)
        prev = {}
        dq = deque()
        for s in starts:
            prev[s] = None
            dq.append(s)
        while dq:
            n = dq.popleft()
            if n in targets:
                out = []
                while n is not None:
                    out.append(n)
                    n = prev[n]
                out.reverse()
                return out
            for (m, si) in self.succ(n):
                if m in prev or m in avoid:
                    continue
                if si is not None and edge_ok is not None and not edge_ok(n, si, m):
                    continue
                prev[m] = n
                dq.append(m)
        return None

    def control_literals(self, target):
        """set of (bid, succ_index) branch edges that every path entry->target must take one
        of per block: edge (b,i) is *controlling* when target is reachable from entry only
        through that edge among b's edges.  Returns list of (bid, truth-of-atom, atom)."""
        out = []
        entry = self.entry_node()
        for bid, b in self.blocks.items():
            lit = self.literal(bid)
            if lit is None:
                continue
            end = self.block_end(bid)
            # can target be reached when edge i of this block is forbidden?
            res = []
            for forb in (0, 1):
                def ok(n, si, m, _end=end, _f=forb):
                    return not (n is _end and si == _f)
                r = self.reach([entry], edge_ok=ok)
                res.append(target in r)
            # res[0]: reachable with true-edge forbidden ; res[1]: with false-edge forbidden
            if res[0] and res[1]:
                continue
            if not res[0] and not res[1]:
                # block dominates target both ways impossible unless target unreachable
                continue
            atom, pos = lit
            took_true = not res[0]  # forbidding the true edge kills reachability
            truth = pos if took_true else (not pos)
            out.append((bid, truth, atom))
        return out


def restricting_literals(fn, target, stop=()):
    """branch literals that can keep control from reaching `target`: blocks one of whose edges leads to target and the
    other does not (looking no further than the nodes in `stop`, e.g. the head of the enclosing loop, so that "the next
    iteration gets there" does not count).  A superset of Fn.control_literals(): it also holds the last operand of a
    disjunction `A || B` that guards the target, which no path *must* satisfy.
    -> [(bid, truth-of-atom on the edge that leads to target, atom)]"""
    out = []
    stop = set(stop)
    back = fn.reach_back([target], avoid=stop)
    for bid, b in fn.blocks.items():
        lit = fn.literal(bid)
        if lit is None:
            continue
        end = fn.block_end(bid)
        if end not in back:
            continue
        succ = fn.succ(end)
        can = {}
        for (m, si) in succ:
            if si is None:
                continue
            can[si] = (m is target) or (m in back and m not in stop)
        if len(can) == 2 and can.get(0) != can.get(1):
            atom, pos = lit
            truth = pos if can.get(0) else (not pos)
            out.append((bid, truth, atom))
    return out


def switch_cases(fn, node):
    """for each switch of fn from which `node` is reachable: the case labels through which it
    can be reached without going round through the switch head again.
    -> list of {"bid", "expr", "labels": [ {c,t} | "default" | "implicit" ], "n_edges"}"""
    out = []
    for bid, b in fn.blocks.items():
        t = b.get("t")
        if not t or t.get("k") != "switch":
            continue
        end = fn.block_end(bid)
        labs = []
        n_edges = 0
        for s in b.get("s", []):
            if s is None or s < 0 or s not in fn.blocks:
                continue
            n_edges += 1
            first = fn.node(s, 0)
            r = fn.reach([first], avoid=[end])
            if node in r:
                lab = fn.blocks[s].get("lab")
                if not lab:
                    labs.append("implicit")
                else:
                    if lab.get("default"):
                        labs.append("default")
                    for cv in lab.get("case", []):
                        labs.append(cv)
        if labs:
            out.append({"bid": bid, "expr": t.get("c"), "labels": labs, "n_edges": n_edges})
    return out


def line_path(path, limit=40):
    out = []
    last = None
    for n in path:
        l = n.line
        if l and l != last:
            out.append(l)
            last = l
    if len(out) > limit:
        out = out[:limit // 2] + ["..."] + out[-limit // 2:]
    return out


# --- absorbing anonymous helpers -------------------------------------------------------------
# A static function that is small, called from exactly one place, never has its address taken and
# is not named by any rule is - from the rules' point of view - just a part of its caller: that is
# what "extract a few statements into a helper" produces.  Such helpers are spliced into the
# caller's event graph (blocks copied with fresh ids, parameters replaced by the argument
# expressions, `return e` turned into a store to a result variable that replaces the call's value
# in the caller), so that every intraprocedural rule sees the same events on the same paths before
# and after the extraction.  Helpers the rules know by name stay separate functions.

INLINE_MAX_BLOCKS = 40
# a helper called from up to INLINE_MULTI_SITES places of its own file is copied into each when it is this small
INLINE_MULTI_SITES = 3
INLINE_MULTI_BLOCKS = 14
import os as _os
INLINE_HELPERS = _os.environ.get("VERIF_NO_INLINE") is None
THREAD_RETURNS = _os.environ.get("VERIF_NO_THREAD") is None


def _known_names():
    import glob, os, re
    here = os.path.dirname(os.path.dirname(os.path.abspath(__file__)))
    names = set()
    for p in glob.glob(os.path.join(here, "rules", "*.py")) + glob.glob(os.path.join(here, "vlib", "*.py")):
        try:
            txt = open(p).read()
        except OSError:
            continue
        names.update(re.findall(r"[\"']([A-Za-z_][A-Za-z0-9_]*)[\"']", txt))
    # reference lists name functions as file:function
    for p in glob.glob(os.path.join(here, "rules", "ref", "*.tsv")):
        if os.path.basename(p) in ("local_names.tsv", "static_functions.tsv"):
            continue        # lists every function (names of their locals); naming a function there means nothing
        try:
            txt = open(p).read()
        except OSError:
            continue
        names.update(re.findall(r"\.[ch]:([A-Za-z_][A-Za-z0-9_]*)", txt))
    return names


def _walk_exprs_of_block(b):
    for ev in b.get("ev", []):
        for key in ("x", "lhs", "rhs"):
            if isinstance(ev.get(key), dict):
                yield ev, key
    t = b.get("t")
    if t and isinstance(t.get("c"), dict):
        yield t, "c"


def _map_tree(e, f):
    """rebuild expression tree e bottom-up, replacing each dict node x by f(x) (f returns a node)"""
    if isinstance(e, list):
        return [_map_tree(x, f) for x in e]
    if not isinstance(e, dict):
        return e
    out = {}
    for k, v in e.items():
        out[k] = _map_tree(v, f) if isinstance(v, (dict, list)) else v
    return f(out)


def _splice(raw_a, raw_h):
    """-> new raw of the caller with the (single) call to raw_h['name'] followed by the helper's body"""
    import copy
    hname = raw_h["name"]
    blocks = copy.deepcopy(raw_a["blocks"])
    site = None
    for b in blocks:
        for i, ev in enumerate(b.get("ev", [])):
            if ev["e"] == "C" and ev["x"].get("fn") == hname and not ev.get("spl"):
                site = (b, i)
                break
        if site:
            break
    if site is None:
        return None
    B, i = site
    B["ev"][i] = dict(B["ev"][i], spl=True)
    call = B["ev"][i]["x"]
    args = call.get("a", [])
    maxid = max(b["id"] for b in blocks)
    hblocks = copy.deepcopy(raw_h["blocks"])
    hexit = raw_h.get("exit")
    idmap = {}
    k = maxid + 1
    b2id = k
    k += 1
    for hb in hblocks:
        if hb["id"] == hexit:
            idmap[hb["id"]] = b2id
        else:
            idmap[hb["id"]] = k
            k += 1
    # names
    a_vars = set()
    for b in blocks:
        for holder, key in _walk_exprs_of_block(b):
            for x in T.walk(holder[key]):
                if isinstance(x, dict) and x.get("k") == "v" and x.get("s") in ("l", "p"):
                    a_vars.add(x["n"])
    params = [p["n"] for p in raw_h.get("params", [])]
    assigned = set()
    for hb in hblocks:
        for ev in hb.get("ev", []):
            if ev["e"] == "S":
                l = T.strip(ev["lhs"])
                if isinstance(l, dict) and l.get("k") == "v":
                    assigned.add(l["n"])
            for key in ("x", "lhs", "rhs"):
                if isinstance(ev.get(key), dict):
                    for x in T.walk(ev[key]):
                        if isinstance(x, dict) and x.get("k") == "u" and x.get("o") == "&":
                            inner = T.strip(x.get("e"))
                            if isinstance(inner, dict) and inner.get("k") == "v":
                                assigned.add(inner["n"])
    subst = {}
    pre = []
    for j, p in enumerate(params):
        a = args[j] if j < len(args) else None
        if a is None:
            continue
        if p in assigned:
            nn = p + "@" + hname
            subst[p] = {"k": "v", "n": nn, "s": "l", "t": ""}
            pre.append({"e": "S", "l": B["ev"][i].get("l", 0), "t": "%s = <argument>" % nn, "o": "=",
                        "lhs": {"k": "v", "n": nn, "s": "l", "t": ""}, "rhs": copy.deepcopy(a)})
        else:
            subst[p] = a
    retvar = {"k": "v", "n": "$ret@" + hname, "s": "l", "t": raw_h.get("ret", "")}

    def sub(x):
        if x.get("k") == "v":
            if x.get("s") == "p" and x["n"] in subst:
                return copy.deepcopy(subst[x["n"]])
            if x.get("s") == "l" and x["n"] in a_vars and x["n"] not in params:
                y = dict(x)
                y["n"] = x["n"] + "@" + hname
                return y
        return x
    newh = []
    for hb in hblocks:
        if hb["id"] == hexit:
            continue
        nb = dict(hb)
        nb["id"] = idmap[hb["id"]]
        nb["s"] = [idmap.get(t_, t_) if t_ is not None and t_ >= 0 else t_ for t_ in hb.get("s", [])]
        evs = []
        for ev in hb.get("ev", []):
            ev = dict(ev)
            for key in ("x", "lhs", "rhs"):
                if isinstance(ev.get(key), dict):
                    ev[key] = _map_tree(ev[key], sub)
            if ev["e"] == "R":
                if isinstance(ev.get("x"), dict):
                    ev = {"e": "S", "l": ev.get("l", 0), "t": ev.get("t", ""), "o": "=", "lhs": dict(retvar), "rhs": ev["x"],
                          "inl_ret": True}
                else:
                    continue
            evs.append(ev)
        nb["ev"] = evs
        if nb.get("t") and isinstance(nb["t"].get("c"), dict):
            nb["t"] = dict(nb["t"])
            nb["t"]["c"] = _map_tree(nb["t"]["c"], sub)
        if nb.get("lab") and nb["lab"].get("label"):
            nb["lab"] = dict(nb["lab"])
            nb["lab"]["label"] = hname + "." + nb["lab"]["label"]
        newh.append(nb)
    # split the call's block
    cid = call.get("id")

    def use_ret(x):
        if x.get("k") == "c" and cid is not None and x.get("id") == cid:
            return dict(retvar)
        return x
    B2 = {"id": b2id, "ev": [], "s": B.get("s", []), "l": B.get("l", 0)}
    for ev in B["ev"][i + 1:]:
        ev = dict(ev)
        for key in ("x", "lhs", "rhs"):
            if isinstance(ev.get(key), dict):
                ev[key] = _map_tree(ev[key], use_ret)
        B2["ev"].append(ev)
    if B.get("t"):
        t2 = dict(B["t"])
        if isinstance(t2.get("c"), dict):
            t2["c"] = _map_tree(t2["c"], use_ret)
        B2["t"] = t2
    if B.get("nr"):
        B2["nr"] = B["nr"]
    # Return-value threading: `if (err) return err;` in the helper followed by `err = helper(); if (err) ...` in the
    # caller is one decision, not two.  A return whose value is known to be zero / non-zero at that point (a constant,
    # or the variable just tested on the only edge into the returning block) continues in a copy of the caller's
    # continuation block whose test on the returned value is already decided.
    extra = []
    t2 = B2.get("t")
    if THREAD_RETURNS and t2 and isinstance(t2.get("c"), dict) and t2.get("k") != "switch" and len(B2.get("s", [])) == 2:
        atom2, pos2 = T.norm_cond(t2["c"])
        q = T.path(atom2) if isinstance(atom2, dict) and atom2.get("k") == "v" else None
        tested = False
        if q == retvar["n"]:
            tested = True
        elif q:
            st = [ev for ev in B2["ev"] if ev["e"] == "S" and T.path(ev["lhs"]) == q]
            if st and st[-1].get("o") == "=" and isinstance(T.strip(st[-1].get("rhs")), dict) and \
                    T.strip(st[-1]["rhs"]).get("k") == "v" and T.strip(st[-1]["rhs"]).get("n") == retvar["n"]:
                tested = True
        if tested:
            hpred = {}
            for hb in hblocks:
                for idx, s_ in enumerate(hb.get("s", [])):
                    hpred.setdefault(s_, []).append((hb, idx))
            copies = {}
            byid = {nb["id"]: nb for nb in newh}
            for hb in hblocks:
                rets = [ev for ev in hb.get("ev", []) if ev["e"] == "R" and isinstance(ev.get("x"), dict)]
                if hb["id"] == hexit or len(rets) != 1 or hb.get("ev", [])[-1] is not rets[0]:
                    continue
                rx = T.strip(rets[0]["x"])
                nonzero = None
                if T.const(rx) is not None:
                    nonzero = T.const(rx) != 0
                elif isinstance(rx, dict) and rx.get("k") == "v" and len(hb.get("ev", [])) == 1:
                    ps = hpred.get(hb["id"], [])
                    if len(ps) == 1:
                        pb, idx = ps[0]
                        pt = pb.get("t")
                        if pt and isinstance(pt.get("c"), dict) and pt.get("k") != "switch" and len(pb.get("s", [])) == 2:
                            a1, p1 = T.norm_cond(pt["c"])
                            if isinstance(a1, dict) and a1.get("k") == "v" and a1.get("n") == rx.get("n"):
                                nonzero = (idx == 0) == p1
                if nonzero is None:
                    continue
                if nonzero not in copies:
                    cp = copy.deepcopy(B2)
                    cp["id"] = k
                    k += 1
                    truth = nonzero == pos2
                    # the test stays (the value analysis learns from the edge taken); the other edge is dead
                    cp["s"] = [B2["s"][0], -1] if truth else [-1, B2["s"][1]]
                    copies[nonzero] = cp
                    extra.append(cp)
                nb = byid.get(idmap[hb["id"]])
                if nb is not None:
                    nb["s"] = [copies[nonzero]["id"] if s_ == b2id else s_ for s_ in nb.get("s", [])]
    B["ev"] = B["ev"][:i + 1] + pre
    B["s"] = [idmap[raw_h["entry"]]]
    B.pop("t", None)
    B.pop("nr", None)
    out = dict(raw_a)
    out["blocks"] = blocks + newh + [B2] + extra
    out["absorbed"] = list(raw_a.get("absorbed", [])) + [hname] + list(raw_h.get("absorbed", []))
    return out


def absorb_helpers(fns, addr_taken, known):
    """-> (new function list for the unit, names of absorbed helpers)"""
    byname = {}
    for f in fns:
        byname.setdefault(f.name, f)
    sites = defaultdict(list)
    for f in fns:
        for b in f.raw.get("blocks", []):
            for ev in b.get("ev", []):
                if ev["e"] == "C" and ev["x"].get("fn") in byname:
                    sites[ev["x"]["fn"]].append(f)
    into = {}
    for h in fns:
        if not h.static or not h.file.endswith(".c") or h.name in addr_taken or h.name in known:
            continue
        if len(h.raw.get("blocks", [])) > INLINE_MAX_BLOCKS or h.raw.get("entry") is None:
            continue
        s = sites.get(h.name, [])
        if not s or any(c is h or c.file != h.file for c in s):
            continue
        if len(s) == 1 or (len(s) <= INLINE_MULTI_SITES and len(h.raw.get("blocks", [])) <= INLINE_MULTI_BLOCKS):
            into[h.name] = sorted(set(c.name for c in s))
    if not into:
        return fns, set()
    memo = {}
    hosts = set(c for cs in into.values() for c in cs)

    def inl(name, depth=0):
        if name in memo:
            return memo[name]
        raw = byname[name].raw
        if depth < 4:
            for hn, cns in into.items():
                if name in cns and hn != name:
                    hraw = inl(hn, depth + 1)
                    for _ in range(INLINE_MULTI_SITES):
                        r2 = _splice(raw, hraw)
                        if r2 is None:
                            break
                        raw = r2
        memo[name] = raw
        return raw
    out = []
    for f in fns:
        raw = inl(f.name) if (f.name in hosts and byname.get(f.name) is f) else f.raw
        if raw is not f.raw:
            g = Fn(raw, f.uid)
            out.append(g)
        else:
            out.append(f)
    for f in out:
        if f.name in into and f.static and f.file == byname[f.name].file:
            f.absorbed_into = into[f.name][0]
    return out, set(into)


class Program:
    """function set of one linked program"""

    def __init__(self, world, name, uids):
        self.world = world
        self.name = name
        self.uids = list(uids)
        self.by_name = defaultdict(list)
        seen = set()
        for uid in self.uids:
            for fn in world.unit_fns.get(uid, []):
                if fn.key in seen and fn.file.endswith(".h"):
                    continue
                if fn.key in seen:
                    # same file twice (variants) cannot happen inside one program
                    continue
                seen.add(fn.key)
                self.by_name[fn.name].append(fn)
        self._slots = None
        self._callers = None
        self._callees = {}
        self._nr = None

    def functions(self):
        """functions of the program; helpers absorbed into their caller are part of it and not listed"""
        for l in self.by_name.values():
            for f in l:
                if f.absorbed_into is None:
                    yield f

    def fn(self, name, file=None):
        """unique function by name (and optional file); Broken if absent"""
        c = [f for f in self.by_name.get(name, []) if file is None or f.file == file]
        if not c:
            raise Broken("anchor function %s%s not found in program %s" %
                         (name, " in " + file if file else "", self.name))
        if len(c) > 1:
            ext = [f for f in c if not f.static]
            if len(ext) == 1:
                return ext[0]
            raise Broken("anchor function %s ambiguous in %s: %s" % (name, self.name, [f.file for f in c]))
        return c[0]

    def has_fn(self, name, file=None):
        return any(file is None or f.file == file for f in self.by_name.get(name, []))

    def fns_in_file(self, file):
        return [f for f in self.functions() if f.file == file]

    def lookup(self, name, from_fn):
        c = self.by_name.get(name, [])
        if not c:
            return []
        uid = from_fn if isinstance(from_fn, str) else from_fn.uid
        same = [f for f in c if f.uid == uid]
        if same:
            return same[:1]
        ext = [f for f in c if not f.static]
        if ext:
            return ext[:1]
        hdr = [f for f in c if f.file.endswith(".h")]
        return hdr[:1]

    # --- slots -------------------------------------------------------------------
    def slot_names(self, record, field):
        return {nm for (nm, _u) in self.slots().get((record, field), ())}

    def slots(self):
        """(record, field) -> set of (function name, referring unit) ever stored there"""
        if self._slots is not None:
            return self._slots
        sl = defaultdict(set)

        def fnref(v):
            v = T.strip(v)
            while isinstance(v, dict) and v.get("k") == "u" and v.get("o") in ("&", "*"):
                v = T.strip(v["e"])
            if isinstance(v, dict) and v.get("k") == "fn":
                return v["n"]
            return None

        def scan_init(n, uid):
            for x in T.walk(n):
                if x.get("k") == "rec":
                    for f, v in x.get("f", {}).items():
                        nm = fnref(v)
                        if nm:
                            sl[(x.get("r", ""), f)].add((nm, uid))
        live = self._live_globals()
        for uid in self.uids:
            for g in self.world.unit_globals.get(uid, []):
                if g["name"] in live:
                    scan_init(g.get("init"), uid)
        for fn in self.functions():
            for n in fn.events("S"):
                lf = T.last_field(n.ev["lhs"])
                if lf and n.ev.get("o") == "=":
                    nm = fnref(n.ev.get("rhs"))
                    if nm:
                        sl[lf].add((nm, fn.uid))
                if n.ev.get("decl"):
                    scan_init(n.ev.get("rhs"), fn.uid)
        # slots filled from a function-pointer *parameter* (ctx.func = func): the slot receives every
        # function passed at that parameter position by the callers (two rounds for wrappers)
        pending = []
        for fn in self.functions():
            for n in fn.events("S"):
                lf = T.last_field(n.ev["lhs"])
                r = T.strip(n.ev.get("rhs")) if isinstance(n.ev.get("rhs"), dict) else None
                if lf and n.ev.get("o") == "=" and isinstance(r, dict) and r.get("k") == "v" and r.get("s") == "p" \
                        and "(*)" in r.get("t", ""):
                    if r["n"] in fn.params:
                        pending.append((lf, fn, fn.params.index(r["n"])))
        self._slots = sl
        self._cb_slots = set(lf for (lf, _f, _pi) in pending)
        if pending:
            self._callers = None
            for _round in range(2):
                cs = self.callers()
                for (lf, fn, pi) in pending:
                    for (cfn, cn) in cs.get(fn.key, []):
                        args = cn.ev["x"].get("a", [])
                        if pi < len(args):
                            nm = fnref(args[pi])
                            if nm:
                                sl[lf].add((nm, cfn.uid))
                            else:
                                a = T.strip(args[pi])
                                if isinstance(a, dict) and a.get("k") == "v" and a.get("s") == "p" and a["n"] in cfn.params:
                                    pending.append((lf, cfn, cfn.params.index(a["n"])))
                pending = list({(lf, f.key, pi): (lf, f, pi) for (lf, f, pi) in pending}.values())
            self._callees = {}
        return sl

    # --- call resolution ---------------------------------------------------------
    def callees(self, fn, call, weak=True):
        """list of Fn a call node may invoke"""
        key = (id(call), weak)
        if key in self._callees:
            return self._callees[key]
        out = []
        if call.get("fn"):
            out = self.lookup(call["fn"], fn)
        elif call.get("slot") and call["slot"].get("f"):
            exact = self._exact_vtable(fn, call)
            if exact is not None:
                out = exact
            else:
                names = self.slots().get((call["slot"].get("r", ""), call["slot"]["f"]), ())
                for (nm, uid) in sorted(names):
                    out.extend(self.lookup(nm, uid))
        else:
            via = T.strip(call.get("via"))
            if isinstance(via, dict) and via.get("k") == "v" and via.get("s") == "p":
                # function-pointer parameter: union over the arguments at every call site
                try:
                    pi = fn.params.index(via["n"])
                except ValueError:
                    pi = -1
                if pi >= 0:
                    for (cfn, cnode) in self.callers().get(fn.key, []):
                        args = cnode.ev["x"].get("a", [])
                        if pi < len(args):
                            a = T.strip(args[pi])
                            while isinstance(a, dict) and a.get("k") == "u" and a.get("o") in ("&", "*"):
                                a = T.strip(a["e"])
                            if isinstance(a, dict) and a.get("k") == "fn":
                                out.extend(self.lookup(a["n"], cfn))
            if not out and weak and call.get("sig"):
                sig = call["sig"].replace("(*)", "").replace("  ", " ")
                for nm in self.world.addr_taken:
                    for f in self.by_name.get(nm, []):
                        if f.raw.get("sig", "").replace("  ", " ") == sig.strip():
                            out.append(f)
        self._callees[key] = out
        return out

    def _live_globals(self):
        """names of file-scope objects that the program can actually use: referenced from a function
        reachable from main() (direct calls, functions whose address is taken in reachable code, functions
        named in initialisers of live objects), closed through initialisers.  A vtable nobody can reach
        cannot be called."""
        if getattr(self, "_live", None) is not None:
            return self._live
        inits = {}
        for uid in self.uids:
            for g in self.world.unit_globals.get(uid, []):
                inits.setdefault(g["name"], []).append((g.get("init"), uid))
        roots = [f for f in self.by_name.get("main", [])]
        if not roots:
            self._live = set(inits)
            return self._live
        seen_fn = set()
        live = set()
        work = list(roots)

        def scan_tree(tr, uid):
            for x in T.walk(tr):
                k = x.get("k")
                if k == "v" and x.get("s") in ("g", "sl"):
                    if x["n"] not in live:
                        live.add(x["n"])
                        for (init, u2) in inits.get(x["n"], []):
                            scan_tree(init or {}, u2)
                elif k == "fn":
                    for f in self.lookup(x["n"], uid):
                        if f.key not in seen_fn:
                            work.append(f)
                elif k == "c" and x.get("fn"):
                    for f in self.lookup(x["fn"], uid):
                        if f.key not in seen_fn:
                            work.append(f)
        while work:
            fn = work.pop()
            if fn.key in seen_fn:
                continue
            seen_fn.add(fn.key)
            for n in fn.nodes():
                if n.ev:
                    for k in ("x", "lhs", "rhs"):
                        if isinstance(n.ev.get(k), dict):
                            scan_tree(n.ev[k], fn.uid)
                else:
                    t = fn.blocks[n.bid].get("t")
                    if t and isinstance(t.get("c"), dict):
                        scan_tree(t["c"], fn.uid)
        self._live = live
        self._live_fns = seen_fn
        return live

    def _vtable_of(self, f, slot):
        """the file-scope vtable object whose `slot` is function f"""
        for uid in self.uids:
            for g in self.world.unit_globals.get(uid, []):
                ii = g.get("init")
                if isinstance(ii, dict) and ii.get("k") == "rec":
                    v = T.strip(ii.get("f", {}).get(slot))
                    if isinstance(v, dict) and v.get("k") == "fn" and v["n"] == f.name and g["file"] == f.file:
                        return g
        return None

    def _exact_vtable(self, fn, call):
        """`v->slot(…)` where v is a local assigned exactly once from a global pointer whose initialiser is
        the address of a vtable object: resolve to that object's slot only.  None = not that shape."""
        via = T.strip(call.get("via"))
        if not (isinstance(via, dict) and via.get("k") == "m"):
            return None
        base = T.strip(via.get("b"))
        # channel->manager->slot where `channel` was produced by an exactly-resolved <vt>->open(…, &channel)
        if isinstance(base, dict) and base.get("k") == "m" and base.get("f") == "manager":
            ch = T.strip(base.get("b"))
            if isinstance(ch, dict) and ch.get("k") == "v" and ch.get("s") == "l":
                prods = []
                for n in fn.call_nodes():
                    for a in n.ev["x"].get("a", []):
                        a0 = T.strip(a)
                        if isinstance(a0, dict) and a0.get("k") == "u" and a0.get("o") == "&" and \
                                T.strip(a0["e"]).get("k") == "v" and T.strip(a0["e"])["n"] == ch["n"]:
                            prods.append(n)
                stores = [n for n in fn.events("S") if T.strip(n.ev["lhs"]).get("k") == "v" and
                          T.strip(n.ev["lhs"])["n"] == ch["n"] and not n.ev.get("decl")]
                if len(prods) == 1 and not stores and (prods[0].ev["x"].get("slot") or {}).get("f") == "open":
                    ex = self._exact_vtable(fn, prods[0].ev["x"])
                    if ex and len(ex) == 1:
                        vt = self._vtable_of(ex[0], "open")
                        if vt is not None:
                            v = T.strip(vt.get("init", {}).get("f", {}).get(via["f"]))
                            if isinstance(v, dict) and v.get("k") == "fn":
                                uid = [u.uid for u in self.world.units if u.src == vt["file"]]
                                return self.lookup(v["n"], uid[0] if uid else fn)
                            return []
            return None
        if not (isinstance(base, dict) and base.get("k") == "v" and base.get("s") == "l"):
            return None
        defs = [n for n in fn.events("S") if T.strip(n.ev["lhs"]).get("k") == "v" and T.strip(n.ev["lhs"])["n"] == base["n"]]
        if len(defs) != 1 or defs[0].ev.get("o") != "=":
            return None
        r = T.strip(defs[0].ev.get("rhs"))
        if not (isinstance(r, dict) and r.get("k") == "v" and r.get("s") == "g"):
            return None
        for g in self.world.globals_named(r["n"], self):
            init = T.strip(g.get("init"))
            while isinstance(init, dict) and init.get("k") == "u" and init.get("o") == "&":
                init = T.strip(init["e"])
            if isinstance(init, dict) and init.get("k") == "v" and init.get("s") == "g":
                for vt in self.world.globals_named(init["n"], self):
                    ii = vt.get("init")
                    if isinstance(ii, dict) and ii.get("k") == "rec":
                        v = T.strip(ii.get("f", {}).get(via["f"]))
                        if isinstance(v, dict) and v.get("k") == "fn":
                            uid = [u.uid for u in self.world.units if u.src == vt["file"]]
                            return self.lookup(v["n"], uid[0] if uid else fn)
                        return []
        return None

    def callers(self):
        """callee key -> [(caller Fn, call Node)] for direct calls"""
        if self._callers is not None:
            return self._callers
        cs = defaultdict(list)
        for fn in self.functions():
            for n in fn.call_nodes():
                c = n.ev["x"]
                if c.get("fn"):
                    for g in self.lookup(c["fn"], fn):
                        cs[g.key].append((fn, n))
        self._callers = cs
        return cs

    def callback_slots(self):
        """slots that are filled from a function-pointer parameter (ctx.func = func): the functions they hold
        are the callbacks handed over at the call sites of the enclosing API"""
        self.slots()
        return getattr(self, "_cb_slots", set())

    def callees_cs(self, fn):
        """call-site sensitive successors for reachability: direct/slot callees, plus functions whose address
        is passed as an argument (they are invoked by the callee on behalf of this caller); calls through
        callback slots are *not* expanded to every callback ever registered"""
        out = []
        cbs = self.callback_slots()
        for n in fn.call_nodes():
            c = n.ev["x"]
            sl = c.get("slot")
            if sl and (sl.get("r", ""), sl.get("f")) in cbs:
                continue
            via = T.strip(c.get("via")) if c.get("via") else None
            if not c.get("fn") and not sl and isinstance(via, dict) and via.get("k") == "v" and via.get("s") == "p":
                continue     # call through a function-pointer parameter: accounted at the caller
            for g in self.callees(fn, c, weak=False):
                out.append((n, g))
            for a in c.get("a", []):
                a0 = T.strip(a)
                while isinstance(a0, dict) and a0.get("k") == "u" and a0.get("o") in ("&", "*"):
                    a0 = T.strip(a0["e"])
                if isinstance(a0, dict) and a0.get("k") == "fn":
                    for g in self.lookup(a0["n"], fn):
                        out.append((n, g))
        return out

    def all_callees(self, fn, weak=False):
        out = []
        for n in fn.call_nodes():
            for g in self.callees(fn, n.ev["x"], weak=weak):
                out.append((n, g))
        return out

    # --- summaries -----------------------------------------------------------------
    def may(self, direct_pred, weak=False, stop=None, skip_call=None):
        """set of function keys from which an event satisfying direct_pred(fn, node) is
        reachable through calls.  Returns dict key -> (node, next_fn_or_None) witness edge."""
        wit = {}
        rev = defaultdict(list)
        fns = list(self.functions())
        for fn in fns:
            if stop and stop(fn):
                continue
            for n in fn.nodes():
                if n.ev and direct_pred(fn, n):
                    if fn.key not in wit:
                        wit[fn.key] = (n, None)
            for n in fn.call_nodes():
                if skip_call is not None and skip_call(fn, n):
                    continue
                for g in self.callees(fn, n.ev["x"], weak=weak):
                    rev[g.key].append((fn, n))
        dq = deque(wit.keys())
        while dq:
            k = dq.popleft()
            for (cfn, cn) in rev.get(k, []):
                if stop and stop(cfn):
                    continue
                if cfn.key not in wit:
                    wit[cfn.key] = (cn, k)
                    dq.append(cfn.key)
        return wit

    def may_chain(self, wit, key, limit=12):
        """human-readable witness chain from a may() result"""
        out = []
        while key is not None and limit > 0:
            n, nxt = wit[key]
            out.append("%s:%s:%d %s" % (n.fn.file, n.fn.name, n.line, n.text()[:80]))
            key = nxt
            limit -= 1
        return out

    def never_returns(self):
        """function keys that cannot reach their exit (all paths end in noreturn calls)"""
        if self._nr is not None:
            return self._nr
        nr = set(f.key for f in self.functions() if f.noreturn_attr)
        changed = True
        fns = [f for f in self.functions() if f.entry is not None]
        while changed:
            changed = False
            for fn in fns:
                if fn.key in nr:
                    continue
                avoid = set()
                for n in fn.call_nodes():
                    c = n.ev["x"]
                    if c.get("nr"):
                        avoid.add(n)
                        continue
                    if c.get("fn"):
                        gs = self.lookup(c["fn"], fn)
                        if gs and all(g.key in nr for g in gs):
                            avoid.add(n)
                if not avoid:
                    continue
                r = fn.reach([fn.entry_node()], avoid=avoid)
                if fn.entry_node() in avoid or fn.exit_node() not in r:
                    nr.add(fn.key)
                    changed = True
        self._nr = nr
        return nr

    def noreturn_nodes(self, fn):
        """call nodes of fn that never return"""
        nr = self.never_returns()
        out = set()
        for n in fn.call_nodes():
            c = n.ev["x"]
            if c.get("nr"):
                out.add(n)
            elif c.get("fn"):
                gs = self.lookup(c["fn"], fn)
                if gs and all(g.key in nr for g in gs):
                    out.add(n)
        return out

    def must(self, direct_pred, weak=False):
        """least fixpoint: set of function keys all of whose entry->return paths contain an
        event satisfying direct_pred or a call to a function in the set (for slot calls: all
        resolved targets in the set)."""
        must = set()
        fns = [f for f in self.functions() if f.entry is not None]
        direct = {}
        for fn in fns:
            direct[fn.key] = set(n for n in fn.nodes() if n.ev and direct_pred(fn, n))
        changed = True
        while changed:
            changed = False
            for fn in fns:
                if fn.key in must:
                    continue
                through = set(direct[fn.key]) | self.noreturn_nodes(fn)
                for n in fn.call_nodes():
                    gs = self.callees(fn, n.ev["x"], weak=weak)
                    if gs and all(g.key in must for g in gs):
                        through.add(n)
                if not through:
                    continue
                r = fn.reach([fn.entry_node()], avoid=through)
                if fn.entry_node() in through or fn.exit_node() not in r:
                    must.add(fn.key)
                    changed = True
        return must


RENAME_LOCALS = _os.environ.get("VERIF_RENAME_LOCALS") is not None
LOCALNAMES = _os.environ.get("VERIF_NO_LOCALNAMES") is None
RENAME_STATICS = _os.environ.get("VERIF_RENAME_STATICS") is not None
STATICNAMES = _os.environ.get("VERIF_NO_STATICNAMES") is None
from . import localnames
from . import staticnames


def _load_unit(path):
    """facts of one unit with the names of its file-local functions mapped onto the pinned tree's"""
    d = facts.load_unit(path)
    if RENAME_STATICS:
        staticnames.selftest_rename(d)
    if STATICNAMES:
        staticnames.apply(d)
    return d


def _rename_locals(raw):
    """self-test aid (VERIF_RENAME_LOCALS=1): every local variable and parameter of the function gets another name,
    exactly what a source-level rename would give the extractor.  Rules must not care."""
    if raw.get("_rn"):
        return
    raw["_rn"] = True

    def ren(x):
        if isinstance(x, dict):
            if x.get("k") == "v" and x.get("s") in ("l", "p") and isinstance(x.get("n"), str):
                x["n"] = "zq_" + x["n"]
            for v in x.values():
                ren(v)
        elif isinstance(x, list):
            for v in x:
                ren(v)
    for b in raw.get("blocks", []):
        ren(b.get("ev", []))
        if b.get("t"):
            ren(b["t"])
    for p_ in raw.get("params", []) + raw.get("locals", []):
        if isinstance(p_.get("n"), str):
            p_["n"] = "zq_" + p_["n"]


class World:
    """all extracted units"""

    def __init__(self, verbose=False):
        self.paths, self.units, self.groups = facts.extract_all(verbose=verbose)
        self.unit_fns = {}
        self.unit_globals = {}
        self.records = {}
        self.addr_taken = set()
        self.n_functions = 0
        self.n_absorbed = 0
        self.unit_fns_plain = {}
        known = _known_names() if INLINE_HELPERS else set()
        _addr_all = set()
        if INLINE_HELPERS:
            for u in self.units:
                _addr_all.update(_load_unit(self.paths[u.uid]).get("addr_taken", []))
        for u in self.units:
            d = _load_unit(self.paths[u.uid])
            fl = []
            for raw in d["functions"]:
                if raw.get("nocfg"):
                    continue
                if RENAME_LOCALS:
                    _rename_locals(raw)
                if LOCALNAMES:
                    localnames.apply(raw)
                fl.append(Fn(raw, u.uid))
            self.unit_fns_plain[u.uid] = fl
            if INLINE_HELPERS:
                fl, ab = absorb_helpers(fl, set(d.get("addr_taken", [])) | _addr_all, known)
                self.n_absorbed += len(ab)
            self.unit_fns[u.uid] = fl
            self.n_functions += len(fl)
            self.unit_globals[u.uid] = d.get("globals", [])
            for r in d.get("records", []):
                self.records.setdefault(r["name"], r)
            self.addr_taken.update(d.get("addr_taken", []))
        self._programs = {}

    def program(self, name, plain=False):
        """plain=True: the functions exactly as written (no helper absorbed); for analyses that reason
        about helpers as functions (return-value classification)"""
        if plain:
            key = name + "#plain"
            if key not in self._programs:
                saved = self.unit_fns
                self.unit_fns = {u: [Fn(f.raw, f.uid) for f in fl] for u, fl in self.unit_fns_plain.items()} \
                    if not hasattr(self, "_plain_fns") else self._plain_fns
                self._plain_fns = self.unit_fns
                try:
                    self._programs.pop(name + "#tmp", None)
                    p = self._mk_program(name)
                finally:
                    self.unit_fns = saved
                self._programs[key] = p
            return self._programs[key]
        if name in self._programs:
            return self._programs[name]
        if name not in compdb.PROGRAMS:
            raise Broken("unknown program " + name)
        uids = []
        for g in compdb.PROGRAMS[name]:
            if g not in self.groups:
                raise Broken("unit group %s missing from the build" % g)
            uids.extend(self.groups[g])
        p = Program(self, name, uids)
        self._programs[name] = p
        return p

    def _mk_program(self, name):
        uids = []
        for g in compdb.PROGRAMS[name]:
            if g not in self.groups:
                raise Broken("unit group %s missing from the build" % g)
            uids.extend(self.groups[g])
        return Program(self, name, uids)

    def globals_named(self, name, program=None):
        out = []
        uids = program.uids if program else [u.uid for u in self.units]
        seen = set()
        for uid in uids:
            for g in self.unit_globals.get(uid, []):
                if g["name"] == name and (g["file"], g["line"]) not in seen:
                    seen.add((g["file"], g["line"]))
                    out.append(g)
        return out
