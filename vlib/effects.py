"""Effect classes over call events."""
from . import tree as T
from .rulelib import is_call

WRITE_REQ = ("io_channel_write_blk", "io_channel_write_blk64", "io_channel_write_byte",
             "io_channel_discard", "io_channel_zeroout",
             "struct_io_manager.write_blk", "struct_io_manager.write_blk64", "struct_io_manager.write_byte",
             "struct_io_manager.discard", "struct_io_manager.zeroout")

DIRTY_MARK = ("ext2fs_mark_super_dirty", "ext2fs_mark_bb_dirty", "ext2fs_mark_ib_dirty", "ext2fs_mark_changed")

RAW_WRITE = ("pwrite", "pwrite64", "write", "ftruncate", "ftruncate64", "fallocate", "fallocate64",
             "posix_fallocate", "pwritev", "writev")


def is_write_req(fn, n):
    """a write request on a channel that (may) lead to the device; requests on the undo manager's own
    undo *file* channel are not device writes"""
    if not is_call(n, *WRITE_REQ):
        return False
    a = n.ev["x"].get("a", [])
    p = T.path(a[0]) if a else None
    if p and (p.endswith("->undo_file") or p == "undo_file"):
        return False
    return True


def is_dirty_mark(fn, n):
    if is_call(n, *DIRTY_MARK):
        return True
    if n.ev and n.ev["e"] == "S":
        lf = T.last_field(n.ev["lhs"])
        if lf and lf[1] == "flags" and lf[0] == "struct_ext2_filsys":
            from .rulelib import store_sets_bits
            if store_sets_bits(n, "EXT2_FLAG_DIRTY"):
                return True
    return False


def is_raw_write(fn, n):
    if not is_call(n, *RAW_WRITE):
        return False
    return True


def is_discard_ioctl(fn, n):
    if not is_call(n, "ioctl"):
        return False
    a = n.ev["x"].get("a", [])
    return len(a) > 1 and bool({"BLKDISCARD", "BLKZEROOUT", "BLKSECDISCARD"} & T.macros(a[1]))


def nondevice_call(fn, n):
    """call that writes the undo manager's own undo *file*, not the device: not to be followed when
    looking for device write requests"""
    if not is_call(n, *WRITE_REQ) and not is_call(n, "io_channel_flush", "io_channel_close", "io_channel_set_blksize"):
        return False
    a = n.ev["x"].get("a", [])
    p = T.path(a[0]) if a else None
    return bool(p and (p.endswith("->undo_file") or p == "undo_file"))
