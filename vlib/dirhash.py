"""Sibling agreement on the directory hash version: the on-disk hash of a name depends on the
superblock's signed/unsigned flag (versions 0..2 become 3..5 when EXT2_FLAGS_UNSIGNED_HASH is set).
Every site that hashes names of an on-disk directory must pass a version that went through that
adjustment - otherwise entries are filed where the kernel / pass 2 / the other sites will not look."""
from . import tree as T
from .rulelib import calls_to, control_lits, arg


def _adjusted_here(fn, name):
    """a store raising local `name` (+= / = … + k) under a test of EXT2_FLAGS_UNSIGNED_HASH"""
    for n in fn.events("S"):
        if T.path(n.ev["lhs"]) != name:
            continue
        if n.ev.get("o") not in ("+=", "=", "++"):
            continue
        if any("EXT2_FLAGS_UNSIGNED_HASH" in T.macros(a) for t, a in control_lits(fn, n)):
            return True
    return False


def _field_adjusted(prog, lf, cache={}):
    key = (id(prog), lf)
    if key in cache:
        return cache[key]
    ok = False
    for f in prog.functions():
        for n in f.events("S"):
            if T.last_field(n.ev["lhs"]) == lf and n.ev.get("o") in ("+=", "=", "++"):
                if any("EXT2_FLAGS_UNSIGNED_HASH" in T.macros(a) for t, a in control_lits(f, n)):
                    ok = True
                # or assigned from a local that was adjusted
                r = T.path(n.ev.get("rhs"))
                if r and _adjusted_here(f, r):
                    ok = True
    cache[key] = ok
    return ok


def sites(prog, files):
    """-> [(fn, call node, ok, provenance text)] for every ext2fs_dirhash/ext2fs_dirhash2 call in files"""
    out = []
    for f in prog.functions():
        if not f.file.startswith(tuple(files)):
            continue
        for c in calls_to(f, "ext2fs_dirhash2", "ext2fs_dirhash"):
            a0 = arg(c, 0)
            ok = False
            how = T.pp(a0)[:40]
            p = T.path(a0)
            a = T.strip(a0)
            if isinstance(a, dict) and a.get("k") == "v" and p:
                # a local / parameter: adjusted in this function, or a parameter whose callers pass an adjusted value
                ok = _adjusted_here(f, p)
                if not ok and a.get("s") == "p":
                    ok = None       # provenance is the caller's business (helper taking the version as argument)
                if not ok and ok is not None:
                    # assigned from an adjusted field
                    for n in f.events("S"):
                        if T.path(n.ev["lhs"]) == p and T.last_field(n.ev.get("rhs") or {}) and \
                                _field_adjusted(prog, T.last_field(n.ev["rhs"])):
                            ok = True
            elif T.last_field(a0):
                ok = _field_adjusted(prog, T.last_field(a0))
                how = "%s.%s" % T.last_field(a0)
            out.append((f, c, ok, how))
    return out
