"""WIDTH rule (K13): a complemented (~) unsigned value of a narrower type that is zero-extended to
the width of an `&` / `&=` clears the high bits of the other operand as well.  When that operand
is a byte offset, a size or a block number (a 64-bit quantity by type), everything at or beyond
4 GiB / 2^32 blocks is silently mapped to the wrong place.  Facts come from the extractor
(`zxnot` on binary `&` nodes: operand side, widths, whether the mask is a constant, the written
type of the other operand); no text is matched."""
from . import tree as T

# 64-bit quantities by their written type: file offsets, sizes, block numbers
WIDE_TYPES = {"off_t", "__off_t", "off64_t", "__off64_t", "ext2_off64_t", "ext2_loff_t", "loff_t", "blk64_t",
              "__u64", "__s64", "unsigned long long", "long long", "e2_blkcnt_t", "uint64_t", "int64_t",
              "ext2fs_block_bitmap", "__le64", "__be64"}


def _exprs_of(fn):
    for n in fn.nodes():
        if not n.ev:
            continue
        for key in ("x", "rhs0" if "rhs0" in n.ev else "rhs", "lhs"):
            e = n.ev.get(key)
            if isinstance(e, dict):
                yield n.line, e
    for bid, b in fn.blocks.items():
        t = b.get("t")
        if t and isinstance(t.get("c"), dict):
            yield t.get("line") or fn.block_end(bid).line, t["c"]


def zx_masks(fns):
    """-> list of (fn, line, zxnot-dict, text) for every zero-extended complement mask applied to a
    64-bit offset/size/block quantity, and the number of & operations examined"""
    out = []
    seen = set()
    n_and = 0
    for fn in fns:
        for line, e in _exprs_of(fn):
            for x in T.walk(e):
                if not isinstance(x, dict) or x.get("k") != "b" or x.get("o") not in ("&", "&="):
                    continue
                n_and += 1
                z = x.get("zxnot")
                if not z:
                    continue
                ot = (z.get("ot") or "").replace("const ", "").strip()
                if ot not in WIDE_TYPES:
                    continue
                key = (fn.file, fn.name, T.pp(x))
                if key in seen:
                    continue
                seen.add(key)
                out.append((fn, line, z, T.pp(x)))
    return out, n_and
