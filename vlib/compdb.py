"""Compilation database for /repo, derived from the Makefiles by variable query only.

Never runs a recipe of the repository's build (in particular never `make -n -B`, which
re-runs config.status).  `make -f Makefile -f printvar.mk print-VAR` only expands a variable.
"""
import os, subprocess, sys

REPO = os.environ.get("VERIF_REPO", "/repo")
HERE = os.path.dirname(os.path.abspath(__file__))
PRINTVAR = os.path.join(HERE, "printvar.mk")

EXTRA_FLAGS = ["-UNDEBUG", "-std=gnu11", "-Wno-everything"]

# (directory, OBJS variable, unit group)
GROUPS = [
    ("lib/ext2fs", "OBJS", "libext2fs"),
    ("lib/e2p", "OBJS", "libe2p"),
    ("lib/support", "OBJS", "libsupport"),
    ("e2fsck", "OBJS", "e2fsck"),
    ("debugfs", "DEBUG_OBJS", "debugfs"),
    ("resize", "RESIZE_OBJS", "resize2fs"),
    ("misc", "TUNE2FS_OBJS", "tune2fs"),
    ("misc", "MKE2FS_OBJS", "mke2fs"),
    ("misc", "DUMPE2FS_OBJS", "dumpe2fs"),
    ("misc", "E2IMAGE_OBJS", "e2image"),
    ("misc", "E2UNDO_OBJS", "e2undo"),
    ("misc", "E2FREEFRAG_OBJS", "e2freefrag"),
    ("misc", "FUSE2FS_OBJS", "fuse2fs"),
    ("misc", "BADBLOCKS_OBJS", "badblocks"),
]

# objects whose source lives in another directory (as the Makefile rules say)
CROSS = {
    ("debugfs", "e2freefrag.o"): "misc/e2freefrag.c",
    ("debugfs", "create_inode.o"): "misc/create_inode.c",
    ("debugfs", "create_inode_libarchive.o"): "misc/create_inode_libarchive.c",
    ("debugfs", "revoke.o"): "e2fsck/revoke.c",
    ("debugfs", "recovery.o"): "e2fsck/recovery.c",
    ("misc", "journal.o"): "debugfs/journal.c",
    ("misc", "revoke.o"): "e2fsck/revoke.c",
    ("misc", "recovery.o"): "e2fsck/recovery.c",
}
# objects built with -I../e2fsck -DDEBUGFS in misc (JOURNAL_CFLAGS)
MISC_JOURNAL = {"journal.o", "revoke.o", "recovery.o"}

# programs = sets of unit groups linked together (for per-program call graphs)
PROGRAMS = {
    "e2fsck": ["e2fsck", "libext2fs", "libe2p", "libsupport"],
    "debugfs": ["debugfs", "libext2fs", "libe2p", "libsupport"],
    "resize2fs": ["resize2fs", "libext2fs", "libe2p", "libsupport"],
    "tune2fs": ["tune2fs", "libext2fs", "libe2p", "libsupport"],
    "mke2fs": ["mke2fs", "libext2fs", "libe2p", "libsupport"],
    "dumpe2fs": ["dumpe2fs", "libext2fs", "libe2p", "libsupport"],
    "e2image": ["e2image", "libext2fs", "libe2p", "libsupport"],
    "e2undo": ["e2undo", "libext2fs", "libe2p", "libsupport"],
    "e2freefrag": ["e2freefrag", "libext2fs", "libe2p", "libsupport"],
    "fuse2fs": ["fuse2fs", "libext2fs", "libe2p", "libsupport"],
    "badblocks": ["badblocks", "libext2fs", "libe2p", "libsupport"],
}


def _query(directory, var):
    out = subprocess.run(
        ["make", "-s", "--no-print-directory", "-C", os.path.join(REPO, directory),
         "-f", "Makefile", "-f", PRINTVAR, "print-" + var],
        stdout=subprocess.PIPE, stderr=subprocess.PIPE, universal_newlines=True)
    if out.returncode != 0:
        sys.stderr.write("compdb: cannot query %s in %s: %s\n" % (var, directory, out.stderr))
        sys.exit(2)
    return out.stdout.split()


class Unit:
    __slots__ = ("uid", "group", "dir", "src", "flags", "variant")

    def __init__(self, uid, group, directory, src, flags, variant):
        self.uid, self.group, self.dir, self.src = uid, group, directory, src
        self.flags, self.variant = flags, variant

    def __repr__(self):
        return "Unit(%s)" % self.uid


def build():
    """-> (units: list[Unit], groups: {group: [uid]})"""
    units = {}
    groups = {}
    flags_cache = {}
    for directory, var, group in GROUPS:
        if directory not in flags_cache:
            flags_cache[directory] = (_query(directory, "ALL_CFLAGS"),)
        base = [f for f in flags_cache[directory][0] if f != "-Wno-error"]
        objs = _query(directory, var)
        for o in objs:
            if not o.endswith(".o"):
                continue
            src = CROSS.get((directory, o), os.path.join(directory, o[:-2] + ".c"))
            flags = list(base)
            variant = ""
            if directory == "misc" and o in MISC_JOURNAL:
                flags = flags + ["-I./../e2fsck", "-DDEBUGFS"]
                variant = "dbg" if src.split("/")[0] != "debugfs" else ""
            elif directory == "debugfs":
                variant = "dbg" if src.split("/")[0] != "debugfs" else ""
            if not os.path.exists(os.path.join(REPO, src)):
                # generated sources (debug_cmds.c, ext2_err.c, prof_err.c, default_profile.c)
                # are produced by the repository's build; absent => not analysable
                sys.stderr.write("compdb: note: %s not present (generated?), skipped\n" % src)
                continue
            uid = src + ("@" + variant if variant else "")
            if uid not in units:
                units[uid] = Unit(uid, group, directory, src, flags + EXTRA_FLAGS, variant)
            groups.setdefault(group, [])
            if uid not in groups[group]:
                groups[group].append(uid)
    return list(units.values()), groups


if __name__ == "__main__":
    us, gs = build()
    for g, l in gs.items():
        print(g, len(l))
    print("units", len(us))
