"""Must-hold lockset dataflow over a function's event graph."""
from collections import deque


def must_hold(fn, lock_event, entry_held=frozenset(), edge_ok=None, universe=None):
    """lock_event(node) -> ('L'|'U', kind) | None.  Returns {node: frozenset(held before node)}
    for nodes reachable from entry (under edge_ok)."""
    universe = frozenset(universe or [])
    TOP = None
    IN = {}
    entry = fn.entry_node()
    IN[entry] = frozenset(entry_held)
    dq = deque([entry])
    while dq:
        n = dq.popleft()
        held = IN[n]
        le = lock_event(n)
        out = held
        if le:
            if le[0] == 'L':
                out = held | {le[1]}
            else:
                out = held - {le[1]}
        for (m, si) in fn.succ(n):
            if si is not None and edge_ok is not None and not edge_ok(n, si, m):
                continue
            old = IN.get(m, TOP)
            new = out if old is TOP else (old & out)
            if old is TOP or new != old:
                IN[m] = new
                dq.append(m)
    return IN
