"""Helpers over the expression trees emitted by tool/e2facts.cc.

Node kinds: i (integer constant; c=value, m/om = macro or enumerator names), s (string),
v (variable; n,s,t), fn (function reference), m (member; b,f,r,a,t), c (call; fn|slot|via, a,
id, mac), u (unary; o,e), b (binary; o,l,r), ? (conditional; c0,t,f), x (subscript; b,i),
cast (t,e), se (statement expression), rec/arr (initialisers), o (other).
"""

CHILD_KEYS = ("b", "e", "l", "r", "c0", "i", "via", "sze")


def children(n):
    if not isinstance(n, dict):
        return
    k = n.get("k")
    if k == "?":
        for key in ("c0", "t", "f"):
            if isinstance(n.get(key), dict):
                yield n[key]
        return
    if k == "rec":
        for v in n.get("f", {}).values():
            if isinstance(v, dict):
                yield v
        return
    if k == "arr":
        for v in n.get("e", []):
            if isinstance(v, dict):
                yield v
        return
    for key in CHILD_KEYS:
        v = n.get(key)
        if isinstance(v, dict):
            yield v
    if k == "c":
        for a in n.get("a", []):
            if isinstance(a, dict):
                yield a


def walk(n):
    """pre-order over all nodes"""
    if not isinstance(n, dict):
        return
    stack = [n]
    while stack:
        x = stack.pop()
        yield x
        cs = list(children(x))
        cs.reverse()
        stack.extend(cs)


def strip(n):
    """look through casts and statement expressions"""
    while isinstance(n, dict) and n.get("k") in ("cast", "se") and isinstance(n.get("e"), dict):
        n = n["e"]
    return n


def const(n):
    n = strip(n)
    if isinstance(n, dict) and "c" in n and n.get("k") != "?":
        return n["c"]
    if isinstance(n, dict) and n.get("k") == "?" and "c" in n and not isinstance(n["c"], dict):
        return n["c"]
    return None


def macros(n):
    """all macro / enumerator names in a (constant) expression"""
    out = set()
    for x in walk(n):
        if "m" in x and isinstance(x["m"], str):
            out.add(x["m"])
        if "om" in x:
            out.add(x["om"])
    return out


def calls(n):
    return [x for x in walk(n) if x.get("k") == "c"]


def callee_name(c):
    """name of a call node: direct callee, else the macro that wraps a slot call, else slot"""
    if c.get("fn"):
        return c["fn"]
    return None


def call_names(c):
    """all names by which a call node may be referred to in rules"""
    out = []
    if c.get("fn"):
        out.append(c["fn"])
    if c.get("mac"):
        out.append(c["mac"])
    if c.get("omac"):
        out.append(c["omac"])
    sl = c.get("slot")
    if sl and sl.get("f"):
        out.append("%s.%s" % (sl.get("r", "?"), sl["f"]))
    return out


def fields(n):
    """set of (record, field) read anywhere in n"""
    return {(x.get("r", ""), x["f"]) for x in walk(n) if x.get("k") == "m"}


def field_names(n):
    return {x["f"] for x in walk(n) if x.get("k") == "m"}


def vars_in(n):
    return {x["n"] for x in walk(n) if x.get("k") == "v"}


def path(n):
    """access path: root variable and field chain, e.g. ctx->fs->block_map ; None if not a path.
    Dereference, address-of, casts and subscripts are looked through."""
    parts = []
    n = strip(n)
    while isinstance(n, dict):
        k = n.get("k")
        if k == "m":
            parts.append(n["f"])
            n = strip(n["b"])
        elif k == "u" and n.get("o") in ("*", "&"):
            n = strip(n["e"])
        elif k == "x":
            n = strip(n["b"])
        elif k == "v":
            parts.append(n["n"])
            parts.reverse()
            return "->".join(parts)
        elif k == "b" and n.get("o") in ("+", "-"):
            n = strip(n["l"])
        else:
            return None
    return None


def field_chain(n):
    """list of (record, field) from outermost base to the last member; root var name first elt
    as ('', name)"""
    parts = []
    n = strip(n)
    while isinstance(n, dict):
        k = n.get("k")
        if k == "m":
            parts.append((n.get("r", ""), n["f"]))
            n = strip(n["b"])
        elif k == "u" and n.get("o") in ("*", "&"):
            n = strip(n["e"])
        elif k == "x":
            n = strip(n["b"])
        elif k == "v":
            parts.append(("", n["n"]))
            parts.reverse()
            return parts
        elif k == "b" and n.get("o") in ("+", "-"):
            n = strip(n["l"])
        else:
            parts.append(("", "?"))
            parts.reverse()
            return parts
    return parts


def last_field(n):
    n = strip(n)
    while isinstance(n, dict) and n.get("k") in ("u", "x"):
        if n.get("k") == "u" and n.get("o") not in ("*", "&"):
            return None
        n = strip(n["e"] if n["k"] == "u" else n["b"])
    if isinstance(n, dict) and n.get("k") == "m":
        return (n.get("r", ""), n["f"])
    return None


def pp(n, depth=0):
    """canonical pretty-printer (resolved names, not source text)"""
    if not isinstance(n, dict):
        return "?"
    k = n.get("k")
    if k == "i":
        if n.get("om"):
            return n["om"]
        if n.get("m"):
            return n["m"]
        if "off" in n:
            return "offsetof(%s,%s)" % (n.get("offr", ""), n["off"])
        if "sz" in n:
            return "sizeof(%s)" % n["sz"]
        return str(n.get("c", "?"))
    if k == "s":
        return '"%s"' % n.get("v", "")[:40]
    if k == "v":
        return n["n"]
    if k == "fn":
        return n["n"]
    if k == "m":
        return pp(n["b"]) + ("->" if n.get("a") else ".") + n["f"]
    if k == "c":
        nm = n.get("mac") or n.get("fn")
        if not nm:
            sl = n.get("slot")
            nm = pp(n["via"]) if n.get("via") else (sl["f"] if sl else "?")
        return "%s(%s)" % (nm, ", ".join(pp(a) for a in n.get("a", [])))
    if k == "u":
        if n.get("c") is not None and (n.get("om") or n.get("m")) and not vars_in(n):
            return n.get("om") or n["m"]
        if n.get("post"):
            return pp(n["e"]) + n["o"]
        return n["o"] + pp(n["e"])
    if k == "b":
        if n.get("c") is not None and n.get("om") and not vars_in(n):
            return n["om"]
        return "(%s %s %s)" % (pp(n["l"]), n["o"], pp(n["r"]))
    if k == "?":
        return "(%s ? %s : %s)" % (pp(n["c0"]), pp(n["t"]), pp(n["f"]))
    if k == "x":
        return "%s[%s]" % (pp(n["b"]), pp(n["i"]))
    if k == "cast":
        return pp(n["e"])
    if k == "se":
        return pp(n.get("e"))
    if k == "rec":
        return "{%s}" % ", ".join(".%s=%s" % (f, pp(v)) for f, v in n.get("f", {}).items())
    if k == "arr":
        return "[%d elems]" % len(n.get("e", []))
    return "<%s>" % n.get("cls", "o")


def norm_cond(n):
    """-> (atom, positive). Strips !, ==0, !=0 and turns != into negated ==."""
    pos = True
    while True:
        n = strip(n)
        if not isinstance(n, dict):
            return n, pos
        k = n.get("k")
        if k == "u" and n.get("o") == "!":
            pos = not pos
            n = n["e"]
            continue
        if k == "b" and n.get("o") in ("==", "!="):
            lc, rc = const(n["l"]), const(n["r"])
            if rc == 0 and lc is None:
                if n["o"] == "==":
                    pos = not pos
                n = n["l"]
                continue
            if lc == 0 and rc is None:
                if n["o"] == "==":
                    pos = not pos
                n = n["r"]
                continue
            if n["o"] == "!=":
                m = dict(n)
                m["o"] = "=="
                return m, not pos
        return n, pos


def bits_test(atom):
    """if atom is `X & K` (K constant) -> (X, K, macros(K)) else None"""
    a = strip(atom)
    if isinstance(a, dict) and a.get("k") == "b" and a.get("o") == "&":
        if const(a["r"]) is not None:
            return a["l"], const(a["r"]), macros(a["r"])
        if const(a["l"]) is not None:
            return a["r"], const(a["l"]), macros(a["l"])
    return None
