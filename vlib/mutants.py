"""Mutant corpus: each stored patch is a realistic still-compiling edit that breaks one rule
instance.  It is applied to a scratch copy of /repo's sources (outside /repo and /verif), the
check is re-run against the copy, and must report a violation of the expected rule."""
import glob, os, re, shutil, subprocess, sys, tempfile

VERIF = os.path.dirname(os.path.dirname(os.path.abspath(__file__)))


def scratch_copy(repo="/repo"):
    d = tempfile.mkdtemp(prefix="verif-mut-")
    subprocess.run(["rsync", "-a", "--exclude=.git", "--exclude=tests", "--exclude=*.o", "--exclude=*.a",
                    "--exclude=po", "--exclude=doc", "--exclude=*.so*", "--exclude=contrib",
                    repo + "/", d + "/src/"], check=True)
    cache = os.path.join(VERIF, ".cache")
    if os.path.isdir(cache):
        subprocess.run(["cp", "-al", cache, d + "/cache"], check=False)
    return d


def run_mutant(patch, prop, tier="quick"):
    """-> (exit code, stdout, expected rule)"""
    expect = None
    with open(patch) as f:
        for line in f:
            m = re.match(r"#\s*expect:\s*(\S+)", line)
            if m:
                expect = m.group(1)
                break
    if expect is None and os.sep + "neutral" + os.sep in os.path.abspath(patch):
        expect = "none"
    patch = os.path.abspath(patch)
    d = scratch_copy()
    try:
        r = subprocess.run(["patch", "-p1", "-s", "-d", d + "/src", "-i", patch],
                           stdout=subprocess.PIPE, stderr=subprocess.STDOUT, universal_newlines=True)
        if r.returncode != 0:
            return (3, "patch does not apply: " + r.stdout, expect)
        env = dict(os.environ)
        env["VERIF_REPO"] = d + "/src"
        env["VERIF_CACHE"] = d + "/cache"
        env["VERIF_EVIDENCE_DIR"] = d + "/evidence"
        env["VERIF_REPLAY_DIR"] = d + "/replay"
        env["VERIF_TIER"] = "quick"
        r = subprocess.run([os.path.join(VERIF, "check"), prop, "--tier", "quick"], env=env,
                           stdout=subprocess.PIPE, stderr=subprocess.STDOUT, universal_newlines=True)
        return (r.returncode, r.stdout, expect)
    finally:
        shutil.rmtree(d, ignore_errors=True)


NEUTRAL_GROUPS = {"R1": ("C01", "C02", "C05", "C13"), "R2": ("C03", "C04", "C12", "C17"), "R3": ("C06", "C14", "C16", "C20"),
                  "R4": ("C08", "C11", "C07", "C19"), "R5": ("C09", "C10", "C15", "C18"),
                  # second set, written against other functions of the same anchors
                  "Q1": ("C01", "C02", "C05", "C14"), "Q2": ("C03", "C04", "C06", "C12"), "Q3": ("C09", "C16", "C17", "C10"),
                  "Q4": ("C11", "C07", "C08", "C19", "C20"), "Q5": ("C15", "C18", "C13"),
                  # third set, written against the functions the round-4 rules look at
                  "S1": ("C01", "C02", "C05"), "S2": ("C03", "C06", "C12", "C13", "C14"), "S3": ("C08", "C11", "C16", "C19"),
                  "S4": ("C09", "C10", "C15", "C18"), "S5": ("C04", "C07", "C17", "C20"),
                  # fourth set, written against the functions the round-5/6 rules and the later fixes look at
                  "T1": ("C01", "C02", "C05"), "T2": ("C03", "C04", "C06", "C12", "C13", "C14"), "T3": ("C08", "C11", "C16", "C20"),
                  "T4": ("C09", "C10", "C15", "C18"), "T5": ("C06", "C07", "C13", "C17", "C19"),
                  # fifth set, written against the functions the round-7 rules and the latest fixes look at
                  "U1": ("C01", "C02", "C03", "C05"), "U2": ("C04", "C06", "C09", "C12", "C14", "C17"),
                  "U3": ("C07", "C08", "C11", "C20"), "U4": ("C09", "C10", "C15", "C16", "C18"),
                  "U5": ("C02", "C03", "C09", "C13", "C19"),
                  # sixth set, written against the conditions under which e2fsck writes (the consent rules C13.h-k)
                  "V1": ("C13", "C02", "C05", "C04", "C08", "C11", "C01"), "V2": ("C13", "C01", "C02", "C05", "C11", "C09")}


def corpus(prop):
    """stored breaking edits of the property (mutants/<prop>/*.patch, `# expect: <rule>`) and the
    behaviour-preserving refactorings written for its anchors (neutral/<group>/r*.diff: must stay silent)"""
    out = sorted(glob.glob(os.path.join(VERIF, "mutants", prop, "*.patch")))
    for g, props in NEUTRAL_GROUPS.items():
        if prop in props:
            out += sorted(glob.glob(os.path.join(VERIF, "neutral", g, "r*.diff")))
    return out


def run_corpus(prop, rep):
    """thorough tier: every mutant must be reported, naming the expected rule"""
    n = 0
    # the runs are independent processes on scratch copies: several at a time (the sandbox has 16 cores; the three
    # lanes of a full thorough run share them)
    from concurrent.futures import ThreadPoolExecutor
    pats = corpus(prop)
    with ThreadPoolExecutor(max_workers=int(os.environ.get("VERIF_JOBS", "5"))) as ex:
        results = list(ex.map(lambda q: run_mutant(q, prop), pats))
    for p, (code, out, expect) in zip(pats, results):
        name = os.path.basename(p)
        fired = code == 1 and "VIOLATION property=%s" % prop in out
        named = fired and (expect is None or re.search(r"^\s+%s(\.\S+)? at " % re.escape(expect), out, re.M) is not None)
        if code == 3:
            # the corpus is relative to the pinned tree: a patch whose context is gone is skipped, not a failure
            rep.note("mutant %s does not apply to this tree: skipped" % name)
            rep.extra.setdefault("mutants_skipped", []).append(name)
            continue
        n += 1
        if expect == "none":
            # a behaviour-preserving edit: the check must stay silent
            if code != 0:
                rep.broke("neutral edit %s raises an alarm (exit %d): %s" % (name, code, out[-400:]))
            else:
                rep.extra.setdefault("neutral_edits_silent", []).append(name)
            continue
        if not named:
            rep.broke("mutant %s not detected as %s (exit %d): %s" % (name, expect, code, out[-400:]))
        else:
            rep.extra.setdefault("mutants_detected", []).append("%s -> %s" % (name, expect))
    rep.extra["mutants_run"] = n
    # every parameter and local of every function renamed (done on the facts, which is what a source-level rename
    # gives the extractor): names are not part of the meaning, the check must stay silent
    env = dict(os.environ, VERIF_RENAME_LOCALS="1", VERIF_TIER="quick")
    d = tempfile.mkdtemp(prefix="verif-rn-")
    try:
        env["VERIF_EVIDENCE_DIR"] = d + "/evidence"
        env["VERIF_REPLAY_DIR"] = d + "/replay"
        r = subprocess.run([os.path.join(VERIF, "check"), prop, "--tier", "quick"], env=env,
                           stdout=subprocess.PIPE, stderr=subprocess.STDOUT, universal_newlines=True)
        if r.returncode != 0:
            rep.broke("renaming every local and parameter raises an alarm (exit %d): %s" % (r.returncode, r.stdout[-400:]))
        else:
            rep.extra["rename_all_locals_silent"] = True
    finally:
        shutil.rmtree(d, ignore_errors=True)
    # the same for the names of file-local functions (mapped back onto rules/ref/static_functions.tsv by signature and order)
    env = dict(os.environ, VERIF_RENAME_STATICS="1", VERIF_TIER="quick")
    d = tempfile.mkdtemp(prefix="verif-rn-")
    try:
        env["VERIF_EVIDENCE_DIR"] = d + "/evidence"
        env["VERIF_REPLAY_DIR"] = d + "/replay"
        r = subprocess.run([os.path.join(VERIF, "check"), prop, "--tier", "quick"], env=env,
                           stdout=subprocess.PIPE, stderr=subprocess.STDOUT, universal_newlines=True)
        if r.returncode != 0:
            rep.broke("renaming every static function raises an alarm (exit %d): %s" % (r.returncode, r.stdout[-400:]))
        else:
            rep.extra["rename_all_statics_silent"] = True
    finally:
        shutil.rmtree(d, ignore_errors=True)
    return n


if __name__ == "__main__":
    prop = sys.argv[1]
    pats = sys.argv[2:] or corpus(prop)
    for p in pats:
        code, out, expect = run_mutant(p, prop)
        v = [l for l in out.splitlines() if re.match(r"\s+C\d+\.\w+", l) or l.startswith("ANALYSIS")]
        print("%s: exit %d expect %s" % (os.path.basename(p), code, expect))
        for l in v[:6]:
            print("   ", l[:220])
