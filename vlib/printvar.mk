print-%: ; @echo $($*)
