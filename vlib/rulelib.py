"""Small predicates shared by the rule files."""
from . import tree as T
from .engine import Broken, line_path
from . import absint


def is_call(n, *names):
    if not n.ev or n.ev["e"] != "C":
        return False
    cn = T.call_names(n.ev["x"])
    return any(x in names for x in cn)


def calls_to(fn, *names):
    return [n for n in fn.call_nodes() if is_call(n, *names)]


def arg(n, i):
    a = n.ev["x"].get("a", [])
    return a[i] if i < len(a) else None


def arg_has_macro(n, i, name):
    a = arg(n, i)
    return a is not None and name in T.macros(a)


def arg_path_endswith(n, i, *suffixes):
    a = arg(n, i)
    if a is None:
        return False
    p = T.path(a)
    return p is not None and any(p == s or p.endswith("->" + s) for s in suffixes)


def stores(fn, record=None, field=None):
    """STORE nodes whose lhs ends in record.field"""
    out = []
    for n in fn.events("S"):
        lf = T.last_field(n.ev["lhs"])
        if lf is None:
            continue
        if field is not None and lf[1] != field:
            continue
        if record is not None and lf[0] != record:
            continue
        out.append(n)
    return out


def store_sets_bits(n, macro):
    """store `x |= K` / `x = y | K` putting the named bit in"""
    o = n.ev.get("o")
    rhs = n.ev.get("rhs")
    if rhs is None:
        return False
    if o == "|=":
        return macro in T.macros(rhs)
    if o == "=":
        # x = ... | K  (not under ~)
        for x in T.walk(rhs):
            if x.get("k") == "u" and x.get("o") == "~":
                continue
        return macro in _positive_macros(rhs)
    return False


def _positive_macros(e):
    """macro names appearing outside any ~ operator"""
    out = set()
    stack = [e]
    while stack:
        x = stack.pop()
        if not isinstance(x, dict):
            continue
        if x.get("k") == "u" and x.get("o") == "~":
            continue
        if "m" in x and isinstance(x["m"], str):
            out.add(x["m"])
        if "om" in x:
            out.add(x["om"])
        stack.extend(T.children(x))
    return out


def store_clears_bits(n, macro):
    """store `x &= ~K` or `x = y & ~K`"""
    o = n.ev.get("o")
    rhs = n.ev.get("rhs")
    if rhs is None:
        return False
    if o not in ("&=", "="):
        return False
    for x in T.walk(rhs):
        if x.get("k") == "u" and x.get("o") == "~" and macro in T.macros(x["e"]):
            return True
    return False


def lit_tests_bit(atom, macro, field=None):
    """atom is `X & K` with K containing macro (and X's path ending in field if given)"""
    bt = T.bits_test(atom)
    if not bt:
        return False
    x, k, ms = bt
    if macro not in ms:
        return False
    if field is not None:
        lf = T.last_field(x)
        p = T.path(x)
        if not ((lf and lf[1] == field) or (p and p.split("->")[-1] == field)):
            return False
    return True


def control_lits(fn, node):
    """[(truth, atom)] of branch literals that every path to node must satisfy; a node that is reachable through the
    case labels L1..Ln only of a switch on E contributes `E == Li` (true) when n == 1 - the same test an if-chain
    would spell `if (E == L1)` - so that rules do not depend on which of the two forms the code uses"""
    out = [(truth, atom) for (_b, truth, atom) in fn.control_literals(node)]
    from .engine import switch_cases
    for sw in switch_cases(fn, node):
        labs = sw["labels"]
        if len(labs) == 1 and isinstance(labs[0], dict) and isinstance(sw.get("expr"), dict):
            cv = labs[0]
            k = {"k": "i", "c": cv.get("c")}
            if cv.get("t") and str(cv["t"]).replace("_", "").isalnum() and not str(cv["t"])[0].isdigit():
                k["m"] = cv["t"]
            out.append((True, {"k": "b", "o": "==", "l": sw["expr"], "r": k}))
    return out


def restrict_lits(fn, node):
    """[(truth, atom)] of every branch that can keep control from reaching node within the current loop iteration:
    the conditions a "restricted only by ..." rule has to look at (includes guards written as `A || B`)"""
    from .engine import restricting_literals
    hb = loop_head(fn, node)
    stop = [fn.node(hb, 0)] if hb is not None else []
    return [(t, a) for (_b, t, a) in restricting_literals(fn, node, stop)]


def guarded_by_bit(fn, node, macro, truth, field=None, resolve=True):
    """node executes only if (X & macro) has the given truth"""
    for (t, atom) in control_lits(fn, node):
        a = atom
        if resolve:
            a = resolve_local(fn, a)
        if lit_tests_bit(a, macro, field) and t == truth:
            return True
    return False


def resolve_local(fn, e):
    """replace a single-assignment local by its defining expression (one level)"""
    e0 = T.strip(e)
    if isinstance(e0, dict) and e0.get("k") == "v" and e0.get("s") == "l":
        defs = [n for n in fn.events("S") if T.strip(n.ev["lhs"]).get("k") == "v"
                and T.strip(n.ev["lhs"])["n"] == e0["n"]]
        if len(defs) == 1 and defs[0].ev.get("o") == "=" and isinstance(defs[0].ev.get("rhs"), dict):
            return defs[0].ev["rhs"]
    return e


def where(n):
    return n.where()


def site(fn, what):
    """semantic site key: file:function:construct (no line numbers)"""
    return "%s:%s:%s" % (fn.file, fn.name, what)


def failure_returns(fn, prog, call_node):
    return absint.return_values_after_failure(fn, prog, call_node)


def loop_body(fn, hb):
    """nodes of the natural loop whose head is block hb: the head plus everything that can reach one of the
    head's back edges without passing the head (a back edge comes from a predecessor the head dominates).
    Code reached by `break`/`goto` out of the loop is not part of it."""
    h0 = fn.node(hb, 0)
    back = [p for p in fn.pred(h0) if p is not h0 and fn.dominated_by(p, [h0])]
    body = fn.reach_back(back, avoid=[h0]) if back else set()
    body = set(body)
    for n in fn.nodes():
        if n.bid == hb:
            body.add(n)
    return body


_LOOPS = {}


def natural_loops(fn):
    """{head block id: body node set} for every block that is the target of a back edge (an edge from a node the
    block dominates) - whatever statement the loop was written with, and with a compound condition the block of its
    first operand"""
    key = (id(fn), fn.file, fn.name, len(fn.blocks))
    if key in _LOOPS:
        return _LOOPS[key]
    out = {}
    for hb in fn.blocks:
        h0 = fn.node(hb, 0)
        preds = [p for p in fn.pred(h0) if p is not h0]
        if len(preds) < 2 and not any(p.bid == hb for p in preds):
            continue
        if not any(fn.dominated_by(p, [h0]) for p in preds):
            continue
        body = loop_body(fn, hb)
        if len(body) > 1:
            out[hb] = body
    _LOOPS[key] = out
    return out


def loop_head(fn, node):
    """block id of the innermost loop whose body contains node (None if not in a loop)"""
    best, head = None, None
    for hb, body in natural_loops(fn).items():
        if node in body:
            if best is None or len(body) < best:
                best, head = len(body), hb
    return head


_NAMED = {}


def named_const(prog, name, default=None):
    """value of a macro / enumeration constant as clang evaluated it somewhere in the program
    (expression nodes carry the spelling they expanded from)"""
    tab = _NAMED.get(id(prog))
    if tab is None:
        from . import width as _w
        tab = {}

        def visit(x, up):
            if not isinstance(x, dict):
                return
            mine = {v for v in (x.get("m"), x.get("om")) if isinstance(v, str)}
            if x.get("c") is not None and x.get("k") in ("i", "b", "u", "cast", "?"):
                # the outermost node of an expansion carries the value of the macro
                for nm in mine - up:
                    tab.setdefault(nm, x["c"])
            for ch in T.children(x):
                visit(ch, mine)
        for f in prog.functions():
            for _line, e in _w._exprs_of(f):
                visit(e, set())
        _NAMED[id(prog)] = tab
    return tab.get(name, default)


def silent_lits(fn, prog, node):
    """control literals of `node` whose other arm goes on normally - i.e. the conditions under which
    the event is *silently skipped*.  Literals whose other arm leaves through an error exit (noreturn
    call, or every return reached from it has a value known non-zero) are dropped: they do not skip
    the event, they fail the operation.  -> [(bid, truth, atom, is_loop_condition)]"""
    out = []
    from .engine import restricting_literals
    hb_ = loop_head(fn, node)
    cands, seen_ = [], set()
    for (bid, t, a) in fn.control_literals(node) + restricting_literals(fn, node, [fn.node(hb_, 0)] if hb_ is not None else []):
        if bid not in seen_:        # (the second list adds the guards no path *must* satisfy: `A || B`)
            seen_.add(bid)
            cands.append((bid, t, a))
    for (bid, t, a) in cands:
        lit = fn.literal(bid)
        end = fn.block_end(bid)
        taken = 0 if (t == lit[1]) else 1

        def other_only(n, si, m, _end=end, _tk=taken):
            return not (n is _end and si == _tk)
        ex = absint.Explorer(fn, prog)
        try:
            terms = ex.run([end], edge_ok=other_only, skip_start_event=True)
        except Broken:
            terms = None
        err = False
        if terms is not None:
            rets = [(nd, env) for (nd, env, fl, st) in terms if (nd.ev and nd.ev["e"] == "R") or nd is fn.exit_node()]
            valued = [(nd, env) for (nd, env) in rets if nd.ev and nd.ev["e"] == "R" and nd.ev.get("x") is not None]
            if not rets:
                err = True          # every path ends in a noreturn call
            elif valued and len(valued) == len([r for r in rets if r[0].ev and r[0].ev["e"] == "R"]) and \
                    all(absint._nz(ex.eval(nd.ev["x"], env)) for (nd, env) in valued):
                err = True
        if err:
            continue
        tk = (fn.blocks[bid].get("t") or {}).get("k")
        out.append((bid, t, a, tk in ("for", "while", "do")))
    return out


def depends_on(fn, e, pred, depth=3, prog=None):
    """expression e - looking through locals of fn to the expressions assigned to them, `depth`
    levels - contains a node satisfying pred.  Used wherever a rule asks "does this argument come
    from X": hoisting a sub-expression into a local must not change the verdict."""
    seen = set()

    def rec(x, d):
        if not isinstance(x, dict):
            return False
        for y in T.walk(x):
            if isinstance(y, dict) and pred(y):
                return True
        if d <= 0:
            return False
        for v in T.vars_in(x):
            if v in seen:
                continue
            seen.add(v)
            if v.startswith("$ret@"):
                # the value of an absorbed helper: it depends on what the helper was given
                for c in fn.call_nodes():
                    if c.ev["x"].get("fn") == v[5:]:
                        for a in c.ev["x"].get("a", []):
                            if rec(a, d - 1):
                                return True
            for n in fn.events("S"):
                if T.path(n.ev["lhs"]) == v and T.strip(n.ev["lhs"]).get("k") == "v" and isinstance(n.ev.get("rhs"), dict):
                    if rec(n.ev["rhs"], d - 1):
                        return True
            # a value filled in through a pointer: `q = &v; ... *q = e` (an absorbed helper's out-parameter)
            ptrs = {T.path(n.ev["lhs"]) for n in fn.events("S") if isinstance(n.ev.get("rhs"), dict) and
                    T.strip(n.ev["rhs"]).get("k") == "u" and T.strip(n.ev["rhs"]).get("o") == "&" and
                    T.path(T.strip(n.ev["rhs"]).get("e")) == v}
            if ptrs:
                for n in fn.events("S"):
                    l = T.strip(n.ev["lhs"])
                    if isinstance(l, dict) and l.get("k") == "u" and l.get("o") == "*" and T.path(l.get("e")) in ptrs and \
                            isinstance(n.ev.get("rhs"), dict):
                        if rec(n.ev["rhs"], d - 1):
                            return True
            # ... or by a helper that is still a function of its own: what it stores through that parameter
            if prog is not None:
                for c in fn.call_nodes():
                    for ai, a in enumerate(c.ev["x"].get("a", [])):
                        a0 = T.strip(a)
                        if isinstance(a0, dict) and a0.get("k") == "u" and a0.get("o") == "&" and T.path(a0.get("e")) == v:
                            for g in prog.lookup(c.ev["x"].get("fn"), fn) if c.ev["x"].get("fn") else []:
                                if ai < len(g.params):
                                    for n in g.events("S"):
                                        l = T.strip(n.ev["lhs"])
                                        if isinstance(l, dict) and l.get("k") == "u" and l.get("o") == "*" and \
                                                T.path(l.get("e")) == g.params[ai] and isinstance(n.ev.get("rhs"), dict):
                                            if depends_on(g, n.ev["rhs"], pred, d - 1, prog):
                                                return True
        return False
    return rec(e, depth)


def call_reaches(prog, fn, call, direct, depth=2):
    """the call `call` in fn performs `direct(f, node)` itself, or is a call to a function (followed
    `depth` levels through direct callees) one of whose nodes does.  `direct` decides on single nodes, so
    callers can make it as precise as they need (e.g. "a block walk whose callback frees blocks")."""
    if direct(fn, call):
        return True
    if depth <= 0:
        return False
    for g in prog.callees(fn, call.ev["x"], weak=False):
        for n in g.call_nodes():
            if call_reaches(prog, g, n, direct, depth - 1):
                return True
    return False


PRINTERS = ("printf", "fprintf", "sprintf", "snprintf", "com_err", "log_out", "log_err", "dbg_printf", "fputs", "puts")


def piecewise_loops(fns):
    """Loops that consume a quantity `total` in pieces: inside the loop `part` is computed from `total` and
    `total -= part`.  Everything done per piece must use the piece: a call in the loop body that is handed the
    running total (other than the call that produces the piece, a call that receives `&total`, or a diagnostic
    print) charges or copies the whole remaining amount once per piece.
    -> [(fn, total, part, [offending call nodes], n_calls_in_body)]"""
    out = []
    for f in fns:
        subs = [n for n in f.events("S") if n.ev.get("o") == "-=" and T.strip(n.ev["lhs"]).get("k") == "v" and
                isinstance(n.ev.get("rhs"), dict) and T.strip(n.ev["rhs"]).get("k") == "v"]
        done = set()
        for s_ in subs:
            tot, part = T.path(s_.ev["lhs"]), T.path(s_.ev["rhs"])
            hb = loop_head(f, s_)
            if hb is None or (hb, tot, part) in done:
                continue
            done.add((hb, tot, part))
            body = loop_body(f, hb)
            inits = [n for n in f.events("S") if n in body and T.path(n.ev["lhs"]) == part and n.ev.get("o") == "=" and
                     isinstance(n.ev.get("rhs"), dict) and tot in T.vars_in(n.ev["rhs"])]
            if not inits:
                continue
            producers = set()
            for n in inits:
                for c in T.calls(n.ev["rhs"]):
                    producers.add(c.get("id"))
            bad = []
            n_calls = 0
            for c in f.call_nodes():
                if c not in body:
                    continue
                n_calls += 1
                if c.ev["x"].get("id") in producers or is_call(c, *PRINTERS):
                    continue
                hit = False
                for a in c.ev["x"].get("a", []):
                    a0 = T.strip(a)
                    if isinstance(a0, dict) and a0.get("k") == "u" and a0.get("o") == "&":
                        continue            # the callee updates the total itself
                    if tot in T.vars_in(a):
                        hit = True
                if hit:
                    bad.append(c)
            out.append((f, tot, part, bad, n_calls))
    return out


def paired_cursor_updates(fns, record, fa, fb, exempt=()):
    """Two fields of one record that describe the same position in two spaces (logical / physical start of an
    extent) move together: every compound update (`+=`, `-=`, `++`, `--`) of X.fa has, in the same basic block,
    the same update of X.fb with the same operand, and vice versa.
    -> [(fn, node, field, ok)]"""
    out = []
    for f in fns:
        ups = [n for n in f.events("S") if T.last_field(n.ev["lhs"]) and T.last_field(n.ev["lhs"])[0] == record and
               T.last_field(n.ev["lhs"])[1] in (fa, fb) and n.ev.get("o") in ("+=", "-=", "++", "--")]
        for n in ups:
            fld = T.last_field(n.ev["lhs"])[1]
            other = fb if fld == fa else fa
            base = (T.path(n.ev["lhs"]) or "").rsplit("->", 1)[0]
            if (f.file, f.name, base) in exempt:
                continue
            rhs = T.pp(n.ev.get("rhs")) if isinstance(n.ev.get("rhs"), dict) else ""
            mate = [m for m in ups if m.bid == n.bid and T.last_field(m.ev["lhs"])[1] == other and
                    (T.path(m.ev["lhs"]) or "").rsplit("->", 1)[0] == base and m.ev.get("o") == n.ev.get("o") and
                    (T.pp(m.ev.get("rhs")) if isinstance(m.ev.get("rhs"), dict) else "") == rhs]
            out.append((f, n, fld, bool(mate)))
    return out


def stale_after_call(fn, call, reads_field):
    """locals computed (before `call`) from an expression reading `reads_field`, which are read again after `call`
    without having been assigned anew: if the callee can change that field, those locals are stale.
    -> [(local, use node)]"""
    before = fn.reach_back([call])
    after = fn.reach(fn.after(call))
    out = []
    for n in fn.events("S"):
        l = T.strip(n.ev["lhs"])
        if l.get("k") != "v" or l.get("s") != "l" or n not in before or not isinstance(n.ev.get("rhs"), dict):
            continue
        if reads_field not in T.field_names(n.ev["rhs"]):
            continue
        v = l["n"]
        redefs = [m for m in fn.events("S") if m in after and T.strip(m.ev["lhs"]).get("k") == "v" and
                  T.strip(m.ev["lhs"])["n"] == v]
        live = fn.reach(fn.after(call), avoid=redefs)
        for m in fn.nodes():
            if m not in live or m is n:
                continue
            trees = []
            if m.ev:
                if m.ev["e"] == "S":
                    trees = [m.ev.get("rhs")] + ([m.ev.get("lhs")] if T.strip(m.ev["lhs"]).get("k") != "v" else [])
                else:
                    trees = [m.ev.get("x")]
            else:
                t = fn.blocks[m.bid].get("t")
                trees = [t.get("c")] if t else []
            if any(isinstance(tr, dict) and v in T.vars_in(tr) for tr in trees):
                out.append((v, m))
    return out


def size_shape(fn, e, depth=2):
    """spelling-independent shape of a size expression: fields by (record, field), locals resolved to their
    single definition, helper-copy suffixes dropped, commutative operands sorted, a factor of 1 dropped"""
    e = T.strip(e)
    if not isinstance(e, dict):
        return ("?",)
    k = e.get("k")
    if k == "cast":
        return size_shape(fn, e.get("e"), depth)
    if k == "i":
        return ("c", e.get("c"))
    if k == "m":
        lf = T.last_field(e)
        return ("f",) + tuple(lf) if lf else ("?",)
    if k == "v":
        if depth > 0 and e.get("s") == "l":
            defs = [n for n in fn.events("S") if T.path(n.ev["lhs"]) == e["n"] and n.ev.get("o") == "="]
            if len(defs) == 1 and defs[0].ev.get("rhs") is not None:
                return size_shape(fn, defs[0].ev["rhs"], depth - 1)
        return ("v", e["n"].split("@")[0])
    if k == "b":
        l, r = size_shape(fn, e.get("l"), depth), size_shape(fn, e.get("r"), depth)
        if e.get("o") == "*":
            ops = sorted(x for x in (l, r) if x != ("c", 1))
            if len(ops) == 1:
                return ops[0]
            return ("*",) + tuple(ops)
        if e.get("o") == "+":
            return ("+",) + tuple(sorted((l, r)))
        return (e.get("o"), l, r)
    return ("?", T.pp(e)[:40])


def buffer_key(e, fn=None):
    """identity of a buffer expression: (record, field) of a member, or function and base name of a variable"""
    e = T.strip(e)
    while isinstance(e, dict) and e.get("k") in ("cast",) or (isinstance(e, dict) and e.get("k") == "u" and e.get("o") == "&"):
        e = T.strip(e.get("e"))
    lf = T.last_field(e)
    if lf:
        return tuple(lf)
    p = T.path(e)
    return ("var", fn.name if fn else "", p.split("@")[0]) if p else None


ALLOCATORS = {"ext2fs_get_mem": (None, 0, 1), "ext2fs_get_memzero": (None, 0, 1), "ext2fs_get_array": (0, 1, 2),
              "ext2fs_get_arrayzero": (0, 1, 2)}


def buffer_clear_agreement(fns, writers):
    """for every memset(buf, 0, len) on a buffer that is also written out by one of `writers`
    ({callee: (buffer argument, length argument)}) or allocated in these functions:
    -> [(fn, node, buffer key, clear shape, [accepted shapes])]"""
    allocs, writes, clears = {}, {}, []
    for f in fns:
        for n in f.call_nodes():
            for cn in T.call_names(n.ev["x"]):
                if cn in ALLOCATORS:
                    ia, ib, ip = ALLOCATORS[cn]
                    key = buffer_key(arg(n, ip), f)
                    if key is None:
                        continue
                    sb = size_shape(f, arg(n, ib))
                    if ia is not None:
                        sa = size_shape(f, arg(n, ia))
                        ops = sorted(x for x in (sa, sb) if x != ("c", 1))
                        sb = ops[0] if len(ops) == 1 else ("*",) + tuple(ops)
                    allocs.setdefault(key, set()).add(sb)
                elif cn in writers:
                    ib, il = writers[cn]
                    key = buffer_key(arg(n, ib), f)
                    if key is not None:
                        writes.setdefault(key, set()).add(size_shape(f, arg(n, il)))
                elif cn == "memset" and T.const(arg(n, 1)) == 0:
                    key = buffer_key(arg(n, 0), f)
                    if key is not None:
                        clears.append((f, n, key, size_shape(f, arg(n, 2))))
    out = []
    for f, n, key, sh in clears:
        acc = writes.get(key, set()) | allocs.get(key, set())
        if writes.get(key):
            out.append((f, n, key, sh, sorted(acc, key=repr)))
    return out


def wrap_points(fn, c):
    """end-of-block nodes whose condition is `c >= X` and whose true branch subtracts from c (a ring wrap)"""
    out = []
    for bid, b in fn.blocks.items():
        t = b.get("t")
        if not t or not isinstance(t.get("c"), dict):
            continue
        cond = T.strip(t["c"])
        if isinstance(cond, dict) and cond.get("k") == "b" and cond.get("o") in (">=", ">") and T.path(cond.get("l")) == c:
            s = b.get("s", [])
            if s and s[0] in fn.blocks and any(ev["e"] == "S" and ev.get("o") == "-=" and T.path(ev["lhs"]) == c
                                               for ev in fn.blocks[s[0]].get("ev", [])):
                out.append(fn.block_end(bid))
    return out


def ring_cursor_uses(fn, consumers, consumer_arg):
    """Ring-cursor discipline inside one function.  Cursors are the variables that have a ring wrap in fn and the
    variables handed to `consumers` (callee names) at argument `consumer_arg` that take their value from one.  For every advance (`c++`, `c += n`,
    `c = c + n`) of a cursor: each later use of c - as the consumer's argument, copied into another variable, passed by
    address, or left in *c at function exit - must lie behind a wrap of c.
    -> [(advance node, cursor, offending use node or None)]"""
    def mentions(e, c):
        return any(T.path(x) == c for x in T.walk(e) if isinstance(x, dict) and x.get("k") in ("v", "u", "m"))
    cursors = set()
    for bid, b in fn.blocks.items():
        t = b.get("t")
        if t and isinstance(t.get("c"), dict):
            cond = T.strip(t["c"])
            if isinstance(cond, dict) and cond.get("k") == "b" and T.path(cond.get("l")) and wrap_points(fn, T.path(cond["l"])):
                cursors.add(T.path(cond["l"]))
    # variables handed to the consumer that take their value from a ring cursor
    handed = {T.path(arg(n, consumer_arg)) for n in calls_to(fn, *consumers)} - {None}
    grew = True
    while grew:
        grew = False
        for n in fn.events("S"):
            l = T.path(n.ev["lhs"])
            if l in handed and l not in cursors and n.ev.get("rhs") is not None and any(mentions(n.ev["rhs"], c) for c in cursors):
                cursors.add(l)
                grew = True
    byref = {T.path(n.ev["lhs"]) for n in fn.events("S")
             if isinstance(T.strip(n.ev["lhs"]), dict) and T.strip(n.ev["lhs"]).get("k") == "u" and T.strip(n.ev["lhs"]).get("o") == "*"}
    out = []
    for c in sorted(cursors):
        wp = wrap_points(fn, c)
        adv = []
        copies = {T.path(n.ev["lhs"]) for n in fn.events("S") if n.ev.get("o") == "=" and T.path(n.ev.get("rhs")) == c
                  and T.path(n.ev["lhs"])}
        for n in fn.events("S"):
            if T.path(n.ev["lhs"]) != c:
                continue
            o = n.ev.get("o")
            rhs = n.ev.get("rhs")
            r0 = T.strip(rhs) if rhs is not None else None
            via_copy = o == "=" and isinstance(r0, dict) and r0.get("k") == "b" and r0.get("o") == "+" and \
                any(T.path(x) in copies for x in (r0.get("l"), r0.get("r")))     # `v = c; c = v + 1`
            if o in ("++", "+=") or (o == "=" and rhs is not None and mentions(rhs, c)) or via_copy:
                adv.append(n)
        uses = []
        for n in fn.events():
            if n.ev["e"] == "C":
                a = n.ev["x"].get("a", [])
                if is_call(n, *consumers) and consumer_arg < len(a) and mentions(a[consumer_arg], c):
                    uses.append(n)
                elif any(isinstance(T.strip(x), dict) and T.strip(x).get("k") == "u" and T.strip(x).get("o") == "&" and
                         T.path(T.strip(x).get("e")) == c for x in a):
                    uses.append(n)
            elif n.ev["e"] == "S" and T.path(n.ev["lhs"]) != c and n.ev.get("o") == "=" and n.ev.get("rhs") is not None \
                    and mentions(n.ev["rhs"], c) and T.path(n.ev["lhs"]) in cursors:
                uses.append(n)
        if c in byref:
            uses.append(fn.exit_node())
        for a_ in adv:
            bad = None
            for u in uses:
                # `v = c++` reads c before the advance recorded just ahead of it
                if u.ev and u.ev["e"] == "S" and u.bid == a_.bid and u.idx == a_.idx + 1 and u.line == a_.line:
                    continue
                if not fn.must_pass_after(a_, wp, to=[u]):
                    bad = u
                    break
            out.append((a_, c, bad))
    return out


# calls that may rewrite the on-disk inode whose number they are given: {callee: index of the inode-number argument}
INODE_REWRITERS = {"ext2fs_block_iterate": 1, "ext2fs_block_iterate2": 1, "ext2fs_block_iterate3": 1,
                   "ext2fs_link": 1, "ext2fs_unlink": 1, "ext2fs_expand_dir": 1, "ext2fs_mkdir": 1, "ext2fs_symlink": 1,
                   "ext2fs_inline_data_set": 1, "ext2fs_inline_data_expand": 1, "ext2fs_inline_data_init": 1}
INODE_READERS = {"ext2fs_read_inode": (1, 2), "ext2fs_read_inode_full": (1, 2), "ext2fs_read_inode2": (1, 2),
                 "ext2fs_get_next_inode": (1, 2), "ext2fs_get_next_inode_full": (1, 2),
                 "e2fsck_read_inode": (1, 2), "e2fsck_read_inode_full": (1, 2), "debugfs_read_inode": (0, 1),
                 "debugfs_read_inode2": (0, 1)}
INODE_WRITERS = {"ext2fs_write_inode": (1, 2), "ext2fs_write_inode_full": (1, 2), "ext2fs_write_inode2": (1, 2),
                 "ext2fs_write_new_inode": (1, 2), "e2fsck_write_inode": (1, 2), "e2fsck_write_inode_full": (1, 2),
                 "debugfs_write_inode": (0, 1), "debugfs_write_inode2": (0, 1), "debugfs_write_new_inode": (0, 1)}


def _bufname(e):
    e = T.strip(e)
    while isinstance(e, dict) and ((e.get("k") == "u" and e.get("o") == "&") or e.get("k") == "cast"):
        e = T.strip(e.get("e"))
    return T.path(e)


def stale_inode_writes(fn):
    """An in-memory inode that is written back after a call that rewrites the same on-disk inode itself (a block walk
    that relocates blocks, a link into the directory, an expansion) must have been read again in between, or the
    callee's update is undone.  -> [(rewriter call, write call, stale?)] for every pair on the same inode expression"""
    out = []
    rew = []
    for n in fn.call_nodes():
        for cn in T.call_names(n.ev["x"]):
            if cn in INODE_REWRITERS:
                if cn.startswith("ext2fs_block_iterate") and "BLOCK_FLAG_READ_ONLY" in T.macros(arg(n, 2) or {}):
                    continue
                ip = T.path(arg(n, INODE_REWRITERS[cn]))
                if ip:
                    rew.append((n, ip, {_bufname(a) for a in n.ev["x"].get("a", [])} - {None}))
    if not rew:
        return out
    reads, writes = [], []
    for n in fn.call_nodes():
        for cn in T.call_names(n.ev["x"]):
            if cn in INODE_READERS:
                ii, bi = INODE_READERS[cn]
                reads.append((n, _bufname(arg(n, bi))))
            if cn in INODE_WRITERS:
                ii, bi = INODE_WRITERS[cn]
                writes.append((n, T.path(arg(n, ii)), _bufname(arg(n, bi))))
    wipes = [(n, _bufname(arg(n, 0))) for n in calls_to(fn, "memset")]
    for (m, ip, given) in rew:
        for (w_, wip, wb) in writes:
            if wip != ip or not wb:
                continue
            if wb in given:
                continue        # the callee was handed this very copy and keeps it current
            # a fresh image: read from disk again, or wiped to build a new inode (the next file of a loop)
            fresh = [r for (r, rb) in reads + wipes if rb == wb]
            r = fn.reach(fn.after(m), avoid=fresh)
            out.append((m, w_, w_ in r))
    return out


def loop_counter_exits(fn, hb, edge_ok=None, any_step=False):
    """Progress measure of an otherwise unbounded loop (head block hb): local counters c such that every turn of the
    loop (a path from the head back to the head, along edges accepted by edge_ok) passes an increment of c, and
    passes a test of c against an expression the loop does not assign, one of whose outcomes leaves the loop.
    -> [(counter name, increment node, test block id)]"""
    body = loop_body(fn, hb)
    h0 = fn.node(hb, 0)
    back = [p for p in fn.pred(h0) if p in body and p is not h0]
    assigned = set()
    for n in body:
        if n.ev and n.ev["e"] == "S":
            p = T.path(n.ev["lhs"])
            if p:
                assigned.add(p)
    out = []
    incs = {}
    # a turn stays inside the loop: paths that leave it (and may come back through an enclosing loop) do not count
    exits = {m for n in body for (m, si) in fn.succ(n) if m not in body}
    for n in body:
        if n.ev and n.ev["e"] == "S" and n.ev.get("o") in ("++", "+=") and T.strip(n.ev["lhs"]).get("k") == "v":
            if n.ev["o"] == "+=" and not any_step and not ((T.const(n.ev.get("rhs")) or 0) > 0):
                continue
            incs.setdefault(T.strip(n.ev["lhs"])["n"], []).append(n)
    for c, nodes in sorted(incs.items()):
        # no other kind of store to the counter inside the loop
        if any(n.ev and n.ev["e"] == "S" and T.path(n.ev["lhs"]) == c and n not in nodes for n in body):
            continue
        # every turn passes an increment
        r = fn.reach([m for m in (fn.after(h0) if len(fn.blocks[hb].get("ev", [])) else [m for (m, _) in fn.succ(h0)]) if m in body],
                     avoid=set(nodes) | exits, edge_ok=edge_ok)
        r = {x for x in r if x in body}
        if any(b_ in r for b_ in back) or h0 in r:
            continue
        # a test of the counter (or of a copy taken of it inside the loop) with an exit
        names = {c}
        for n in body:
            if n.ev and n.ev["e"] == "S" and n.ev.get("o") == "=" and T.strip(n.ev["lhs"]).get("k") == "v" and \
                    T.path(n.ev.get("rhs")) == c and isinstance(T.strip(n.ev.get("rhs")), dict) and T.strip(n.ev["rhs"]).get("k") == "v":
                names.add(T.strip(n.ev["lhs"])["n"])
        for bid, b in fn.blocks.items():
            t = b.get("t")
            end = fn.block_end(bid)
            if end not in body or not t or not isinstance(t.get("c"), dict):
                continue
            cmp_ = [x for x in T.walk(t["c"]) if isinstance(x, dict) and x.get("k") == "b" and x.get("o") in ("<", "<=", ">", ">=")
                    and (names & T.vars_in(x))]
            if not cmp_:
                continue
            other = set()
            for x in cmp_:
                other |= {v for v in T.vars_in(x) if v not in names}
            if other & assigned:
                continue
            leaves = [m for (m, si) in fn.succ(end) if m not in body]
            if not leaves:
                continue
            if bid != hb:       # (the loop's own header test is passed by every turn by construction)
                r2 = fn.reach([m for (m, _) in fn.succ(h0) if m in body], avoid={end} | exits, edge_ok=edge_ok)
                r2 = {x for x in r2 if x in body}
                if any(b_ in r2 for b_ in back) or h0 in r2:
                    continue
            out.append((c, nodes[0], bid))
    return out


# release functions that leave their argument's storage pointer as it was (ext2fs_free_mem(&p) is not one: it zeroes p)
RELEASERS = {"free": 0, "ext2fs_free_block_bitmap": 0, "ext2fs_free_inode_bitmap": 0, "ext2fs_free_generic_bitmap": 0,
             "ext2fs_free_generic_bmap": 0, "io_channel_close": 0, "ext2fs_badblocks_list_free": 0, "ext2fs_u32_list_free": 0,
             "ext2fs_free_dblist": 0, "ext2fs_free_icount": 0, "ext2fs_free_inode_cache": 0, "ext2fs_extent_free": 0,
             "ext2fs_file_close": 0, "ext2fs_xattrs_close": 0, "ea_refcount_free": 0, "quota_release_context": 0}


def dangling_field_frees(fn):
    """releases of `X->fld` after which fn can return with the field still holding the released pointer:
    no store to X->fld, no call given &X->fld, and X itself not freed, on some path to the exit.
    -> [(call node, (record, field), base variable)]"""
    out = []
    for n in fn.call_nodes():
        for cn in T.call_names(n.ev["x"]):
            if cn not in RELEASERS:
                continue
            a = T.strip(arg(n, RELEASERS[cn]))
            if not (isinstance(a, dict) and a.get("k") == "m" and a.get("a")):
                continue
            lf, base, p = T.last_field(a), T.path(a.get("b")), T.path(a)
            if not lf or not base or not p:
                continue
            clears = [m for m in fn.events("S") if T.path(m.ev["lhs"]) == p]
            for m in fn.call_nodes():
                for x in m.ev["x"].get("a", []):
                    x0 = T.strip(x)
                    if isinstance(x0, dict) and x0.get("k") == "u" and x0.get("o") == "&" and T.path(x0.get("e")) in (p, base):
                        clears.append(m)        # &X->fld handed out (re-filled), or &X to ext2fs_free_mem (owner gone)
                if is_call(m, "free") and T.path(arg(m, 0)) == base:
                    clears.append(m)
            if not fn.must_pass_after(n, clears):
                out.append((n, tuple(lf), base))
    return out


def double_releases(prog, fns):
    """a field released and left dangling by fn (dangling_field_frees) that is released again - later in fn itself, or
    after the call in a direct caller of fn.  -> (number of dangling releases examined, [(fn, first, where, second)])"""
    hits, n_exam = [], 0
    callers = prog.callers()
    for fn in fns:
        for (n, lf, base) in dangling_field_frees(fn):
            n_exam += 1

            def again(g, start):
                r = g.reach(g.after(start))
                res = []
                for m in g.call_nodes():
                    if m in r and m is not start and any(cn in RELEASERS for cn in T.call_names(m.ev["x"])):
                        cn = [c for c in T.call_names(m.ev["x"]) if c in RELEASERS][0]
                        a = T.strip(arg(m, RELEASERS[cn]))
                        if isinstance(a, dict) and a.get("k") == "m" and T.last_field(a) and tuple(T.last_field(a)) == lf:
                            # not when the field was given a new value on the way
                            p = T.path(a)
                            refills = [s for s in g.events("S") if T.path(s.ev["lhs"]) == p] + \
                                [c for c in g.call_nodes() if any(isinstance(T.strip(x), dict) and T.strip(x).get("k") == "u" and
                                                                  T.strip(x).get("o") == "&" and T.path(T.strip(x).get("e")) == p
                                                                  for x in c.ev["x"].get("a", []))]
                            if m in g.reach(g.after(start), avoid=refills):
                                res.append(m)
                return res
            for m in again(fn, n):
                hits.append((fn, n, fn, m))
            for (cf, cn_) in callers.get(fn.key, []):
                for m in again(cf, cn_):
                    hits.append((fn, n, cf, m))
    return n_exam, hits


XFER_CALLS = ("read", "write", "pread", "pread64", "pwrite", "pwrite64")


def partial_transfer_retries(fns):
    """loops that go on after a partial read()/write(): `r = write(fd, p, n)` in a loop in which the buffer
    pointer p is advanced by r.  After the pointer moved the same n would run past the buffer: the count handed
    to the call has to be made of something the loop takes r off as well.  [(fn, store node, pointer, count, ok)]"""
    out = []
    for fn in fns:
        for xn in fn.events("S"):
            rhs = T.strip(xn.ev.get("rhs") or {})
            l = T.strip(xn.ev["lhs"])
            if not (isinstance(rhs, dict) and rhs.get("k") == "c" and rhs.get("fn") in XFER_CALLS and
                    isinstance(l, dict) and l.get("k") == "v" and len(rhs.get("a", [])) >= 3):
                continue
            hb = loop_head(fn, xn)
            if hb is None:
                continue
            body = natural_loops(fn)[hb]
            r = l["n"]
            pv = T.path(rhs["a"][1])
            if pv is None:
                continue
            stepped = {T.path(n.ev["lhs"]) for n in fn.events("S") if n in body and n.ev.get("o") in ("+=", "-=")
                       and r in T.vars_in(n.ev.get("rhs") or {})}
            if pv not in stepped:
                continue
            cnt = rhs["a"][2]
            ok = bool(T.vars_in(cnt) & (stepped - {pv})) or \
                depends_on(fn, cnt, lambda y: T.path(y) in (stepped - {pv}), depth=1)
            out.append((fn, xn, pv, cnt, ok))
    return out


# Flag constants and the fields they live in.  Each family of constants (a name prefix) belongs to one field of one
# record; the table is what the tree does at every one of its ~1000 uses (gathered once, read, frozen).  A constant of
# one family or-ed into, cleared from or tested in the home field of *another* family is a category error: the bit it
# happens to share a value with means something else there (EXT2_FLAG2_USE_FAKE_TIME is EXT2_FLAG_RW's value).
FLAG_FAMILIES = {
    "EXT2_FLAG_": {("struct_ext2_filsys", "flags")},
    "EXT2_FLAG2_": {("struct_ext2_filsys", "flags2")},
    "E2F_FLAG_": {("e2fsck_struct", "flags")},
    "E2F_OPT_": {("e2fsck_struct", "options")},
    "EXT2_MF_": {("e2fsck_struct", "mount_flags")},
    "CHANNEL_FLAGS_": {("struct_io_channel", "flags")},
    "IO_FLAG_": {("unix_private_data", "flags"), ("test_private_data", "flags"), ("undo_private_data", "flags")},
    "EXT2_FLAGS_": {("ext2_super_block", "s_flags")},
    "DX_FLAG_": {("dx_dirblock_info", "flags")},
    "BLOCK_FLAG_": {("block_context", "flags")},
    "DIRENT_FLAG_": {("dir_context", "flags")},
    "EXT2_BG_": {("ext2_group_desc", "bg_flags"), ("ext4_group_desc", "bg_flags")},
}


def _flag_family(m):
    best = None
    for p in FLAG_FAMILIES:
        if m.startswith(p) and (best is None or len(p) > len(best)):
            best = p
    return best


def flag_family_mismatches(fns):
    """-> (number of uses examined, [(fn, line, macro, (record, field))]) : uses of a family's constant in the home
    field of another family"""
    from . import width as _w
    homes = set()
    for v in FLAG_FAMILIES.values():
        homes |= v
    n_use = 0
    bad = []

    def look(f, line, lf, expr):
        nonlocal n_use
        if lf not in homes:
            return
        for m in T.macros(expr or {}):
            fam = _flag_family(m)
            if fam is None:
                continue
            n_use += 1
            if lf not in FLAG_FAMILIES[fam]:
                bad.append((f, line, m, lf))
    for f in fns:
        for n in f.events("S"):
            lf = T.last_field(n.ev["lhs"])
            if lf and n.ev.get("o") in ("|=", "&=", "=", "^="):
                look(f, n.line, lf, n.ev.get("rhs"))
        for line, e in _w._exprs_of(f):
            for x in T.walk(e):
                if isinstance(x, dict) and x.get("k") == "b" and x.get("o") == "&":
                    for side, other in ((x.get("l"), x.get("r")), (x.get("r"), x.get("l"))):
                        lf = T.last_field(side) if isinstance(side, dict) else None
                        if lf:
                            look(f, line, lf, other)
    return n_use, bad


import re as _re_bo
_BYTE_ORDER = _re_bo.compile(r"^(ext2fs_)?((le|be)(16|32|64)_to_cpu|cpu_to_(le|be)(16|32|64)|swab(16|32|64))$")


def linear_form(e, fn=None, depth=1):
    """{name: coefficient, 1: constant} of an expression built from variables, constants, + and - (None otherwise);
    single-assignment locals are looked through `depth` levels"""
    e = T.strip(e)
    if not isinstance(e, dict):
        return None
    c = T.const(e)
    if c is not None:
        return {1: c}
    k = e.get("k")
    if k == "v":
        if fn is not None and depth > 0:
            r = resolve_local(fn, e)
            if r is not e:
                lf = linear_form(r, fn, depth - 1)
                if lf is not None:
                    return lf
        return {e["n"]: 1}
    if k == "m":
        p = T.path(e)
        return {p: 1} if p else None
    if k == "c" and len(e.get("a", [])) == 1 and _BYTE_ORDER.match(e.get("fn") or ""):
        return linear_form(e["a"][0], fn, depth)         # a value in the other byte order is the same number
    if k == "b" and e.get("o") in ("+", "-"):
        l, r = linear_form(e.get("l"), fn, depth), linear_form(e.get("r"), fn, depth)
        if l is None or r is None:
            return None
        out = dict(l)
        for kk, v in r.items():
            out[kk] = out.get(kk, 0) + (v if e["o"] == "+" else -v)
        return {kk: v for kk, v in out.items() if v != 0 or kk == 1}
    return None


def loop_trip_count(fn, hb):
    """linear form of the number of turns of the counting loop with head hb: `for (i = a; i < B; i++)` -> B - a,
    `i <= B` -> B - a + 1 (None when the loop is not of that shape).  -> (induction variable, form)"""
    cond = (fn.blocks[hb].get("t") or {}).get("c")
    a0 = T.strip(cond) if isinstance(cond, dict) else None
    if not (isinstance(a0, dict) and a0.get("k") == "b" and a0.get("o") in ("<", "<=", ">", ">=")):
        return None
    l_, r_, o_ = a0["l"], a0["r"], a0["o"]
    if o_ in (">", ">="):
        l_, r_, o_ = r_, l_, {">": "<", ">=": "<="}[o_]
    iv = T.path(l_)
    if iv is None or T.strip(l_).get("k") != "v":
        return None
    body = natural_loops(fn).get(hb, set())
    steps = [n for n in fn.events("S") if n in body and T.path(n.ev["lhs"]) == iv]
    if not steps or not all(n.ev.get("o") in ("++",) or (n.ev.get("o") == "+=" and T.const(n.ev.get("rhs")) == 1) for n in steps):
        return None
    inits = [n for n in fn.events("S") if n not in body and T.path(n.ev["lhs"]) == iv and n.ev.get("o") == "=" and
             fn.block_end(hb) in fn.reach(fn.after(n), avoid=[m for m in fn.events("S") if m is not n and m not in body and T.path(m.ev["lhs"]) == iv])]
    starts = {T.const(n.ev.get("rhs")) for n in inits}
    if len(starts) != 1 or None in starts:
        return None
    b = linear_form(r_, fn)
    if b is None:
        return None
    out = dict(b)
    out[1] = out.get(1, 0) - starts.pop() + (1 if o_ == "<=" else 0)
    return iv, {k: v for k, v in out.items() if v != 0 or k == 1}
