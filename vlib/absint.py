"""Path-sensitive exploration of one function's event graph with a tiny abstract environment.

State = (node, env, flags).  env maps access-path strings (locals, params, simple field paths)
to one of  'Z' (zero)  'NZ' (non-zero)  'T' (non-zero, derived from the tracked source)
('C', c) (the constant c);  absent = unknown.  flags is a frozenset the client updates per node.
States are merged by identity (visited set), so loops terminate; no program value is computed
and no solver is involved: this is constant propagation along CFG paths, Engler-style.
"""
from collections import deque
from . import tree as T
from .engine import Broken

MAX_STATES = 400000


def _nz(v):
    return v in ("NZ", "T") or (isinstance(v, tuple) and v[1] != 0)


def _z(v):
    return v == "Z" or (isinstance(v, tuple) and v[1] == 0)


def _conc(v):
    """concrete integer of an abstract value, or None"""
    if v == "Z":
        return 0
    if isinstance(v, tuple) and isinstance(v[1], int):
        return v[1]
    return None


class Explorer:
    def __init__(self, fn, prog=None, source_call_id=None, tainted_calls=None, src_value="T", sticky=False):
        self.fn = fn
        self.prog = prog
        self.src = source_call_id          # call id whose result is 'T'
        self.tainted_calls = tainted_calls  # optional predicate(call node) -> bool: result is 'T'
        self.noreturn = prog.noreturn_nodes(fn) if prog else set()
        self.track = None               # optional set of root variable names; others are not tracked
        self.src_value = src_value      # abstract value of the tracked call's result ("T" failed / "Z" zero)
        self.sticky = sticky            # every execution of the tracked call site yields src_value
        self.states = 0
        self._start_call = None
        self._initial = False

    # ----- expression evaluation ------------------------------------------------------
    def eval(self, e, env):
        e = T.strip(e)
        if not isinstance(e, dict):
            return None
        k = e.get("k")
        if k == "c":
            if self.src is not None and e.get("id") == self.src:
                # the tracked failure is the *first* execution of the call site: once the site is
                # executed again (next loop iteration) its result is unknown
                return env.get("__src__") if isinstance(env, dict) else dict(env).get("__src__")
            if self.tainted_calls and self.tainted_calls(e):
                return "T"
            return None
        c = T.const(e)
        if c is not None and k != "v":
            return ("C", c)
        if k in ("v", "m"):
            p = T.path(e)
            if p is not None and p in env:
                return env[p]
            if k == "v" and "c" in e:
                return ("C", e["c"])
            return None
        if k == "u":
            o = e.get("o")
            if o == "*":
                inner = T.strip(e["e"])
                if isinstance(inner, dict) and inner.get("k") == "c" and inner.get("fn") == "__errno_location":
                    return "NZ"   # idiom: `return errno` after a failed call (assumed non-zero)
            v = self.eval(e["e"], env)
            if o == "-":
                if v in ("T", "NZ", "Z"):
                    return v
                if isinstance(v, tuple):
                    return ("C", -v[1])
                return None
            if o == "!":
                if _nz(v):
                    return ("C", 0)
                if _z(v):
                    return ("C", 1)
                return None
            return None
        if k == "b":
            o = e.get("o")
            if o == "=":
                return self.eval(e["r"], env)
            l, r = self.eval(e["l"], env), self.eval(e["r"], env)
            if o in ("==", "!="):
                res = None
                if isinstance(l, tuple) and isinstance(r, tuple):
                    res = (l[1] == r[1])
                elif (_nz(l) and _z(r)) or (_z(l) and _nz(r)):
                    res = False
                elif _z(l) and _z(r):
                    res = True
                if res is None:
                    return None
                if o == "!=":
                    res = not res
                return ("C", 1 if res else 0)
            lc, rc = _conc(l), _conc(r)
            if lc is not None and rc is not None and o in ("|", "&", "^", "+", "-"):
                return ("C", {"|": lc | rc, "&": lc & rc, "^": lc ^ rc, "+": lc + rc, "-": lc - rc}[o])
            if o == "|":
                if l == "T" or r == "T":
                    return "T"
                if _nz(l) or _nz(r):
                    return "NZ"
                if _z(l) and _z(r):
                    return "Z"
                return None
            if o == "&&":
                if _z(l) or _z(r):
                    return ("C", 0)
                if _nz(l) and _nz(r):
                    return ("C", 1)
                return None
            if o == "||":
                if _nz(l) or _nz(r):
                    return ("C", 1)
                if _z(l) and _z(r):
                    return ("C", 0)
                return None
            if o == "&":
                if _z(l) or _z(r):
                    return "Z"
                return None
            return None
        if k == "?":
            cv = self.eval(e["c0"], env)
            if _nz(cv):
                return self.eval(e["t"], env)
            if _z(cv):
                return self.eval(e["f"], env)
            a, b = self.eval(e["t"], env), self.eval(e["f"], env)
            if a == b:
                return a
            if _nz(a) and _nz(b):
                return "T" if "T" in (a, b) and a in ("T",) and b in ("T",) else "NZ"
            # `x ? x : y` — GNU/explicit form: value is x when x non-zero else y
            return None
        return None

    # ----- transfer ---------------------------------------------------------------------
    def _kill_addr_taken(self, call, env):
        """a call that receives &v (or v for arrays) may change v"""
        kill = []
        for a in call.get("a", []):
            a = T.strip(a)
            if isinstance(a, dict) and a.get("k") == "u" and a.get("o") == "&":
                p = T.path(a["e"])
                if p:
                    kill.append(p)
        if not kill:
            return env
        d = dict(env)
        ch = False
        for p in kill:
            for key in list(d):
                if key == p or key.startswith(p + "->"):
                    del d[key]
                    ch = True
        return frozenset(d.items()) if ch else env

    def step(self, node, envf):
        """-> new frozen env after executing node's event"""
        ev = node.ev
        if not ev:
            return envf
        if ev["e"] == "C":
            if self.src is not None and ev["x"].get("id") == self.src and not self._initial and not self.sticky:
                d = dict(envf)
                if "__src__" in d:
                    del d["__src__"]
                    envf = frozenset(d.items())
            return self._kill_addr_taken(ev["x"], envf)
        if ev["e"] != "S":
            return envf
        p = T.path(ev["lhs"])
        if p is None:
            return envf
        if self.track is not None and p.split("->")[0] not in self.track:
            return envf
        env = dict(envf)
        lhs = T.strip(ev["lhs"])
        if lhs.get("k") not in ("v", "m"):
            # store through pointer/array: forget the root
            for key in list(env):
                if key == p or key.startswith(p + "->"):
                    del env[key]
            return frozenset(env.items())
        o = ev["o"]
        new = None
        if o == "=":
            new = self.eval(ev.get("rhs"), env)
        elif o == "|=":
            old = env.get(p)
            r = self.eval(ev.get("rhs"), env)
            if _conc(old) is not None and _conc(r) is not None:
                new = ("C", _conc(old) | _conc(r))
            elif r == "T" or old == "T":
                new = "T" if (r == "T" or old == "T") else None
            elif _nz(r) or _nz(old):
                new = "NZ"
        elif o == "&=":
            old = env.get(p)
            r = self.eval(ev.get("rhs"), env)
            if _conc(old) is not None and _conc(r) is not None:
                new = ("C", _conc(old) & _conc(r))
            elif _z(old) or _z(r):
                new = "Z"
        elif o in ("++", "--", "+=", "-=", "^=", "*=", "/=", "<<=", ">>=", "%="):
            new = None
        # kill sub-paths
        for key in list(env):
            if key == p or key.startswith(p + "->"):
                del env[key]
        if new is not None:
            if isinstance(new, tuple) and new[1] == 0:
                new = "Z"
            env[p] = new
        return frozenset(env.items())

    def branch(self, bid, envf):
        """-> list of (succ_index, env) feasible out of block bid"""
        b = self.fn.blocks[bid]
        succs = b.get("s", [])
        lit = self.fn.literal(bid)
        if lit is None:
            return [(i, envf) for i in range(len(succs))]
        atom, pos = lit
        env = dict(envf)
        v = self.eval(atom, env)
        out = []

        def refine(truth):
            """env when atom has the given truth"""
            a = T.strip(atom)
            e2 = dict(env)
            tgt = a
            if isinstance(a, dict) and a.get("k") == "b" and a.get("o") == "=":
                tgt = T.strip(a["l"])
            if isinstance(tgt, dict) and tgt.get("k") in ("v", "m"):
                p = T.path(tgt)
                if p and self.track is not None and p.split("->")[0] not in self.track:
                    p = None
                if p:
                    cur = e2.get(p)
                    if truth and not _nz(cur):
                        e2[p] = "NZ"
                    if not truth:
                        e2[p] = "Z"
            elif isinstance(a, dict) and a.get("k") == "b" and a.get("o") == "==":
                for x, y in ((a["l"], a["r"]), (a["r"], a["l"])):
                    x = T.strip(x)
                    c = T.const(y)
                    if isinstance(x, dict) and x.get("k") in ("v", "m") and c is not None and x.get("c") is None:
                        p = T.path(x)
                        if p:
                            if truth:
                                e2[p] = "Z" if c == 0 else ("C", c)
                            elif c == 0 and not _nz(e2.get(p)):
                                e2[p] = "NZ"
                        break
            return frozenset(e2.items())

        for si in (0, 1):
            cond_true = (si == 0)
            atom_truth = pos if cond_true else (not pos)
            if v is not None:
                known = _nz(v)
                if _nz(v) or _z(v):
                    if known != atom_truth:
                        continue
            out.append((si, refine(atom_truth)))
        return out

    # ----- exploration -------------------------------------------------------------------
    def run(self, start_nodes, env0=None, flags0=frozenset(), on_node=None, stop_at=None,
            skip_start_event=False, edge_ok=None):
        """BFS over (node, env, flags).  on_node(node, env, flags) -> flags | None (None = prune).
        Returns list of terminal states (node, env, flags, parent-chain id) reached at function
        exit or at nodes for which stop_at(node) is true.  Paths ending in noreturn calls are
        dropped."""
        env0 = dict(env0 or {})
        if self.src is not None:
            env0["__src__"] = self.src_value
            for s0 in start_nodes:
                if s0.ev and s0.ev["e"] == "C" and s0.ev["x"].get("id") == self.src:
                    self._start_call = s0
        env0 = frozenset(env0.items())
        seen = {}
        dq = deque()
        terms = []
        for s in start_nodes:
            st = (s, env0, flags0)
            seen[st] = None
            dq.append((st, skip_start_event))
        exitn = self.fn.exit_node()
        while dq:
            (st, skip) = dq.popleft()
            node, env, flags = st
            self.states += 1
            if self.states > MAX_STATES:
                raise Broken("state cap exceeded exploring %s" % self.fn.name)
            if not skip:
                if on_node is not None:
                    nf = on_node(node, dict(env), flags)
                    if nf is None:
                        continue
                    flags = nf
                if node in self.noreturn:
                    continue
                if node is exitn or (stop_at is not None and stop_at(node)) or \
                        (node.ev and node.ev["e"] == "R"):
                    terms.append((node, dict(env), flags, st))
                    if node is exitn or (stop_at is not None and stop_at(node)):
                        continue
                self._initial = (seen.get(st, 0) is None and node is self._start_call)
                env = self.step(node, env)
                self._initial = False
            succ = self.fn.succ(node)
            if not succ:
                continue
            if succ[0][1] is None:
                nxt = [(succ[0][0], env)]
            else:
                feas = dict(self.branch(node.bid, env))
                nxt = []
                for (m, si) in succ:
                    if si in feas:
                        if edge_ok is not None and not edge_ok(node, si, m):
                            continue
                        nxt.append((m, feas[si]))
            for (m, e2) in nxt:
                st2 = (m, e2, flags)
                if st2 in seen:
                    continue
                seen[st2] = st
                dq.append((st2, False))
        self._seen = seen
        return terms

    def trace(self, st, limit=60):
        """line numbers of the path leading to state st"""
        out = []
        while st is not None:
            out.append(st[0])
            st = self._seen.get(st)
        out.reverse()
        lines = []
        last = None
        for n in out:
            if n.line and n.line != last:
                lines.append(n.line)
                last = n.line
        if len(lines) > limit:
            lines = lines[:limit // 2] + ["..."] + lines[-limit // 2:]
        return lines


def return_values_after_failure(fn, prog, call_node):
    """K7 core: assume the call at call_node returned non-zero; explore to every return and
    report those whose value is not known non-zero.
    -> list of (return node, abstract value, trace lines)"""
    ex = Explorer(fn, prog, source_call_id=call_node.ev["x"].get("id"))
    # the call's own statement may store the result: start *at* the call node
    terms = ex.run([call_node], env0={})
    bad = []
    for (node, env, flags, st) in terms:
        if not node.ev or node.ev["e"] != "R":
            continue
        x = node.ev.get("x")
        if x is None:
            continue
        v = ex.eval(x, env)
        if not _nz(v):
            bad.append((node, v, ex.trace(st)))
    return bad
