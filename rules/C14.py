"""C14 — metadata checksums: wiring, symmetry, fixed ranges / length dependence, seed, CRC tables,
and detection reaching e2fsck's exit status.  DESIGN.md §4 C14."""
from vlib import tree as T
from vlib import effects, absint, problems
from vlib.rulelib import *
from vlib.engine import Broken, line_path

EXPLANATION = (
    "Static rules over lib/ext2fs/csum.c, the library read/write paths, e2fsck and the journal code: (a) on every read path the "
    "verifier is called and, assuming it keeps failing and checksum errors are not being ignored, every return yields an error "
    "(path-sensitive); (b) on every write path the setter precedes the device write of the object; (c) verify and set of each "
    "class call the same compute function, compare/store the same on-disk field and are gated by the same feature test; "
    "(d) inside each compute function the CRC chain starts at the prescribed seed, is threaded through every call, the fixed "
    "lengths equal the record layout computed by clang, and a variable length has no constant clamp and covers the object "
    "parameter itself, not a partial copy; (e) fs->csum_seed is stored only by ext2fs_init_csum_seed from the documented "
    "inputs; (f) the crc32c (LE, 8x256), crc32 (BE, 8x256) and crc16 tables equal their algebraic definitions (evaluated by the "
    "checker over the initialiser constants); (g) every library checksum error code is compared somewhere in e2fsck and leads "
    "to a prompting problem without PR_NO_OK or a fatal exit.  Decides wiring and table clauses; not variable-range arithmetic "
    "or the CRC loop for all lengths.")

CS = "lib/ext2fs/csum.c"

# class, compute fn, verify fn, set fn, stored fields, feature gate names
CLASSES = [
    ("superblock", "ext2fs_superblock_csum", "ext2fs_superblock_csum_verify", "ext2fs_superblock_csum_set",
     [("ext2_super_block", "s_checksum")]),
    ("mmp", "ext2fs_mmp_csum", "ext2fs_mmp_csum_verify", "ext2fs_mmp_csum_set", [("mmp_struct", "mmp_checksum")]),
    ("xattr block", "ext2fs_ext_attr_block_csum", "ext2fs_ext_attr_block_csum_verify", "ext2fs_ext_attr_block_csum_set",
     [("ext2_ext_attr_header", "h_checksum")]),
    ("dirent leaf", "ext2fs_dirent_csum", "ext2fs_dirent_csum_verify", "ext2fs_dirent_csum_set",
     [("ext2_dir_entry_tail", "det_checksum")]),
    ("htree node", "ext2fs_dx_csum", "ext2fs_dx_csum_verify", "ext2fs_dx_csum_set", [("ext2_dx_tail", "dt_checksum")]),
    ("extent block", "ext2fs_extent_block_csum", "ext2fs_extent_block_csum_verify", "ext2fs_extent_block_csum_set",
     [("ext3_extent_tail", "et_checksum")]),
    ("inode", "ext2fs_inode_csum", "ext2fs_inode_csum_verify", "ext2fs_inode_csum_set",
     [("ext2_inode_large", "i_checksum_hi"), ("ext2_inode_large::<anon>::<anon>", "l_i_checksum_lo")]),
    ("group descriptor", "ext2fs_group_desc_csum", "ext2fs_group_desc_csum_verify", "ext2fs_group_desc_csum_set",
     [("ext2_group_desc", "bg_checksum"), ("ext4_group_desc", "bg_checksum")]),
]
BITMAPS = [("inode bitmap", "ext2fs_inode_bitmap_csum_verify", "ext2fs_inode_bitmap_csum_set",
            ("bg_inode_bitmap_csum_lo", "bg_inode_bitmap_csum_hi")),
           ("block bitmap", "ext2fs_block_bitmap_csum_verify", "ext2fs_block_bitmap_csum_set",
            ("bg_block_bitmap_csum_lo", "bg_block_bitmap_csum_hi"))]

CRC_FUNCS = ("ext2fs_crc32c_le", "ext2fs_crc16", "ext2fs_crc32_be")


def crc_calls(fn):
    return sorted(calls_to(fn, *CRC_FUNCS), key=lambda n: (n.line, n.bid, n.idx))


def run(world, rep, tier, only=None):
    prog = world.program("e2fsck")
    cfns = {f.name: f for f in prog.fns_in_file(CS)}

    # ------------------------------------------------------------------ C14.c symmetry
    for (cls, comp, ver, setf, fields) in CLASSES:
        for nm in (comp, ver, setf):
            if nm not in cfns:
                raise Broken("%s vanished from csum.c" % nm)
        fv, fs_ = cfns[ver], cfns[setf]
        cv, cs_ = calls_to(fv, comp), calls_to(fs_, comp)
        rep.ob("C14.c", site(fv, "verify uses %s" % comp), bool(cv), "%s calls %s" % (ver, comp))
        rep.ob("C14.c", site(fs_, "set uses %s" % comp), bool(cs_), "%s calls %s" % (setf, comp))
        # same object/inode/generation arguments (by parameter position names)
        if cv and cs_:
            av = [T.pp(a) for a in cv[0].ev["x"].get("a", [])][:4]
            as_ = [T.pp(a) for a in cs_[0].ev["x"].get("a", [])][:4]
            same = [x for x, y in zip(av, as_) if x == y]
            rep.ob("C14.c", "%s:%s~%s:same inputs to the compute function" % (CS, ver, setf),
                   len(same) >= min(len(av), len(as_)) - 1 and len(same) >= 2,
                   "verify passes %s, set passes %s" % (av, as_))
        # verify compares the stored field, set stores it
        cmp_fields = set()
        for b in fv.blocks:
            lit = fv.literal(b)
            if lit:
                cmp_fields |= T.fields(lit[0])
        for n in fv.events("R"):
            cmp_fields |= T.fields(n.ev.get("x") or {})
        for n in fv.events("S"):
            cmp_fields |= T.fields(n.ev.get("rhs") or {})
        for n in fv.call_nodes():
            if is_call(n, "ext2fs_bg_checksum"):
                cmp_fields.add(("ext2_group_desc", "bg_checksum"))
        st_fields = {T.last_field(n.ev["lhs"]) for n in fs_.events("S") if T.last_field(n.ev["lhs"])}
        for n in fs_.call_nodes():
            if is_call(n, "ext2fs_bg_checksum_set"):
                st_fields.add(("ext2_group_desc", "bg_checksum"))
        fl = {f[1] for f in fields}
        rep.ob("C14.c", site(fv, "verify reads the stored checksum field"), bool({f[1] for f in cmp_fields} & fl),
               "%s compares %s" % (ver, sorted(fl & {f[1] for f in cmp_fields})))
        rep.ob("C14.c", site(fs_, "set stores the checksum field"), bool({f[1] for f in st_fields} & fl),
               "%s stores %s" % (setf, sorted(fl & {f[1] for f in st_fields})))
        # gated by the same feature test
        gv, gs = _feature_gates(fv), _feature_gates(fs_)
        if not gv and not gs and cls in ("dirent leaf", "htree node"):
            # static helpers: the feature test sits in their only callers, the dir_block pair
            dv, ds = cfns["ext2fs_dir_block_csum_verify"], cfns["ext2fs_dir_block_csum_set"]
            gv, gs = _feature_gates(dv), _feature_gates(ds)
            callers_ok = all(cf.name in ("ext2fs_dir_block_csum_verify", "ext2fs_dir_block_csum_set", ver, setf, comp)
                             or cf.file != CS for nm_ in (ver, setf) for (cf, cn) in prog.callers().get(cfns[nm_].key, []))
            rep.ob("C14.c", "%s:%s~%s:same feature gate" % (CS, ver, setf), gv == gs and bool(gv) and callers_ok,
                   "gated in ext2fs_dir_block_csum_verify/set by %s / %s" % (sorted(gv), sorted(gs)))
        else:
            rep.ob("C14.c", "%s:%s~%s:same feature gate" % (CS, ver, setf), gv == gs and bool(gv),
                   "verify gated by %s, set gated by %s" % (sorted(gv), sorted(gs)))
    for (cls, ver, setf, flds) in BITMAPS:
        fv, fs_ = cfns[ver], cfns[setf]
        crv, crs = crc_calls(fv), crc_calls(fs_)
        rep.ob("C14.c", "%s:%s~%s:same crc call" % (CS, ver, setf),
               len(crv) == 1 and len(crs) == 1 and [T.pp(a) for a in crv[0].ev["x"]["a"]] == [T.pp(a) for a in crs[0].ev["x"]["a"]],
               "both compute crc32c(%s)" % (", ".join(T.pp(a) for a in crv[0].ev["x"]["a"]) if crv else "?"))
        rep.ob("C14.c", "%s:%s~%s:same feature gate" % (CS, ver, setf), _feature_gates(fv) == _feature_gates(fs_),
               "gates %s / %s" % (sorted(_feature_gates(fv)), sorted(_feature_gates(fs_))))
        stf = {T.last_field(n.ev["lhs"])[1] for n in fs_.events("S") if T.last_field(n.ev["lhs"])}
        rdf = set()
        for n in fv.nodes():
            for tr in ([n.ev.get("rhs"), n.ev.get("x")] if n.ev else [fv.blocks[n.bid].get("t", {}).get("c")]):
                if isinstance(tr, dict):
                    rdf |= T.field_names(tr)
        rep.ob("C14.c", site(fs_, "set stores both halves"), set(flds) <= stf, "stores %s" % sorted(stf & set(flds)))
        rep.ob("C14.c", site(fv, "verify reads both halves"), set(flds) <= rdf, "reads %s" % sorted(rdf & set(flds)))
    # journal: e2fsck and debugfs compute the journal superblock checksum identically
    pd = world.program("debugfs")
    je, jd = prog.fn("e2fsck_journal_sb_csum", "e2fsck/journal.c"), pd.fn("ext2fs_journal_sb_csum", "debugfs/journal.c")
    rep.ob("C14.c", "e2fsck/journal.c:e2fsck_journal_sb_csum~debugfs/journal.c:ext2fs_journal_sb_csum:same computation",
           _crc_skeleton(je) == _crc_skeleton(jd) and bool(_crc_skeleton(je)),
           "crc call skeletons: %s / %s" % (_crc_skeleton(je), _crc_skeleton(jd)))

    # ------------------------------------------------------------------ C14.d seeds, chains, lengths
    SEEDED = {"ext2fs_superblock_csum": "~0", "ext2fs_mmp_csum": "csum_seed", "ext2fs_ext_attr_block_csum": "csum_seed",
              "ext2fs_dirent_csum": "csum_seed", "ext2fs_dx_csum": "csum_seed", "ext2fs_extent_block_csum": "csum_seed",
              "ext2fs_inode_csum": "csum_seed", "ext2fs_group_desc_csum": "csum_seed",
              "ext2fs_inode_bitmap_csum_verify": "csum_seed", "ext2fs_inode_bitmap_csum_set": "csum_seed",
              "ext2fs_block_bitmap_csum_verify": "csum_seed", "ext2fs_block_bitmap_csum_set": "csum_seed"}
    for fname, seed in sorted(SEEDED.items()):
        fn = cfns[fname]
        calls = [c for c in crc_calls(fn) if is_call(c, "ext2fs_crc32c_le")]
        rep.floor("C14.d crc32c calls in %s" % fname, len(calls), 1)
        first = calls[0]
        a0 = arg(first, 0)
        if seed == "~0":
            ok = T.const(a0) in (-1, 0xFFFFFFFF, 4294967295)
        else:
            ok = T.last_field(a0) == ("struct_ext2_filsys", "csum_seed")
        rep.ob("C14.d", site(fn, "chain starts at the prescribed seed"), ok, "first crc32c call is seeded with %s" % T.pp(a0))
        # threading: every later crc32c call in the same chain takes the running value
        for i, c in enumerate(calls[1:], 1):
            a0 = T.strip(arg(c, 0))
            p = T.path(a0)
            ok = p is not None and T.const(a0) is None and T.last_field(a0) != ("struct_ext2_filsys", "csum_seed")
            rep.ob("C14.d", site(fn, "chain threaded through call #%d" % i), ok,
                   "crc32c call #%d continues from %s" % (i, T.pp(a0)))
        # the result of the last call is what is returned / stored
    # fixed lengths equal the record layout
    def off(rec, fld):
        r = world.records.get(rec)
        if not r:
            raise Broken("record %s not found" % rec)
        for f in r["fields"]:
            if f["n"] == fld:
                return f["off"]
        raise Broken("field %s.%s not found" % (rec, fld))
    fx = [("ext2fs_superblock_csum", "ext2_super_block", "s_checksum"), ("ext2fs_mmp_csum", "mmp_struct", "mmp_checksum")]
    for fname, rec, fld in fx:
        fn = cfns[fname]
        c = crc_calls(fn)[-1]
        ln = resolve_local(fn, arg(c, 2))
        v = T.const(ln)
        rep.ob("C14.d", site(fn, "covers exactly the bytes before the checksum field"), v == off(rec, fld),
               "length %s = %s; offsetof(%s, %s) = %d" % (T.pp(arg(c, 2)), v, rec, fld, off(rec, fld)))
        sz = world.records[rec]["size"]
        rep.ob("C14.d", "%s:%s:checksum is the last field" % (CS, rec), off(rec, fld) + 4 == sz,
               "%s.%s at %d of %d bytes" % (rec, fld, off(rec, fld), sz))
    # group descriptor crc16: [0, offsetof(bg_checksum)) then [offset+2, size)
    gd = cfns["ext2fs_group_desc_csum"]
    c16 = [c for c in crc_calls(gd) if is_call(c, "ext2fs_crc16")]
    rep.floor("C14.d crc16 calls in group_desc_csum", len(c16), 4)
    offdef = [n for n in gd.events("S") if T.path(n.ev["lhs"]) == "offset" and n.ev["o"] == "="]
    rep.ob("C14.d", site(gd, "crc16 skips exactly bg_checksum"),
           any(T.const(n.ev.get("rhs")) == off("ext2_group_desc", "bg_checksum") for n in offdef) and
           any(n.ev["o"] == "+=" and T.const(n.ev.get("rhs")) == 2 for n in gd.events("S") if T.path(n.ev["lhs"]) == "offset"),
           "offset = offsetof(ext2_group_desc, bg_checksum) = %d, then += sizeof(bg_checksum)" % off("ext2_group_desc", "bg_checksum"))
    rep.ob("C14.d", site(gd, "crc16 chain starts at ~0 over the uuid"),
           T.const(arg(c16[0], 0)) in (-1, 0xFFFF, 65535) and ("ext2_super_block", "s_uuid") in T.fields(arg(c16[0], 1)),
           "crc16(%s, %s, …)" % (T.pp(arg(c16[0], 0)), T.pp(arg(c16[0], 1))))
    # variable lengths: no constant clamp, object covered in place
    VAR = [("ext2fs_group_desc_csum", "s_desc_size"), ("ext2fs_inode_csum", None), ("ext2fs_ext_attr_block_csum", "blocksize"),
           ("ext2fs_dirent_csum", None), ("ext2fs_dx_csum", None), ("ext2fs_extent_block_csum", None),
           ("ext2fs_inode_bitmap_csum_set", None), ("ext2fs_block_bitmap_csum_set", None),
           ("ext2fs_inode_bitmap_csum_verify", None), ("ext2fs_block_bitmap_csum_verify", None)]
    for fname, expect_field in VAR:
        fn = cfns[fname]
        for i, c in enumerate([x for x in crc_calls(fn) if is_call(x, "ext2fs_crc32c_le")]):
            ln = T.strip(arg(c, 2))
            buf = T.strip(arg(c, 1))
            # prefix calls hash a small scalar (sizeof of a local/param): skip
            if isinstance(ln, dict) and ("sz" in ln or (T.const(ln) is not None and ln.get("k") == "i" and T.const(ln) <= 16)):
                rep.examined()      # fixed-size scalar / sub-field
                continue
            if isinstance(ln, dict) and ln.get("k") == "v" and ln.get("s") == "l":
                defs = [n for n in fn.events("S") if T.strip(n.ev["lhs"]).get("k") == "v" and T.strip(n.ev["lhs"])["n"] == ln["n"]]
                consts = [d for d in defs if d.ev["o"] == "=" and T.const(d.ev.get("rhs")) is not None and
                          not _depends_on_object(d.ev.get("rhs"))]
                rep.ob("C14.d", site(fn, "covering length has no constant clamp#%d" % i), not consts,
                       "every definition of `%s` depends on the object/geometry: constant definitions %s" %
                       (ln["n"], [d.text()[:40] for d in consts]))
                if expect_field:
                    src = set()
                    for d in defs:
                        src |= T.field_names(d.ev.get("rhs") or {})
                    rep.ob("C14.d", site(fn, "covering length derives from %s#%d" % (expect_field, i)), expect_field in src,
                           "definitions of `%s` read %s" % (ln["n"], sorted(src)))
            elif expect_field:
                rep.ob("C14.d", site(fn, "covering length derives from %s#%d" % (expect_field, i)),
                       expect_field in T.field_names(ln), "length is %s" % T.pp(ln))
            else:
                rep.ob("C14.d", site(fn, "covering length is not a constant#%d" % i), T.const(ln) is None or "sz" in ln,
                       "length is %s" % T.pp(ln))
            # buffer is the object itself: rooted at a parameter or at a local assigned from a call/parameter,
            # never the address of a local aggregate (a partial copy)
            root = _root(buf)
            bad_copy = False
            if isinstance(buf, dict) and buf.get("k") == "u" and buf.get("o") == "&" and root is not None and \
                    root.get("s") == "l" and "struct" in root.get("t", ""):
                bad_copy = True
            rep.ob("C14.d", site(fn, "checksums the object in place#%d" % i), not bad_copy,
                   "buffer argument is %s" % T.pp(buf))
    # the in-place zero/restore of the stored field (xattr, group desc, inode) is paired
    for fname, fld in (("ext2fs_ext_attr_block_csum", "h_checksum"), ("ext2fs_group_desc_csum", "bg_checksum")):
        fn = cfns[fname]
        z = [n for n in fn.events("S") if (T.last_field(n.ev["lhs"]) or ("", ""))[1] == fld and T.const(n.ev.get("rhs")) == 0]
        rs = [n for n in fn.events("S") if (T.last_field(n.ev["lhs"]) or ("", ""))[1] == fld and T.const(n.ev.get("rhs")) is None]
        cov = [c for c in crc_calls(fn) if is_call(c, "ext2fs_crc32c_le")]
        ok = bool(z) and bool(rs) and all(fn.dominated_by(c, z) for c in cov[-1:]) and \
            all(any(r in fn.reach(fn.after(c)) for r in rs) for c in cov[-1:])
        rep.ob("C14.d", site(fn, "stored checksum zeroed for the computation and restored"), ok,
               "%s = 0 before the covering crc call and restored afterwards" % fld)

    # ------------------------------------------------------------------ C14.e seed
    ok_storers = {"ext2fs_init_csum_seed"}
    for fn in prog.functions():
        for n in fn.events("S"):
            if T.last_field(n.ev["lhs"]) == ("struct_ext2_filsys", "csum_seed"):
                rep.ob("C14.e", site(fn, "stores fs->csum_seed"), fn.name in ok_storers, "only ext2fs_init_csum_seed computes the seed")
    ics = cfns["ext2fs_init_csum_seed"]
    st = [n for n in ics.events("S") if T.last_field(n.ev["lhs"]) == ("struct_ext2_filsys", "csum_seed")]
    from_seed = [n for n in st if ("ext2_super_block", "s_checksum_seed") in T.fields(n.ev.get("rhs") or {})]
    from_uuid = [n for n in st if any(c.get("fn") == "ext2fs_crc32c_le" and ("ext2_super_block", "s_uuid") in T.fields(c)
                                      for c in T.calls(n.ev.get("rhs") or {}))]
    rep.ob("C14.e", site(ics, "seed from s_checksum_seed under csum_seed"), bool(from_seed) and all(
        any(t and any(c.get("fn") == "ext2fs_has_feature_csum_seed" for c in T.calls(a)) for t, a in control_lits(ics, n))
        for n in from_seed), "fs->csum_seed = s_checksum_seed only when the csum_seed feature is set")
    rep.ob("C14.e", site(ics, "otherwise crc32c(~0, uuid)"), bool(from_uuid) and all(
        T.const(T.calls(n.ev["rhs"])[0]["a"][0]) in (-1, 4294967295) for n in from_uuid), "seed = crc32c(~0, s_uuid)")

    # ------------------------------------------------------------------ C14.a read paths verify
    READERS = [
        ("lib/ext2fs/openfs.c", "ext2fs_open2", "ext2fs_superblock_csum_verify", "EXT2_ET_SB_CSUM_INVALID"),
        ("lib/ext2fs/inode.c", "ext2fs_read_inode2", "ext2fs_inode_csum_verify", "EXT2_ET_INODE_CSUM_INVALID"),
        ("lib/ext2fs/inode.c", "ext2fs_get_next_inode_full", "ext2fs_inode_csum_verify", "EXT2_ET_INODE_CSUM_INVALID"),
        ("lib/ext2fs/dirblock.c", "ext2fs_read_dir_block4", "ext2fs_dir_block_csum_verify", "EXT2_ET_DIR_CSUM_INVALID"),
        ("lib/ext2fs/extent.c", "ext2fs_extent_get", "ext2fs_extent_block_csum_verify", "EXT2_ET_EXTENT_CSUM_INVALID"),
        ("lib/ext2fs/ext_attr.c", "ext2fs_read_ext_attr3", "ext2fs_ext_attr_block_csum_verify", "EXT2_ET_EXT_ATTR_CSUM_INVALID"),
        ("lib/ext2fs/rw_bitmaps.c", "read_bitmaps_range_start", "ext2fs_block_bitmap_csum_verify", "EXT2_ET_BLOCK_BITMAP_CSUM_INVALID"),
        ("lib/ext2fs/rw_bitmaps.c", "read_bitmaps_range_start", "ext2fs_inode_bitmap_csum_verify", "EXT2_ET_INODE_BITMAP_CSUM_INVALID"),
        ("lib/ext2fs/mmp.c", "ext2fs_mmp_read", "ext2fs_mmp_csum_verify", "EXT2_ET_MMP_CSUM_INVALID"),
    ]
    for (file, fname, ver, err) in READERS:
        fn = prog.fn(fname, file)
        vs = calls_to(fn, ver)
        rep.ob("C14.a", site(fn, "calls %s" % ver), bool(vs), "the read path verifies the checksum")

        def not_ignoring(nn, si, m, _fn=fn):
            lit = _fn.literal(nn.bid)
            if lit:
                for mac, fld in (("EXT2_FLAG_IGNORE_CSUM_ERRORS", "flags"), ("READ_INODE_NOCSUM", None),
                                 ("EXT2_FLAG_IMAGE_FILE", "flags")):
                    if lit_tests_bit(lit[0], mac, fld):
                        truth = lit[1] if si == 0 else (not lit[1])
                        return not truth
            return True
        for i, v in enumerate(vs):
            ex = absint.Explorer(fn, prog, source_call_id=v.ev["x"].get("id"), src_value="Z", sticky=True)
            terms = ex.run([v], edge_ok=not_ignoring)
            bad = []
            seen_err = False
            for (node, env, flags, st) in terms:
                if node.ev and node.ev["e"] == "R":
                    val = ex.eval(node.ev.get("x"), env)
                    if not absint._nz(val):
                        bad.append((node.line, str(val), ex.trace(st)))
            # the specific error code is produced somewhere after the verify
            after = fn.reach([v])
            for n in after:
                if n.ev and err in T.macros(n.ev.get("rhs") or n.ev.get("x") or {}):
                    seen_err = True
            rep.ob("C14.a", site(fn, "failed %s yields an error#%d" % (ver, i)), not bad and seen_err,
                   "with the verifier failing and checksum errors not ignored, every return is non-zero and %s is produced: "
                   "zero/unknown returns %s" % (err, [(b[0], b[1]) for b in bad[:3]]), [b[2] for b in bad[:1]] or None)
    # K3: nothing but the recorded conditions may keep a read path from calling its verifier
    import os
    if not os.path.exists(VG_REF):
        raise Broken("reference rules/ref/c14_verify_guards.tsv missing")
    ref = {}
    for line in open(VG_REF):
        if line.startswith("#") or not line.strip():
            continue
        f_, ver_, i_, lits_ = line.rstrip("\n").split("\t")
        ref[(f_, ver_, int(i_))] = [x for x in lits_.split(" ;; ") if x]
    now = verify_guards(world, prog, READERS)
    for key in sorted(ref):
        if key not in now:
            rep.ob("C14.a", "%s:%s#%d restricting conditions" % key, False, "verifier call no longer present")
            continue
        # conditions are compared by what they read (fields, macros, callees) and their polarity, not by their
        # spelling: an equivalent rewrite keeps the key, a condition that reads something else or less does not
        refkeys = {_cond_key(x) for x in ref[key]}
        extra = [x for x in now[key] if _cond_key(x) not in refkeys]
        rep.ob("C14.a", "%s:%s#%d restricted only by the recorded conditions" % key, not extra,
               "conditions under which the read path skips the verifier: %d recorded; new or changed: %s" %
               (len(ref[key]), [x[:90] for x in extra]))

    # classes e2fsck verifies itself
    sb = prog.fn("check_super_block", "e2fsck/super.c")
    rows, _l = problems.load(world)
    bycode = problems.by_code(rows)
    for (fn, ver, pr) in ((sb, "ext2fs_group_desc_csum_verify", "PR_0_GDT_CSUM"),):
        vs = calls_to(fn, ver)
        rep.ob("C14.a", site(fn, "calls %s" % ver), bool(vs), "e2fsck verifies group descriptor checksums")
        for v in vs:
            fps = [n for n in calls_to(fn, "fix_problem") if arg_has_macro(n, 1, pr)]
            ok = any(any((not t) and any(c.get("id") == v.ev["x"].get("id") for c in T.calls(a)) for t, a in control_lits(fn, f))
                     for f in fps)
            rep.ob("C14.a", site(fn, "failed %s reported as %s" % (ver, pr)), ok, "fix_problem(%s) under !%s" % (pr, ver))
    of = [f for f in prog.fns_in_file("e2fsck/super.c") if calls_to(f, "ext2fs_orphan_file_block_csum_verify")]
    rep.ob("C14.a", "e2fsck/super.c:*:orphan file blocks verified", bool(of), "e2fsck verifies orphan-file block checksums")
    for f in of:
        for v in calls_to(f, "ext2fs_orphan_file_block_csum_verify"):
            fps = [n for n in calls_to(f, "fix_problem") if arg_has_macro(n, 1, "PR_0_ORPHAN_FILE_BAD_CHECKSUM")]
            ok = any(any((not t) and any(c.get("id") == v.ev["x"].get("id") for c in T.calls(a)) for t, a in control_lits(f, x))
                     for x in fps)
            rep.ob("C14.a", site(f, "failed orphan block checksum reported"), ok, "fix_problem(PR_0_ORPHAN_FILE_BAD_CHECKSUM)")

    # ------------------------------------------------------------------ C14.b write paths set
    WRITERS = [
        ("lib/ext2fs/inode.c", "ext2fs_write_inode2", "ext2fs_inode_csum_set"),
        ("lib/ext2fs/dirblock.c", "ext2fs_write_dir_block4", "ext2fs_dir_block_csum_set"),
        ("lib/ext2fs/ext_attr.c", "ext2fs_write_ext_attr3", "ext2fs_ext_attr_block_csum_set"),
        ("lib/ext2fs/mmp.c", "ext2fs_mmp_write", "ext2fs_mmp_csum_set"),
        ("lib/ext2fs/extent.c", "update_path", "ext2fs_extent_block_csum_set"),
    ]
    for (file, fname, setter) in WRITERS:
        fn = prog.fn(fname, file)
        ss = calls_to(fn, setter)
        ws = [n for n in fn.call_nodes() if effects.is_write_req(fn, n)]
        rep.ob("C14.b", site(fn, "calls %s" % setter), bool(ss), "the write path sets the checksum")
        rep.floor("C14.b write requests in %s" % fname, len(ws), 1)
        def csum_wanted(nn, si, m, _fn=fn):
            lit = _fn.literal(nn.bid)
            if lit and lit_tests_bit(lit[0], "WRITE_INODE_NOCSUM"):
                truth = lit[1] if si == 0 else (not lit[1])
                return not truth
            return True
        for i, w in enumerate(ws):
            rep.ob("C14.b", site(fn, "%s before the device write#%d" % (setter, i)),
                   fn.dominated_by(w, ss, edge_ok=csum_wanted),
                   "`%s` is dominated by %s() (unless the caller passed WRITE_INODE_NOCSUM)" % (w.text()[:50], setter))
    wb = prog.fn("write_bitmaps", "lib/ext2fs/rw_bitmaps.c")
    for setter, kind in (("ext2fs_block_bitmap_csum_set", "block"), ("ext2fs_inode_bitmap_csum_set", "inode")):
        ss = calls_to(wb, setter)
        rep.ob("C14.b", site(wb, "calls %s" % setter), bool(ss), "bitmap checksum set on write")
        gds = calls_to(wb, "ext2fs_group_desc_csum_set")
        for s in ss:
            rep.ob("C14.b", site(wb, "%s bitmap csum then group descriptor csum" % kind),
                   any(g in wb.reach(wb.after(s)) for g in gds),
                   "ext2fs_group_desc_csum_set follows the bitmap checksum update (descriptor covers the bitmap csum fields)")
    fl2 = prog.fn("ext2fs_flush2")
    wps = calls_to(fl2, "write_primary_superblock")
    scs = calls_to(fl2, "ext2fs_superblock_csum_set")
    for w in wps:
        rep.ob("C14.b", site(fl2, "superblock checksum set before the primary write"), fl2.dominated_by(w, scs),
               "ext2fs_superblock_csum_set dominates write_primary_superblock")
    wbs = prog.fn("write_backup_super", "lib/ext2fs/closefs.c")
    wsb = [n for n in wbs.call_nodes() if effects.is_write_req(wbs, n)]
    for w in wsb:
        rep.ob("C14.b", site(wbs, "backup superblock checksum set before write"),
               wbs.dominated_by(w, calls_to(wbs, "ext2fs_superblock_csum_set")), "checksum set on each backup copy")

    # ------------------------------------------------------------------ C14.h checksummed bytes are not changed before they are written
    # A checksum is computed over the object exactly as it goes to disk.  Between the setter call and the write
    # request nothing may store into the object (nor into a buffer that aliases it): the journal writer escapes a
    # block that starts with the journal magic *before* the tag checksum is taken, the library writers byte-swap
    # before they checksum, etc.
    def _buf_aliases(fn, root):
        """names through which the bytes of `root` (a pointer variable or bh) can be written in fn"""
        al = {root}
        for _r in range(3):
            for n in fn.events("S"):
                if T.strip(n.ev["lhs"]).get("k") == "v" and isinstance(n.ev.get("rhs"), dict):
                    rp = T.path(n.ev["rhs"])
                    if rp and (rp in al or rp.split("->")[0] in al):
                        al.add(T.path(n.ev["lhs"]))
        return al

    def _modifies(fn, n, al):
        if not n.ev:
            return False
        if n.ev["e"] == "S":
            l = T.strip(n.ev["lhs"])
            p = T.path(n.ev["lhs"])
            if p is None:
                return False
            # a store *through* the pointer (deref, subscript, member of the pointee), not a re-assignment of it
            return l.get("k") in ("u", "x", "m") and (p in al or p.split("->")[0] in al) and \
                not (l.get("k") == "m" and l.get("f") in ("b_blocknr", "b_err", "b_dirty", "b_uptodate"))
        if n.ev["e"] == "C" and is_call(n, "memcpy", "memset", "memmove", "strncpy", "strcpy"):
            p = T.path(arg(n, 0))
            return p is not None and (p in al or p.split("->")[0] in al)
        return False

    def set_then_write(fn, setters, writes, bufarg, label):
        nonlocal_count = 0
        for i, s in enumerate(setters):
            b = T.path(arg(s, bufarg(s)))
            if not b:
                continue
            al = _buf_aliases(fn, b.split("->")[0])
            region = fn.reach(fn.after(s), avoid=writes + [x for x in setters if x is not s])
            tow = fn.reach_back(writes)
            mods = [n for n in region if n in tow and _modifies(fn, n, al)]
            rep.ob("C14.h", site(fn, "%s: object unchanged between checksum and write#%d" % (label, i)), not mods,
                   "stores into `%s` (aliases %s) between %s and the write request: %s" %
                   (b, sorted(al), T.call_names(s.ev["x"])[0], [(m.line, m.text()[:30]) for m in mods[:3]]))
            nonlocal_count += 1
        return nonlocal_count
    n_h = 0
    for (file, fname, setter) in WRITERS:
        fn = prog.fn(fname, file)
        ss = calls_to(fn, setter)
        ws = [n for n in fn.call_nodes() if effects.is_write_req(fn, n)]
        n_h += set_then_write(fn, ss, ws, lambda s: len(s.ev["x"].get("a", [])) - 1, setter)
    dbg = world.program("debugfs")
    for f in dbg.fns_in_file("debugfs/do_journal.c"):
        ss = calls_to(f, "jbd2_block_tag_csum_set", "jbd2_descr_block_csum_set", "jbd2_commit_block_csum_set", "jbd2_revoke_csum_set")
        if not ss:
            continue
        ws = calls_to(f, "ll_rw_block", "mark_buffer_dirty")

        def bufidx(s):
            return 2 if is_call(s, "jbd2_block_tag_csum_set") else 1
        n_h += set_then_write(f, ss, ws, bufidx, "journal writer")
    rep.floor("C14.h checksum-set / write pairs examined", n_h, 8)

    # ------------------------------------------------------------------ C14.i a failed journal checksum is excused only for a strictly older block
    # A descriptor/revoke/commit block whose checksum fails is taken for a left-over of an earlier use of the
    # journal - and recovery ends quietly with success - only when its commit time is strictly before the previous
    # transaction's.  Commit times have one-second resolution: back-to-back transactions share one, and with `<=`
    # every altered block of such a transaction would be dropped without a word.
    n_ct = 0
    for pn in ("e2fsck", "debugfs"):
        pr = world.program(pn)
        dop = pr.fn("do_one_pass")
        for bid in dop.blocks:
            lit = dop.literal(bid)
            if not lit:
                continue
            a = T.strip(lit[0])
            if not (isinstance(a, dict) and a.get("k") == "b" and a.get("o") in ("<", "<=", ">", ">=")):
                continue
            l, r = T.path(a.get("l")), T.path(a.get("r"))
            if {l, r} != {"commit_time", "last_trans_commit_time"}:
                continue
            n_ct += 1
            small, big = (l, r) if a["o"] in ("<", ">=") else (r, l)      # the test is `small < big` or its negation
            rep.ob("C14.i", site(dop, "stale-block excuse needs a strictly older commit time[%s]#%d" % (pn, n_ct)),
                   (small, big) == ("commit_time", "last_trans_commit_time"),
                   "`%s` decides between `commit_time < last_trans_commit_time` and its negation (equal times are the same journal)" %
                   T.pp(a)[:60])
    rep.floor("C14.i commit-time comparisons in do_one_pass", n_ct, 4)

    # ------------------------------------------------------------------ C14.j an inode cache slot never holds bytes of another inode than its label
    # ext2fs_read_inode2() reads into the buffer of a cache slot; if the read fails its checksum (or its I/O) the
    # buffer holds the rejected inode.  The slot must have lost its old label by then - otherwise the next read of
    # the old inode is served the altered bytes from the cache, with success and without a checksum error.
    n_j = 0
    for f in prog.fns_in_file("lib/ext2fs/inode.c"):
        labels = [n for n in f.events("S") if T.last_field(n.ev["lhs"]) == ("ext2_inode_cache_ent", "ino")]
        for i, n in enumerate(calls_to(f, "memcpy", "__builtin___memcpy_chk")):
            if not depends_on(f, arg(n, 0), lambda y: isinstance(y, dict) and y.get("k") == "m" and
                              T.last_field(y) == ("ext2_inode_cache_ent", "inode"), depth=3):
                continue
            n_j += 1
            same = any(t and ("ext2_inode_cache_ent", "ino") in T.fields(a) and isinstance(T.strip(a), dict) and
                       T.strip(a).get("o") == "==" for t, a in control_lits(f, n))
            invalidated = f.dominated_by(n, [s_ for s_ in labels if T.const(s_.ev.get("rhs")) == 0])
            relabelled = bool(labels) and f.must_pass_after(n, labels)
            rep.ob("C14.j", site(f, "cache slot buffer overwritten only under a matching or cleared label#%d" % i),
                   same or invalidated or relabelled,
                   "`%s` (line %d): same inode (`cache[i].ino == ino`): %s; slot invalidated first: %s; label stored on every path after: %s" %
                   (n.text()[:40], n.line, same, invalidated, relabelled))
    rep.floor("C14.j copies into inode cache slots", n_j, 2)

    # ------------------------------------------------------------------ C14.k a foreign superblock is verified with the checksum feature forced on
    # ext2fs_superblock_csum_verify()/_set() do nothing unless the *handle's* superblock has metadata_csum.  The
    # superblock of an external journal device is not the handle's: its checksum must be verified whenever the journal
    # device itself has the feature, i.e. through a private copy of the handle with the bit switched on.
    n_k = 0
    for (pn, jf_) in (("e2fsck", "e2fsck/journal.c"), ("debugfs", "debugfs/journal.c")):
        pr = world.program(pn)
        for f in pr.fns_in_file(jf_):
            forced = calls_to(f, "ext2fs_set_feature_metadata_csum")
            for c in calls_to(f, "ext2fs_superblock_csum_verify", "ext2fs_superblock_csum_set"):
                n_k += 1
                a0 = T.strip(arg(c, 0))
                clone = None
                if isinstance(a0, dict) and a0.get("k") == "u" and a0.get("o") == "&":
                    v = T.strip(a0.get("e"))
                    if isinstance(v, dict) and v.get("k") == "v" and v.get("s") == "l":
                        clone = v["n"]
                on = [s_ for s_ in forced if clone and clone in T.vars_in(arg(s_, 0) or {})]
                rep.ob("C14.k", site(f, "%s on the journal device's superblock uses a handle with metadata_csum forced on[%s]#%d" %
                                     (T.call_names(c.ev["x"])[0], pn, n_k)),
                       bool(clone) and bool(on) and f.dominated_by(c, on),
                       "first argument is a private copy (`&%s`) on which ext2fs_set_feature_metadata_csum() was applied before" % clone)
    rep.floor("C14.k superblock checksum calls in the journal front-ends", n_k, 3)

    # ------------------------------------------------------------------ C14.l the walk that repairs extent checksums stops at every block
    # ext2fs_fix_extents_checksums() rewrites the block the handle stands on whenever reading it reported a checksum
    # failure (update_path() writes the current level only).  It therefore has to step through the tree one node at
    # a time: an operation that descends or skips several levels in one call (NEXT_LEAF, NEXT_SIB, LAST_LEAF, …)
    # reports the failure once and leaves the blocks passed on the way as they were.
    libp = world.program("tune2fs")
    fx = libp.fn("ext2fs_fix_extents_checksums", "lib/ext2fs/extent.c")
    gets = calls_to(fx, "ext2fs_extent_get")
    ups = calls_to(fx, "update_path")
    # the step whose outcome is compared with EXT2_ET_EXTENT_CSUM_INVALID in front of update_path() (moving along the
    # entries of one node, LAST_SIB, stays inside a block and is not such a step)
    verdicts = []
    for u_ in ups:
        for t, a_ in control_lits(fx, u_):
            if t is not None and "EXT2_ET_EXTENT_CSUM_INVALID" in T.macros(a_):
                verdicts += [b_ for b_ in [fx.block_end(b) for b in fx.blocks if fx.literal(b) and fx.literal(b)[0] is a_]]
    inloop = []
    for c in gets:
        if loop_head(fx, c) is None:
            continue
        # it is the last step in front of the verdict: no other step lies between
        if any(v_ in fx.reach(fx.after(c), avoid=[g for g in gets if g is not c]) for v_ in verdicts):
            inloop.append(c)
    rep.floor("C14.l tree steps in ext2fs_fix_extents_checksums", len(inloop), 1)
    for i, c in enumerate(inloop):
        ms = T.macros(arg(c, 1) or {})
        one = named_const(libp, "EXT2_EXTENT_NEXT")
        v = T.const(arg(c, 1))
        rep.ob("C14.l", site(fx, "the repair walk moves one node at a time#%d" % i),
               ("EXT2_EXTENT_NEXT" in ms and not (ms - {"EXT2_EXTENT_NEXT"})) or (v is not None and one is not None and v == one),
               "ext2fs_extent_get(handle, %s, …) inside the loop is EXT2_EXTENT_NEXT" % T.pp(arg(c, 1))[:30])
    rep.ob("C14.l", site(fx, "a block that failed verification is rewritten"), bool(ups), "update_path() is called in the walk")

    # ------------------------------------------------------------------ C14.m every block of a renumbered directory is rewritten, empty ones too
    # A directory block's checksum folds in the directory's inode number.  When resize2fs gives a directory a new
    # number, its callback reports DIRENT_CHANGED for *every* entry so that each block is written again; an entry that
    # is unused must not leave the callback before that clause, or a block that holds only unused entries keeps the
    # checksum of the old number.
    rprog = world.program("resize2fs")
    cci = rprog.fn("check_and_change_inodes", "resize/resize2fs.c")
    chg = [n for n in cci.events("S") if "DIRENT_CHANGED" in T.macros(n.ev.get("rhs") or {}) and
           any(t is not None and any(cc.get("fn") == "ext2fs_has_feature_metadata_csum" for cc in T.calls(a_)) for t, a_ in control_lits(cci, n))]
    unused = [cci.block_end(b) for b in cci.blocks if cci.literal(b) and (T.last_field(cci.literal(b)[0]) or ("", ""))[1] == "inode" and
              T.strip(cci.literal(b)[0]).get("k") == "m"]
    rep.floor("C14.m checksum clause / unused-entry test in check_and_change_inodes", min(len(chg), len(unused)), 1)
    decide = [cci.block_end(b) for b in cci.blocks if cci.literal(b) and
              any(cc.get("fn") == "ext2fs_has_feature_metadata_csum" for cc in T.calls(cci.literal(b)[0]))]
    for i, u_ in enumerate(unused):
        rep.ob("C14.m", site(cci, "unused entries leave the callback only after the checksum clause#%d" % i), cci.dominated_by(u_, decide),
               "the test of dirent->inode (line %d) is dominated by the metadata_csum clause that sets DIRENT_CHANGED" % u_.line)

    # ------------------------------------------------------------------ C14.f CRC tables
    crc_tables(world, rep)

    # ------------------------------------------------------------------ C14.g detection reaches the exit status
    ERRS = ["EXT2_ET_SB_CSUM_INVALID", "EXT2_ET_INODE_CSUM_INVALID", "EXT2_ET_DIR_CSUM_INVALID", "EXT2_ET_EXTENT_CSUM_INVALID",
            "EXT2_ET_EXT_ATTR_CSUM_INVALID", "EXT2_ET_BLOCK_BITMAP_CSUM_INVALID", "EXT2_ET_INODE_BITMAP_CSUM_INVALID",
            "EXT2_ET_MMP_CSUM_INVALID", "EXT2_ET_UNKNOWN_CSUM"]
    uses = {e: [] for e in ERRS}
    for fn in prog.functions():
        if not fn.file.startswith("e2fsck/"):
            continue
        for bid in fn.blocks:
            lit = fn.literal(bid)
            if not lit:
                continue
            ms = T.macros(lit[0])
            for e in ERRS:
                if e in ms:
                    uses[e].append((fn, bid))
    csum_problem_rows(rep, rows)
    p5 = {f.name: f for f in prog.fns_in_file("e2fsck/pass5.c")}
    OPEN_CODES = {"EXT2_ET_UNKNOWN_CSUM": "returned by ext2fs_open2: e2fsck's open failure path"}
    BITMAP_CODES = {"EXT2_ET_BLOCK_BITMAP_CSUM_INVALID": ("ext2fs_block_bitmap_csum_verify", "PR_5_BLOCK_BITMAP_CSUM_INVALID"),
                    "EXT2_ET_INODE_BITMAP_CSUM_INVALID": ("ext2fs_inode_bitmap_csum_verify", "PR_5_INODE_BITMAP_CSUM_INVALID")}
    main = prog.fn("main", "e2fsck/unix.c")
    for e in ERRS:
        if e in BITMAP_CODES:
            ver, pr = BITMAP_CODES[e]
            # e2fsck loads bitmaps with checksum errors ignored and re-verifies them itself in pass 5
            okb = False
            for f in p5.values():
                for v in calls_to(f, ver):
                    for x in calls_to(f, "fix_problem"):
                        if arg_has_macro(x, 1, pr) and x in f.reach(f.after(v)):
                            r = bycode.get(T.const(arg(x, 1)))
                            if r and r.prompt != 0 and not r.no_ok:
                                okb = True
            rep.ob("C14.g", "e2fsck:*:%s leads to a non-zero verdict" % e, okb,
                   "pass 5 re-verifies with %s and reports %s (prompting, no PR_NO_OK)" % (ver, pr))
            continue
        if e in OPEN_CODES:
            # an open failure that is not one of the retried codes ends in fatal_error
            fb = main.label_block("failure")
            okf = fb is not None and any(is_call(n, "fatal_error") for n in main.reach([main.node(fb, 0)]))
            rep.ob("C14.g", "e2fsck:*:%s leads to a non-zero verdict" % e, okf,
                   "%s; label failure reaches fatal_error" % OPEN_CODES[e])
            continue
        rep.ob("C14.g", "e2fsck:*:%s is recognised" % e, bool(uses[e]),
               "e2fsck compares an error value with %s at %s" % (e, [(f.name) for f, b in uses[e][:4]]))
        good = False
        det = []
        for (fn, bid) in uses[e]:
            lit = fn.literal(bid)
            for si in (0, 1):
                succ = fn.blocks[bid]["s"][si]
                if succ is None or succ < 0:
                    continue
                truth = lit[1] if si == 0 else (not lit[1])
                if not truth:
                    continue
                region = fn.reach([fn.node(succ, 0)])
                for n in region:
                    if is_call(n, "fix_problem"):
                        codes, okc = problems.codes_at(fn, n, prog)
                        for (v, nm) in codes:
                            r = bycode.get(v)
                            if r and ((r.prompt != 0 and not r.no_ok) or r.fatal):
                                good = True
                                det.append(nm)
                            elif r and r.prompt != 0 and r.no_ok:
                                # declined: the function must hand the error back and every caller must stop
                                rets = [x for x in region if x.ev and x.ev["e"] == "R" and
                                        T.path(x.ev.get("x")) in T.vars_in(lit[0])]
                                callers = prog.callers().get(fn.key, [])
                                stops = bool(callers) and all(_caller_stops(prog, cf, cn) for (cf, cn) in callers)
                                if rets and stops:
                                    good = True
                                    det.append(nm + " (declined -> error returned -> caller fatal)")
                    if is_call(n, "fatal_error", "exit"):
                        good = True
                        det.append("fatal")
        rep.ob("C14.g", "e2fsck:*:%s leads to a non-zero verdict" % e, good,
               "reaches %s" % sorted(set(det))[:6])


def csum_problem_rows(rep, rows):
    """every problem that reports a checksum mismatch makes a declined answer count"""
    EXC = {"PR_0_MMP_CSUM_INVALID": "declined -> e2fsck_check_mmp returns the error -> main calls fatal_error (checked under the error code)"}
    n = 0
    for r in rows:
        if not r.code:
            continue
        if "CSUM_INVALID" in r.name or "MISSING_CSUM" in r.name or r.name == "PR_0_GDT_CSUM":
            n += 1
            ok = (r.prompt != 0 and not r.no_ok) or r.fatal or r.name in EXC
            rep.ob("C14.g", "e2fsck/problem.c:problem_table:%s counts when declined" % r.name, ok,
                   "prompt=%s PR_NO_OK=%s %s" % (r.prompt_name, r.no_ok, EXC.get(r.name, "")))
    rep.floor("C14.g checksum-mismatch problem rows", n, 10)


def _caller_stops(prog, cf, cn):
    """the caller tests the call's result and its non-zero arm reaches fatal_error/exit"""
    cid = cn.ev["x"].get("id")
    for bid in cf.blocks:
        lit = cf.literal(bid)
        if not lit:
            continue
        a = resolve_local(cf, lit[0])
        if any(c.get("id") == cid for c in T.calls(a)) or any(c.get("id") == cid for c in T.calls(lit[0])):
            si = 0 if lit[1] else 1
            succ = cf.blocks[bid]["s"][si]
            if succ is not None and succ >= 0:
                if any(is_call(n, "fatal_error", "exit") for n in cf.reach([cf.node(succ, 0)])):
                    return True
    return False


def _deep(fn, e, depth=0, names=None):
    """expression with single-assignment locals replaced by their definitions (3 levels); remaining locals and
    parameters are numbered by first occurrence, so the shape does not depend on identifier names"""
    if names is None:
        names = {}
    e = T.strip(e)
    if not isinstance(e, dict) or depth > 3:
        return T.pp(e) if not isinstance(e, dict) else "…"
    k = e.get("k")
    if k == "v":
        if e.get("s") == "l":
            r = resolve_local(fn, e)
            if r is not e and T.strip(r) is not e and e["n"] not in T.vars_in(r):
                return _deep(fn, r, depth + 1, names)
        if e.get("s") in ("l", "p"):
            key = (e.get("s"), e["n"])
            if key not in names:
                names[key] = "$%s%d" % (e["s"], len(names))
            return names[key]
        return e["n"]
    if k == "i":
        return T.pp(e)
    if k == "m":
        return _deep(fn, e["b"], depth, names) + ("->" if e.get("a") else ".") + e["f"]
    if k == "b":
        return "(%s %s %s)" % (_deep(fn, e["l"], depth, names), e["o"], _deep(fn, e["r"], depth, names))
    if k == "u":
        return "%s%s" % (e.get("o"), _deep(fn, e["e"], depth, names))
    if k == "x":
        return "%s[%s]" % (_deep(fn, e["b"], depth, names), _deep(fn, e["i"], depth, names))
    if k == "cast":
        return _deep(fn, e["e"], depth, names)
    if k == "c":
        nm = e.get("mac") or e.get("fn") or "call"
        return "%s(%s)" % (nm, ", ".join(_deep(fn, a, depth, names) for a in e.get("a", [])))
    if k == "?":
        return "(%s ? %s : %s)" % (_deep(fn, e["c0"], depth, names), _deep(fn, e["t"], depth, names), _deep(fn, e["f"], depth, names))
    return T.pp(e)


def verify_guards(world, prog, readers):
    """{(function, verifier): sorted list of (truth, shape)} — every branch literal that restricts the verifier call"""
    out = {}
    for (file, fname, ver, err) in readers:
        fn = prog.fn(fname, file)
        for i, v in enumerate(calls_to(fn, ver)):
            lits = sorted(set(("" if t else "!") + _deep(fn, a) for (t, a) in control_lits(fn, v)))
            out[("%s:%s" % (file, fname), ver, i)] = lits
    return out


def _top_op(text):
    """(operator, left, right) of the comparison at the top level of a parenthesised condition text"""
    t = text.strip()
    while t.startswith("(") and t.endswith(")"):
        d = 0
        for i, ch in enumerate(t):
            d += ch == "("
            d -= ch == ")"
            if d == 0 and i < len(t) - 1:
                break
        else:
            t = t[1:-1].strip()
            continue
        break
    d = 0
    i = 0
    while i < len(t):
        ch = t[i]
        if ch == "(":
            d += 1
        elif ch == ")":
            d -= 1
        elif d == 0:
            for op in ("==", "!=", "<=", ">=", "<<", ">>", "->", "<", ">"):
                if t.startswith(op, i):
                    if op in ("<<", ">>", "->"):
                        i += len(op) - 1
                        break
                    return op, t[:i].strip(), t[i + len(op):].strip()
        i += 1
    return None, None, None


def _cond_key(text):
    """what a condition reads, and its polarity; the spelling of an equivalent rewrite (negated comparison
    against the opposite operator, swapped operands, renumbered placeholders) leaves the key alone"""
    import re
    neg = text.startswith("!")
    body = text[1:] if neg else text
    op, lhs, rhs = _top_op(body)
    if op in ("==", "!=") and "0" in (lhs, rhs):
        # X == 0 is !X
        pol = "!" if (neg != (op == "==")) else ""
    elif op in ("==", "!="):
        pol = "!" if (neg != (op == "!=")) else ""
    elif op in ("<", ">", "<=", ">="):
        # operand order is not part of the key, so only strictness is left of the direction
        pol = "<" if (neg != (op in ("<", ">"))) else "<="
    else:
        pol = "!" if neg else ""
    toks = set(re.findall(r"\$?[A-Za-z_][A-Za-z0-9_]*", text))
    toks = {t for t in toks if not re.fullmatch(r"\$[pl][0-9]+", t)}
    return pol + " ".join(sorted(t.lstrip("$") for t in toks))


VG_REF = __import__("os").path.join(__import__("os").path.dirname(__import__("os").path.abspath(__file__)), "ref", "c14_verify_guards.tsv")


def _feature_gates(fn):
    out = set()
    for b in fn.blocks:
        lit = fn.literal(b)
        if not lit:
            continue
        for c in T.calls(lit[0]):
            if c.get("fn", "").startswith("ext2fs_has_feature_") or c.get("fn") == "ext2fs_has_group_desc_csum":
                out.add(c["fn"])
        ms = T.macros(lit[0])
        if "EXT4_FEATURE_RO_COMPAT_METADATA_CSUM" in ms or "flag" in T.vars_in(lit[0]):
            out.add("METADATA_CSUM(bit test)")
    return out


def _crc_skeleton(fn):
    out = []
    for c in calls_to(fn, "jbd2_chksum", "ext2fs_crc32c_le", "ext2fs_crc32_be"):
        out.append((T.call_names(c.ev["x"])[0], T.pp(arg(c, 1)) if False else "", str(T.const(arg(c, 3)) if arg(c, 3) else
                    (T.strip(arg(c, 3) or {}).get("sz") if arg(c, 3) else None))))
    z = [n for n in fn.events("S") if (T.last_field(n.ev["lhs"]) or ("", ""))[1] == "s_checksum"]
    out.append(("stores s_checksum", len(z)))
    return out


def _root(e):
    e = T.strip(e)
    while isinstance(e, dict):
        k = e.get("k")
        if k == "v":
            return e
        if k == "m":
            e = T.strip(e["b"])
        elif k == "u":
            e = T.strip(e["e"])
        elif k == "x":
            e = T.strip(e["b"])
        elif k == "b":
            e = T.strip(e["l"])
        else:
            return None
    return None


def _depends_on_object(e):
    return bool(T.field_names(e or {})) or bool(T.calls(e or {}))


# ---------------------------------------------------------------------------------------------- K11
def _table(world, name):
    for uid, gl in world.unit_globals.items():
        for g in gl:
            if g["name"] == name and g["init"].get("k") == "arr":
                return g
    raise Broken("table %s not found" % name)


def _vals(arr, swapped_name=None):
    out = []
    swapped = False
    for e in arr["e"]:
        if e.get("k") == "arr":
            v, sw = _vals(e, swapped_name)
            out.append(v)
            swapped = swapped or sw
        else:
            c = T.const(e)
            if c is None:
                raise Broken("non-constant table entry")
            if swapped_name and any(swapped_name in str(x.get("om", "")) + str(x.get("m", "")) for x in T.walk(e)):
                swapped = True
            out.append(c & 0xFFFFFFFF)
    return out, swapped


def _bswap32(x):
    return ((x & 0xFF) << 24) | ((x & 0xFF00) << 8) | ((x >> 8) & 0xFF00) | ((x >> 24) & 0xFF)


def crc_tables(world, rep):
    # crc32c little-endian (reflected), polynomial 0x82F63B78
    le, _ = _vals(_table(world, "crc32ctable_le")["init"])
    n_ok = 0
    bad = []
    for i in range(256):
        c = i
        for _k in range(8):
            c = (c >> 1) ^ (0x82F63B78 if c & 1 else 0)
        if le[0][i] == c:
            n_ok += 1
        else:
            bad.append(("le[0][%d]" % i, hex(le[0][i]), hex(c)))
    for k in range(1, len(le)):
        for i in range(256):
            want = (le[k - 1][i] >> 8) ^ le[0][le[k - 1][i] & 0xFF]
            if le[k][i] == want:
                n_ok += 1
            else:
                bad.append(("le[%d][%d]" % (k, i), hex(le[k][i]), hex(want)))
    rep.ob("C14.f", "lib/ext2fs/crc32c.c:crc32ctable_le:algebraic definition", not bad and len(le) == 8,
           "%d entries equal the reflected division by 0x82F63B78 and the slice recurrence; mismatches %s" % (n_ok, bad[:3]))
    rep.evaluations += n_ok
    # crc32 big-endian (MSB first), polynomial 0x04C11DB7; entries are stored through tobe()
    be, sw = _vals(_table(world, "crc32table_be")["init"], "swab")
    if sw:
        be = [[_bswap32(x) for x in row] for row in be]
    n_ok = 0
    bad = []
    for i in range(256):
        c = i << 24
        for _k in range(8):
            c = ((c << 1) ^ (0x04C11DB7 if c & 0x80000000 else 0)) & 0xFFFFFFFF
        if be[0][i] == c:
            n_ok += 1
        else:
            bad.append(("be[0][%d]" % i, hex(be[0][i]), hex(c)))
    for k in range(1, len(be)):
        for i in range(256):
            want = ((be[k - 1][i] << 8) & 0xFFFFFFFF) ^ be[0][be[k - 1][i] >> 24]
            if be[k][i] == want:
                n_ok += 1
            else:
                bad.append(("be[%d][%d]" % (k, i), hex(be[k][i]), hex(want)))
    rep.ob("C14.f", "lib/ext2fs/crc32c.c:crc32table_be:algebraic definition", not bad and len(be) == 8,
           "%d entries equal the MSB-first division by 0x04C11DB7 and the slice recurrence (byte order %s); mismatches %s" %
           (n_ok, "undone" if sw else "native", bad[:3]))
    rep.evaluations += n_ok
    # crc16, reflected polynomial 0xA001
    t16, _ = _vals(_table(world, "crc16_table")["init"])
    bad = []
    for i in range(256):
        c = i
        for _k in range(8):
            c = (c >> 1) ^ (0xA001 if c & 1 else 0)
        if (t16[i] & 0xFFFF) != c:
            bad.append((i, hex(t16[i]), hex(c)))
    rep.ob("C14.f", "lib/ext2fs/crc16.c:crc16_table:algebraic definition", not bad and len(t16) == 256,
           "256 entries equal the reflected division by 0xA001; mismatches %s" % bad[:3])
    rep.evaluations += 256


if __name__ == "__main__":
    import sys, os
    sys.path.insert(0, os.path.dirname(os.path.dirname(os.path.abspath(__file__))))
    from vlib import engine
    w = engine.World()
    prog = w.program("e2fsck")
    READERS_ = [
        ("lib/ext2fs/openfs.c", "ext2fs_open2", "ext2fs_superblock_csum_verify", ""),
        ("lib/ext2fs/inode.c", "ext2fs_read_inode2", "ext2fs_inode_csum_verify", ""),
        ("lib/ext2fs/inode.c", "ext2fs_get_next_inode_full", "ext2fs_inode_csum_verify", ""),
        ("lib/ext2fs/dirblock.c", "ext2fs_read_dir_block4", "ext2fs_dir_block_csum_verify", ""),
        ("lib/ext2fs/extent.c", "ext2fs_extent_get", "ext2fs_extent_block_csum_verify", ""),
        ("lib/ext2fs/ext_attr.c", "ext2fs_read_ext_attr3", "ext2fs_ext_attr_block_csum_verify", ""),
        ("lib/ext2fs/rw_bitmaps.c", "read_bitmaps_range_start", "ext2fs_block_bitmap_csum_verify", ""),
        ("lib/ext2fs/rw_bitmaps.c", "read_bitmaps_range_start", "ext2fs_inode_bitmap_csum_verify", ""),
        ("lib/ext2fs/mmp.c", "ext2fs_mmp_read", "ext2fs_mmp_csum_verify", ""),
    ]
    g = verify_guards(w, prog, READERS_)
    with open(VG_REF, "w") as f:
        f.write("# conditions (resolved, canonical) that restrict each read path's verifier call, recorded from the pinned tree\n")
        for k in sorted(g):
            f.write("%s\t%s\t%d\t%s\n" % (k[0], k[1], k[2], " ;; ".join(g[k])))
    print(len(g))
