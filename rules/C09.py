"""C09 — file data written through libext2fs reads back exactly: the typestate discipline of the
per-handle block buffer, allocation marking and offset width.  DESIGN.md §8.6 C09."""
from vlib import tree as T
from vlib import absint, width
from vlib.rulelib import *
from vlib.engine import Broken, line_path

EXPLANATION = (
    "Typestate/ORDER/WHO rules over lib/ext2fs/fileio.c and the allocation callers: the handle's one-block buffer changes "
    "block only after it was written out and marked invalid (a failed write-out leaves the position alone); load_buffer's "
    "dontfill argument governs nothing but the buffer's content (every piece of handle state that the flush consults is set "
    "independently of it), the buffer is marked valid only after the lookup, and dontfill is non-zero only for whole-block "
    "writes; every copy into the buffer is paired with the dirty mark and every copy out of it is preceded by position sync "
    "and a filling load, and every routine that returns file content limits it by i_size; flush writes the buffer to the mapped block, allocating or converting an unwritten extent first, "
    "and clears the dirty mark only after the device write succeeded; close flushes before freeing and returns the flush "
    "error; changing the size writes out and drops the buffer before the tail is zeroed and blocks are freed on disk; only "
    "the buffer routines store the cached block numbers; a block taken from the free-block search routines is marked in use "
    "on every path on which the caller succeeds; no zero-extended 32-bit complement mask is applied to a 64-bit offset, size "
    "or block number in the data path.  Decides the buffer/allocation discipline on every path; not the extent split/merge "
    "or punch arithmetic, nor inline-data lengths.")

FIO = "lib/ext2fs/fileio.c"
# the inline-data variants do not use the block buffer (they go through ext2fs_inline_data_get/set):
# they are functions of their own for these rules, not parts of ext2fs_file_read/write
SEPARATE_PATHS = ("ext2fs_file_read_inline_data", "ext2fs_file_write_inline_data")
DATA_PATH_FILES = ("lib/ext2fs/fileio.c", "lib/ext2fs/bmap.c", "lib/ext2fs/punch.c", "lib/ext2fs/fallocate.c",
                   "lib/ext2fs/extent.c", "lib/ext2fs/inline_data.c", "lib/ext2fs/alloc.c", "lib/ext2fs/alloc_stats.c",
                   "lib/ext2fs/ind_block.c", "lib/ext2fs/i_block.c", "lib/ext2fs/mkjournal.c", "lib/ext2fs/unix_io.c",
                   "lib/ext2fs/io_manager.c")


def _is_file_field(e, field):
    lf = T.last_field(e)
    return lf is not None and lf[0] == "ext2_file" and lf[1] == field


def _buf_rooted(e):
    """expression is file->buf (+ offset)"""
    for x in T.walk(e):
        if isinstance(x, dict) and x.get("k") == "m" and x.get("r") == "ext2_file" and x.get("f") == "buf":
            return True
    return False


def _flag_store(n, macro, sets):
    if not (n.ev and n.ev["e"] == "S" and _is_file_field(n.ev["lhs"], "flags")):
        return False
    return store_sets_bits(n, macro) if sets else store_clears_bits(n, macro)


def _zero_returns(fn, prog, start_nodes, on_node, env0=None):
    ex = absint.Explorer(fn, prog)
    terms = ex.run(start_nodes, env0=env0, on_node=on_node)
    out = []
    for (node, env, fl, st) in terms:
        if node.ev and node.ev["e"] == "R" and absint._z(ex.eval(node.ev.get("x"), env)):
            out.append((node, fl, ex.trace(st)))
    return out


def run(world, rep, tier, only=None):
    prog = world.program("debugfs")
    fio = {f.name: f for f in prog.fns_in_file(FIO)}
    for need in ("ext2fs_file_flush", "sync_buffer_position", "load_buffer", "ext2fs_file_close", "ext2fs_file_read",
                 "ext2fs_file_write", "ext2fs_file_set_size2"):
        if need not in fio:
            raise Broken("%s:%s not found" % (FIO, need))

    # ------------------------------------------------------------------ C09.a the buffer changes block only after flush + invalidate
    sp = fio["sync_buffer_position"]
    bstores = [n for f in fio.values() for n in f.events("S") if _is_file_field(n.ev["lhs"], "blockno")]
    rep.floor("C09.a stores to file->blockno", len(bstores), 1)
    others = sorted({n.fn.name for n in bstores if n.fn.name != "sync_buffer_position"})
    rep.ob("C09.a", "%s:*:only sync_buffer_position moves the buffer" % FIO, not others,
           "stores to ext2_file.blockno outside sync_buffer_position: %s" % others)
    same_edges = {}
    for bid in sp.blocks:
        lit = sp.literal(bid)
        if not lit:
            continue
        atom, pos = lit
        a = T.strip(atom)
        if isinstance(a, dict) and a.get("k") == "b" and a.get("o") == "==" and \
                (_is_file_field(a["l"], "blockno") or _is_file_field(a["r"], "blockno")):
            # atom true <=> same block; cond == atom iff pos; succ 0 = cond true
            same_edges[sp.block_end(bid)] = 0 if pos else 1
    rep.floor("C09.a comparison with the buffered block number", len(same_edges), 1)

    def moved(n, si, m, _s=same_edges):
        return not (n in _s and si == _s[n])
    flushes = calls_to(sp, "ext2fs_file_flush")
    inval = [n for n in sp.nodes() if _flag_store(n, "EXT2_FILE_BUF_VALID", False)]
    for i, s in enumerate([n for n in bstores if n.fn is sp]):
        rep.ob("C09.a", site(sp, "buffer written out before it moves#%d" % i), bool(flushes) and
               sp.dominated_by(s, flushes, edge_ok=moved),
               "on every path on which the position is in a different block, ext2fs_file_flush precedes the store to blockno")
        rep.ob("C09.a", site(sp, "buffer invalidated before it moves#%d" % i), bool(inval) and
               sp.dominated_by(s, inval, edge_ok=moved),
               "…and EXT2_FILE_BUF_VALID is cleared")
    for i, c in enumerate(flushes):
        bad = failure_returns(sp, prog, c)
        rep.ob("C09.a", site(sp, "failed write-out stops the move#%d" % i), not bad,
               "a failed flush returns non-zero from sync_buffer_position: %s" % [(b[0].line, b[1]) for b in bad[:2]])
        after = sp.reach(sp.after(c))
        rep.ob("C09.a", site(sp, "invalidation follows the write-out#%d" % i), any(n in after for n in inval),
               "VALID is cleared after the flush, not before (a buffer marked invalid is never written)")

    # ------------------------------------------------------------------ C09.b dontfill governs only the buffer content
    lb = fio["load_buffer"]
    dparams = [p["n"] for p in lb.raw["params"] if p["n"] != "file"]
    if len(dparams) != 1:
        raise Broken("load_buffer signature changed: %s" % [p["n"] for p in lb.raw["params"]])
    dp = dparams[0]
    state_events = [n for n in lb.events("S") if T.last_field(n.ev["lhs"]) and T.last_field(n.ev["lhs"])[0] == "ext2_file"]
    # out-parameters: &file->field handed to a callee
    for c in lb.call_nodes():
        for a in c.ev["x"].get("a", []):
            a0 = T.strip(a)
            if isinstance(a0, dict) and a0.get("k") == "u" and a0.get("o") == "&" and T.last_field(a0["e"]) and \
                    T.last_field(a0["e"])[0] == "ext2_file":
                state_events.append(c)
    rep.floor("C09.b handle-state updates in load_buffer", len(state_events), 2)
    for i, n in enumerate(sorted(set(state_events), key=lambda n: (n.line, n.idx))):
        dep = [(t, a) for (t, a) in control_lits(lb, n) if dp in T.vars_in(a)]
        what = T.pp(n.ev["lhs"])[:30] if n.ev["e"] == "S" else (T.call_names(n.ev["x"]) or ["?"])[0]
        rep.ob("C09.b", site(lb, "handle state `%s`#%d independent of %s" % (what, i, dp)), not dep,
               "the update is not control-dependent on the `%s` argument (whole-block writes take the %s path and are "
               "flushed with the same handle state): %s" % (dp, dp, [("" if t else "!") + T.pp(a)[:30] for t, a in dep]))
    lookups = [c for c in calls_to(lb, "ext2fs_bmap2") if any(_is_file_field(T.strip(a).get("e", {}), "physblock")
                                                              for a in c.ev["x"].get("a", []) if isinstance(T.strip(a), dict)
                                                              and T.strip(a).get("k") == "u")]
    valid_sets = [n for n in lb.nodes() if _flag_store(n, "EXT2_FILE_BUF_VALID", True)]
    rep.floor("C09.b lookup and VALID mark in load_buffer", min(len(lookups), len(valid_sets)), 1)
    for i, v in enumerate(valid_sets):
        rep.ob("C09.b", site(lb, "valid only after the block was looked up#%d" % i), lb.dominated_by(v, lookups),
               "ext2fs_bmap2(… &file->physblock) dominates the VALID mark")
    fills = [n for n in lb.call_nodes() if (is_call(n, "io_channel_read_blk64", "io_channel_read_blk") and _buf_rooted(arg(n, 3) or {}))
             or (is_call(n, "memset") and _buf_rooted(arg(n, 0) or {}))]
    rep.floor("C09.b buffer fills in load_buffer", len(fills), 2)
    # with dontfill == 0, every path that marks the buffer valid has filled it
    def seen_fill(node, env, flags, _f=fills, _v=valid_sets):
        if node in _f:
            return flags | {"filled"}
        if node in _v and "filled" not in flags:
            return flags | {"valid-unfilled"}
        return flags
    ex = absint.Explorer(lb, prog)
    terms = ex.run([lb.entry_node()], env0={dp: "Z"}, on_node=seen_fill)
    bad = sorted({node.line for (node, env, fl, st) in terms if "valid-unfilled" in fl})
    rep.ob("C09.b", site(lb, "a filling load fills before marking valid"), not bad,
           "with %s == 0 no path marks the buffer valid without a device read or zero fill: %s" % (dp, bad))
    for i, c in enumerate(n for n in fills if is_call(n, "io_channel_read_blk64", "io_channel_read_blk")):
        badr = failure_returns(lb, prog, c)
        rep.ob("C09.b", site(lb, "failed read is returned and the buffer stays invalid#%d" % i),
               not badr and not any(v in lb.reach(lb.after(c), edge_ok=None) and False for v in valid_sets),
               "a failed device read returns non-zero from load_buffer: %s" % [(b[0].line, b[1]) for b in badr[:2]])

    # ------------------------------------------------------------------ C09.c/d copies into / out of the buffer
    rd, wr = fio["ext2fs_file_read"], fio["ext2fs_file_write"]
    for fn in (rd, wr):
        syncs = calls_to(fn, "sync_buffer_position")
        loads = calls_to(fn, "load_buffer")
        rep.floor("C09.c sync/load calls in %s" % fn.name, min(len(syncs), len(loads)), 1)
        for i, l in enumerate(loads):
            rep.ob("C09.c", site(fn, "position synchronised before the buffer is loaded#%d" % i), fn.dominated_by(l, syncs),
                   "sync_buffer_position dominates load_buffer")
        for i, c in enumerate(syncs + loads):
            badr = failure_returns(fn, prog, c)
            rep.ob("C09.c", site(fn, "failure of %s is returned#%d" % (T.call_names(c.ev["x"])[0], i)), not badr,
                   "non-zero result reaches the return value: %s" % [(b[0].line, b[1]) for b in badr[:2]])
    outs = [n for n in calls_to(rd, "memcpy") if _buf_rooted(arg(n, 1) or {})]
    rep.floor("C09.d copies out of the buffer in ext2fs_file_read", len(outs), 1)
    rloads = calls_to(rd, "load_buffer")
    for i, n in enumerate(outs):
        rep.ob("C09.d", site(rd, "copy-out preceded by a filling load#%d" % i),
               rd.dominated_by(n, [l for l in rloads if T.const(arg(l, 1)) == 0]),
               "load_buffer(file, 0) dominates memcpy(…, file->buf + start, …)")
    copy_in_rules(prog, rep, "C09.d")

    # ------------------------------------------------------------------ C09.i every read path stops at i_size
    # sibling agreement: whichever routine copies file content to the caller limits the count by the
    # inode's size (the inline variant gets the *capacity* of the inline area from its helper)
    n_out = 0
    for f in fio.values():
        outs_ = [n for n in calls_to(f, "memcpy") if _buf_rooted(arg(n, 1) or {}) and not _buf_rooted(arg(n, 0) or {})]
        if not outs_:
            continue
        n_out += 1
        reads_size = False
        for line, e in width._exprs_of(f):
            if {"i_size", "i_size_high"} & T.field_names(e):
                reads_size = True
        rep.ob("C09.i", site(f, "returned bytes are limited by the file size"), reads_size,
               "%s copies out of the handle's buffer and compares against EXT2_I_SIZE(&file->inode)" % f.name)
    rep.floor("C09.i routines copying file content to the caller", n_out, 2)

    # ------------------------------------------------------------------ C09.e flush protocol
    fl = fio["ext2fs_file_flush"]
    dw = [n for n in calls_to(fl, "io_channel_write_blk64", "io_channel_write_blk") if _buf_rooted(arg(n, 3) or {})]
    rep.floor("C09.e device write in ext2fs_file_flush", len(dw), 1)
    clr = [n for n in fl.nodes() if _flag_store(n, "EXT2_FILE_BUF_DIRTY", False)]
    for i, w_ in enumerate(dw):
        rep.ob("C09.e", site(fl, "buffer written to the mapped block#%d" % i), _is_file_field(arg(w_, 1), "physblock"),
               "io_channel_write_blk64(fs->io, file->physblock, 1, file->buf)")
        badr = failure_returns(fl, prog, w_)
        rep.ob("C09.e", site(fl, "failed device write is returned#%d" % i), not badr,
               "non-zero result reaches the return value: %s" % [(b[0].line, b[1]) for b in badr[:2]])
        # a failed write leaves the buffer dirty
        ex = absint.Explorer(fl, prog, source_call_id=w_.ev["x"].get("id"))
        terms = ex.run([w_], on_node=lambda node, env, flags, _c=clr: flags | {"cleared"} if node in _c else flags)
        lost = [node.line for (node, env, f2, st) in terms if "cleared" in f2]
        rep.ob("C09.e", site(fl, "failed device write leaves the buffer dirty#%d" % i), not lost,
               "no path after a failed write clears EXT2_FILE_BUF_DIRTY: %s" % lost[:2])
    for i, c in enumerate(clr):
        rep.ob("C09.e", site(fl, "dirty mark cleared only after the write#%d" % i), fl.dominated_by(c, dw),
               "the device write dominates the clear")
    maps = calls_to(fl, "ext2fs_bmap2")
    allocs = [c for c in maps if "BMAP_ALLOC" in T.macros(arg(c, 4) or {})]
    sets = [c for c in maps if "BMAP_SET" in T.macros(arg(c, 4) or {})]
    rep.ob("C09.e", site(fl, "unmapped block allocated before the write"), bool(allocs) and all(
        any(a in fl.reach_back([w_]) for a in allocs) for w_ in dw), "ext2fs_bmap2(… BMAP_ALLOC …) can precede the device write")
    # with physblock == 0 every path to the write passes an allocating lookup
    zero_edges = {}
    for bid in fl.blocks:
        lit = fl.literal(bid)
        if lit and _is_file_field(lit[0], "physblock") and T.strip(lit[0]).get("k") == "m":
            zero_edges[fl.block_end(bid)] = lit[1]
    def unmapped(n, si, m, _z=zero_edges):
        if n in _z:
            # atom = physblock (non-zero); we want the edges on which it is zero
            return (si == 0) != _z[n]
        return True
    rep.floor("C09.e tests of file->physblock in flush", len(zero_edges), 1)
    for i, w_ in enumerate(dw):
        rep.ob("C09.e", site(fl, "no write to block 0: an unmapped buffer is mapped first#%d" % i),
               fl.dominated_by(w_, allocs, edge_ok=unmapped),
               "on the paths on which file->physblock is zero an allocating ext2fs_bmap2 precedes the write")
    rep.ob("C09.e", site(fl, "unwritten extent converted before the write"), bool(sets) and all(
        any(s in fl.reach_back([w_]) for s in sets) for w_ in dw),
        "ext2fs_bmap2(… BMAP_SET …) (marks the block initialised) can precede the device write")
    for i, s in enumerate(sets):
        lits = control_lits(fl, s)
        ok = any(t and ("BMAP_RET_UNINIT" in T.macros(a) or "UNINIT" in " ".join(T.macros(a))) for t, a in lits)
        rep.ob("C09.e", site(fl, "conversion tied to the unwritten indication#%d" % i), ok,
               "guards: %s" % [("" if t else "!") + T.pp(a)[:40] for t, a in lits][:5])
    for i, c in enumerate(maps):
        badr = failure_returns(fl, prog, c)
        rep.ob("C09.e", site(fl, "mapping failure is returned#%d" % i), not badr,
               "non-zero ext2fs_bmap2 result reaches the return value: %s" % [(b[0].line, b[1]) for b in badr[:2]])

    # ------------------------------------------------------------------ C09.f close and truncate
    cl = fio["ext2fs_file_close"]
    cf = calls_to(cl, "ext2fs_file_flush")
    frees = [n for n in calls_to(cl, "ext2fs_free_mem")]
    rep.floor("C09.f flush/free in ext2fs_file_close", min(len(cf), len(frees)), 1)
    for i, f_ in enumerate(frees):
        rep.ob("C09.f", site(cl, "buffer written out before the handle is freed#%d" % i), cl.dominated_by(f_, cf),
               "ext2fs_file_flush dominates ext2fs_free_mem")
    for i, c in enumerate(cf):
        badr = failure_returns(cl, prog, c)
        rep.ob("C09.f", site(cl, "close reports a failed write-out#%d" % i), not badr,
               "non-zero flush result reaches the return value: %s" % [(b[0].line, b[1]) for b in badr[:2]])
    ss = fio["ext2fs_file_set_size2"]
    disk = calls_to(ss, "ext2fs_punch", "ext2fs_file_zero_past_offset")
    rep.floor("C09.f on-disk truncation steps in ext2fs_file_set_size2", len(disk), 2)
    sf = calls_to(ss, "ext2fs_file_flush")
    sinv = [n for n in ss.nodes() if _flag_store(n, "EXT2_FILE_BUF_VALID", False)]
    for i, d in enumerate(disk):
        nm = T.call_names(d.ev["x"])[0]
        rep.ob("C09.f", site(ss, "buffer written out before %s" % nm), bool(sf) and ss.dominated_by(d, sf),
               "ext2fs_file_flush dominates the on-disk change (a stale dirty buffer would bring the old bytes back)")
        rep.ob("C09.f", site(ss, "buffer dropped before %s" % nm), bool(sinv) and ss.dominated_by(d, sinv),
               "EXT2_FILE_BUF_VALID is cleared before the on-disk change (the cached physical block may be freed)")
    for i, c in enumerate(sf):
        badr = failure_returns(ss, prog, c)
        rep.ob("C09.f", site(ss, "failed write-out stops the size change#%d" % i), not badr,
               "non-zero flush result is returned: %s" % [(b[0].line, b[1]) for b in badr[:2]])

    # ------------------------------------------------------------------ C09.g who stores the cached block number
    allowed = {"load_buffer", "ext2fs_file_flush", "ext2fs_file_write", "ext2fs_file_open2"}
    wrong = []
    n_sites = 0
    for f in prog.functions():
        if not f.file.startswith("lib/ext2fs/"):
            continue
        for n in f.nodes():
            if not n.ev:
                continue
            hit = False
            if n.ev["e"] == "S" and _is_file_field(n.ev["lhs"], "physblock"):
                hit = True
            if n.ev["e"] == "C":
                for a in n.ev["x"].get("a", []):
                    a0 = T.strip(a)
                    if isinstance(a0, dict) and a0.get("k") == "u" and a0.get("o") == "&" and _is_file_field(a0["e"], "physblock"):
                        hit = True
            if hit:
                n_sites += 1
                if f.name not in allowed:
                    wrong.append("%s:%s:%d" % (f.file, f.name, n.line))
    rep.floor("C09.g updates of file->physblock", n_sites, 3)
    rep.ob("C09.g", "lib/ext2fs/*:*:cached physical block set only by the buffer routines", not wrong,
           "updates of ext2_file.physblock outside %s: %s" % (sorted(allowed), wrong))

    search_mark_rule(prog, rep, "C09.h")

    # ------------------------------------------------------------------ C09.p per-piece work uses the piece
    pw = piecewise_loops([f for f in prog.functions() if f.file in DATA_PATH_FILES + ("lib/ext2fs/inode.c",)])
    rep.floor("C09.p piecewise loops in the data path", len(pw), 4)
    for (f, tot, part, bad, ncalls) in pw:
        rep.ob("C09.p", site(f, "loop over pieces `%s` of `%s` hands callees the piece" % (part, tot)), not bad,
               "%d calls in the loop body; calls given the running total `%s`: %s" %
               (ncalls, tot, [(c.line, (T.call_names(c.ev["x"]) or ["?"])[0]) for c in bad]))

    # ------------------------------------------------------------------ C09.q extent start fields move together
    pc = paired_cursor_updates([f for f in prog.functions() if f.file in ("lib/ext2fs/extent.c", "lib/ext2fs/punch.c",
                                                                          "lib/ext2fs/fallocate.c")],
                               "ext2fs_extent", "e_lblk", "e_pblk",
                               exempt={("lib/ext2fs/fallocate.c", "ext_falloc_helper", "newex")})
    # (exempt: `newex` is an extent under construction - its physical start is assigned from the allocator)
    rep.floor("C09.q compound updates of extent start fields in the library", len(pc), 10)
    for (f, n, fld, ok) in pc:
        same = sorted([m for m in f.events("S") if T.pp(m.ev["lhs"]) == T.pp(n.ev["lhs"])], key=lambda m: (m.line, m.bid, m.idx))
        rep.ob("C09.q", site(f, "`%s` moves together with its twin#%d" % (T.pp(n.ev["lhs"])[:30], same.index(n))), ok,
               "`%s` has the same update of the other start field in the same block" % n.text()[:40])

    # ------------------------------------------------------------------ C09.r a lowered extent start is propagated to the index
    # growing an extent at its front (or merging into the front of the next one) lowers e_lblk of what may be the first
    # extent of its leaf: the parent index entries must follow (ext2fs_extent_fix_parents) before the edit reports success
    sb_ = prog.fn("ext2fs_extent_set_bmap", "lib/ext2fs/extent.c")
    lowered = [n for n in sb_.events("S") if T.last_field(n.ev["lhs"]) == ("ext2fs_extent", "e_lblk") and n.ev.get("o") in ("--", "-=")]
    fixp = calls_to(sb_, "ext2fs_extent_fix_parents")
    rep.floor("C09.r lowered extent starts in ext2fs_extent_set_bmap", min(len(lowered), len(fixp)), 2)
    exr = absint.Explorer(sb_, prog)
    for i, n in enumerate(sorted(lowered, key=lambda m: (m.line, m.idx))):
        terms = exr.run([n], on_node=lambda node, env, flags, _f=fixp: flags | {"fixed"} if node in _f else flags)
        bad = sorted({node.line for (node, env, fl, st) in terms if node.ev and node.ev["e"] == "R" and "fixed" not in fl and
                      absint._z(exr.eval(node.ev.get("x"), env))})
        rep.ob("C09.r", site(sb_, "index follows a lowered extent start#%d" % i), not bad,
               "after `%s` every successful return has passed ext2fs_extent_fix_parents(): zero returns without it %s" %
               (n.text()[:30], bad))

    # ------------------------------------------------------------------ C09.w offset width
    fns = [f for f in prog.functions() if f.file in DATA_PATH_FILES]
    hits, n_and = width.zx_masks(fns)
    rep.floor("C09.w mask operations examined in the data path", n_and, 40)
    rep.ob("C09.w", "lib/ext2fs/{fileio,bmap,punch,fallocate,extent,…}.c:*:no 32-bit complement mask on a 64-bit offset",
           not hits, "%d `&` operations examined; zero-extended ~mask applied to a 64-bit offset/size/block: %s" %
           (n_and, [(f.file, f.name, l, t[:50]) for f, l, z, t in hits]))

    expand_keeps_size(prog, rep, "C09.s")

    # ------------------------------------------------------------------ C09.t an indirect block is released only when it was found empty
    # ind_punch() recurses into an indirect block and frees the block itself afterwards; between the two stands the
    # test that nothing is left in it.  A range that ends inside the block leaves live pointers behind: freeing the
    # block then loses every byte after the hole.
    ip = prog.fn("ind_punch", "lib/ext2fs/punch.c")
    rec = calls_to(ip, "ind_punch")
    frees = [c for c in calls_to(ip, "ext2fs_block_alloc_stats", "ext2fs_block_alloc_stats2") if T.const(arg(c, 2)) == -1]
    zt = {}
    for bid in ip.blocks:
        lit = ip.literal(bid)
        if lit and any(cc.get("fn") == "check_zero_block" for cc in T.calls(lit[0])):
            zt[ip.block_end(bid)] = lit[1]
    rep.floor("C09.t recursion / emptiness test / release in ind_punch", min(len(rec), len(zt), len(frees)), 1)

    def in_recursion(n, si, m, _f=ip):
        # on the paths looked at the recursion has happened, so `level > 0` holds (level is never assigned)
        lit = _f.literal(n.bid)
        if lit and "level" in T.vars_in(lit[0]) and isinstance(T.strip(lit[0]), dict) and T.strip(lit[0]).get("k") == "b":
            a = T.strip(lit[0])
            truth = lit[1] if si == 0 else (not lit[1])
            if a.get("o") == ">" and T.const(a.get("r")) == 0:
                return truth
            if a.get("o") == "==" and T.const(a.get("r")) == 0:
                return not truth
        return True
    for i, r_ in enumerate(rec):
        # (a) no way from the recursion to the release round the test
        r1 = ip.reach(ip.after(r_), avoid=list(zt) + rec, edge_ok=in_recursion)
        # (b) from the "not empty" outcome no way to the release without a new recursion
        starts = []
        for end_, pos in zt.items():
            starts += [m for (m, si) in ip.succ(end_) if (si == 0) != pos]     # edge on which check_zero_block() is false
        r2 = ip.reach(starts, avoid=rec, edge_ok=in_recursion) if starts else set()
        bad = [f_ for f_ in frees if f_ in r1 or f_ in r2]
        rep.ob("C09.t", site(ip, "indirect block released only after check_zero_block() found it empty#%d" % i), not bad,
               "every path from the recursive ind_punch() to ext2fs_block_alloc_stats(…, -1) passes check_zero_block() and takes "
               "its `empty` outcome: %s" % [b.line for b in bad])

    # ------------------------------------------------------------------ C09.u the range is carried correctly from level to level
    # ext2fs_punch_ind() walks the direct blocks and the three indirect levels; whether the range goes on into the next
    # level depends on where it *ends* (start + count), and what is handed down to a child is what is left of the range
    # from the child's first block on (start + count - offset - start2): both need start as well as count.
    pi = prog.fn("ext2fs_punch_ind", "lib/ext2fs/punch.c")
    adv = [n for n in pi.events("S") if T.path(n.ev["lhs"]) == "count" and n.ev.get("o") == "-="]
    rep.floor("C09.u reduction of count between levels in ext2fs_punch_ind", len(adv), 1)
    for i, a_ in enumerate(adv):
        lits = [(t, x) for (t, x) in control_lits(pi, a_) if "max" in T.vars_in(x)]
        ok = any({"start", "count"} <= T.vars_in(x) or
                 (depends_on(pi, x, lambda y: T.path(y) == "start") and depends_on(pi, x, lambda y: T.path(y) == "count"))
                 for t, x in lits)
        rep.ob("C09.u", site(pi, "next level entered when start + count exceeds this level#%d" % i), ok,
               "the test against max that guards `count -= max - start` reads start and count: %s" % [T.pp(x)[:40] for t, x in lits])
    for i, r_ in enumerate(rec):
        a6 = arg(r_, 6)
        need = {"start", "count", "offset"}
        got = {v for v in need if depends_on(ip, a6, lambda y, _v=v: T.path(y) == _v)}
        rep.ob("C09.u", site(ip, "child receives what is left of the range#%d" % i), got == need,
               "count argument of the recursive call `%s` derives from %s (needs start, count and offset)" % (T.pp(a6)[:40], sorted(got)))

    # ------------------------------------------------------------------ C09.v a write into the inline area lands at the position
    # ext2fs_file_write_inline_data() copies the caller's bytes to buf + pos and stores the inline area again.  The
    # number of bytes copied is the caller's count (the position moves the destination, it is not taken off the
    # count), and the length of the area stored afterwards comes from what was there (the length read back from
    # ext2fs_inline_data_get) as well as from where the write ends (position and count): a length made of the count
    # alone cuts the area short at every position but 0.
    wi = fio["ext2fs_file_write_inline_data"]
    gets, sets_ = calls_to(wi, "ext2fs_inline_data_get"), calls_to(wi, "ext2fs_inline_data_set")
    cps = [n for n in calls_to(wi, "memcpy") if _buf_rooted(arg(n, 0) or {})]
    rep.floor("C09.v inline get / copy / set in ext2fs_file_write_inline_data", min(len(gets), len(sets_), len(cps)), 1)
    old = {T.path(T.strip(arg(g, 4)).get("e") if T.strip(arg(g, 4)).get("k") == "u" else arg(g, 4)) for g in gets} - {None}
    is_pos = lambda y: _is_file_field(y, "pos")
    is_cnt = lambda y: T.path(y) == "nbytes"

    def pos_off_count(e):
        # somewhere in what the length is made of, the position is subtracted from something made of the count
        seen, todo = set(), [e]
        while todo:
            x = todo.pop()
            for y in T.walk(x):
                if isinstance(y, dict) and y.get("k") == "b" and y.get("o") in ("-", "-=") and \
                        any(is_pos(z) for z in T.walk(y["r"])) and depends_on(wi, y["l"], is_cnt):
                    return True
            for v in T.vars_in(x):
                if v not in seen:
                    seen.add(v)
                    for n in wi.events("S"):
                        if T.path(n.ev["lhs"]) == v and isinstance(n.ev.get("rhs"), dict):
                            if n.ev.get("o") == "-=" and any(is_pos(z) for z in T.walk(n.ev["rhs"])) and depends_on(wi, n.ev["lhs"], is_cnt):
                                return True
                            todo.append(n.ev["rhs"])
        return False
    for i, c in enumerate(cps):
        ln = arg(c, 2)
        rep.ob("C09.v", site(wi, "bytes copied to buf + pos are the caller's count#%d" % i),
               depends_on(wi, arg(c, 0), is_pos) and depends_on(wi, ln, is_cnt) and not pos_off_count(ln),
               "memcpy(file->buf + file->pos, buf, %s): the length derives from nbytes and the position is not subtracted from it" % T.pp(ln)[:30])
    for i, c in enumerate(sets_):
        a4 = arg(c, 4)
        from_old = depends_on(wi, a4, lambda y: T.path(y) in old)
        from_end = depends_on(wi, a4, is_pos) and depends_on(wi, a4, is_cnt)
        rep.ob("C09.v", site(wi, "inline area stored with max(old length, end of the write)#%d" % i), from_old and from_end,
               "length handed to ext2fs_inline_data_set `%s` derives from the length read back (%s): %s, from position and count: %s"
               % (T.pp(a4)[:30], sorted(old), from_old, from_end))

    # ------------------------------------------------------------------ C09.x a buffer kept between calls is as large as this call needs
    # ext2fs_zero_blocks2() keeps its buffer of zeroes in a static.  Its size is a number of blocks times the block
    # size of the file system it was made for; a later call for a file system with larger blocks must not take the
    # remembered count for granted (the "zeroes" written would be whatever lies behind the buffer): the block size the
    # buffer was made for is remembered and compared.
    zb = prog.fn("ext2fs_zero_blocks2", "lib/ext2fs/mkjournal.c")
    allocs_ = [n for n in zb.events("S") if any(cc.get("fn") in ("realloc", "malloc") and
                                                 any("blocksize" in T.field_names(a_) for a_ in cc.get("a", []) if isinstance(a_, dict))
                                                 for cc in T.calls(n.ev.get("rhs") or {}))]
    rep.floor("C09.x block-size dependent allocation in ext2fs_zero_blocks2", len(allocs_), 1)
    statics = {T.path(n.ev["lhs"]) for n in zb.events("S") if T.strip(n.ev["lhs"]).get("k") == "v" and T.strip(n.ev["lhs"]).get("s") in ("s", "g", "sl")
               and "blocksize" in T.field_names(n.ev.get("rhs") or {})}
    cmp_ = [b for b in zb.blocks if zb.literal(b) and "blocksize" in T.field_names(zb.literal(b)[0]) and (T.vars_in(zb.literal(b)[0]) & statics)]
    rep.ob("C09.x", site(zb, "the kept buffer is remade when the block size differs"), bool(statics) and bool(cmp_),
           "block size remembered in %s and compared with fs->blocksize in %d test(s)" % (sorted(statics), len(cmp_)))

    # ------------------------------------------------------------------ C09.y changing the size of an inline file is done in the inline area
    # An inline-data inode has no blocks: the block routines (zeroing the tail of the last block, punching) do not
    # apply and report EXT2_ET_INLINE_DATA_NO_BLOCK - after i_size was already changed.  ext2fs_file_set_size2() looks
    # at EXT4_INLINE_DATA_FL and, on that side, rewrites the inline area (the bytes cut off are cleared) or expands.
    ss2 = fio["ext2fs_file_set_size2"]
    inl_tests = [ss2.block_end(b) for b in ss2.blocks if ss2.literal(b) and "EXT4_INLINE_DATA_FL" in T.macros(ss2.literal(b)[0])]
    handled = False
    for e_ in inl_tests:
        lit = ss2.literal(e_.bid)
        side = [m for (m, si) in ss2.succ(e_) if (si == 0) == lit[1]]
        r = ss2.reach(side)
        if any(is_call(x, "ext2fs_inline_data_set") for x in r) and any(is_call(x, "ext2fs_inline_data_expand") for x in r):
            handled = True
    rep.ob("C09.y", site(ss2, "inline files are resized in the inline area"), handled,
           "a test of EXT4_INLINE_DATA_FL leads to ext2fs_inline_data_set() (shrink, cut bytes cleared) and ext2fs_inline_data_expand() (does not fit)")

    # ------------------------------------------------------------------ C09.z punching a hole into an extent cuts nothing before the new half is in
    # Splitting an extent around a hole adds the right half (which may need a new tree block, and fail on a full file
    # system) and shortens the left half.  The shortening comes after the insertion succeeded: a left half cut first
    # leaves, when the insertion fails, a file whose blocks behind the hole read as zeroes while they stay allocated.
    pe = prog.fn("ext2fs_punch_extent", "lib/ext2fs/punch.c")
    ins_ = calls_to(pe, "ext2fs_extent_insert")
    rpl = calls_to(pe, "ext2fs_extent_replace")
    rep.floor("C09.z insert / replace calls in ext2fs_punch_extent", min(len(ins_), len(rpl)), 1)
    for i, c in enumerate(ins_):
        hb = loop_head(pe, c)
        h0 = [pe.node(hb, 0)] if hb is not None else []
        before = [r_ for r_ in rpl if c in pe.reach(pe.after(r_), avoid=h0) and pe.dominated_by(c, [r_])]
        rep.ob("C09.z", site(pe, "no extent is rewritten on the way to the insertion of the right half#%d" % i), not before,
               "ext2fs_extent_replace() calls that dominate ext2fs_extent_insert() within one turn of the loop: %s" % [r_.line for r_ in before])

    # ------------------------------------------------------------------ C09.ab a new size always clears the rest of its last block
    # ext2fs_file_set_size2() on an ordinary file records the size, zeroes the last block behind it and punches the
    # blocks beyond.  The zeroing belongs to every size, not only to one that frees blocks: a shrink inside the last
    # block followed by growth would otherwise show the old bytes again.  Behind the recording of the size no path
    # returns success without ext2fs_file_zero_past_offset().
    fss = prog.fn("ext2fs_file_set_size2", "lib/ext2fs/fileio.c")
    pun = calls_to(fss, "ext2fs_punch")
    zpo = calls_to(fss, "ext2fs_file_zero_past_offset")
    szs = [c for c in calls_to(fss, "ext2fs_inode_size_set") if any(p_ in fss.reach(fss.after(c)) for p_ in pun)]
    rep.floor("C09.ab size recorded on the way to ext2fs_punch in ext2fs_file_set_size2", len(szs), 1)

    def ab_edge(nn, si, m, _f=fss):
        lit = _f.literal(nn.bid)
        a_ = T.strip(lit[0]) if lit else None
        if isinstance(a_, dict) and a_.get("k") == "b" and a_.get("o") == "=":
            a_ = T.strip(a_["l"])                 # if ((retval = f(...))): the value tested is retval's
        if lit and T.path(a_) == "retval":
            truth = lit[1] if si == 0 else (not lit[1])
            return not truth                      # the error returns
        return True
    for i, c in enumerate(szs):
        r = fss.reach(fss.after(c), avoid=zpo, edge_ok=ab_edge)
        early = sorted(n.line for n in r if n.ev and n.ev["e"] == "R")
        rep.ob("C09.ab", site(fss, "the last block is cleared behind every new size#%d" % i), bool(zpo) and not early,
               "from ext2fs_inode_size_set() (line %d) no successful return is reached without ext2fs_file_zero_past_offset(): %s" %
               (c.line, early))

    # ------------------------------------------------------------------ C09.aa a failed mapping gives back only what it allocated
    # extent_bmap() maps a new block either into a cluster the file already owns (bigalloc: implied allocation) or into
    # a freshly allocated one.  When recording the mapping fails, only the fresh one is given back: releasing an implied
    # cluster frees blocks the file's other data lives in, and the next allocation hands them out again.
    ebm = prog.fn("extent_bmap", "lib/ext2fs/bmap.c")
    backs = [n for n in calls_to(ebm, "ext2fs_block_alloc_stats2") if (T.const(arg(n, 2)) or 0) < 0]
    rep.floor("C09.aa roll-back of an allocation in extent_bmap", len(backs), 1)
    for i, n in enumerate(backs):
        own = any(t is True and T.path(a_) is not None and any(m_.ev.get("o") in ("++", "+=") and T.path(m_.ev["lhs"]) == T.path(a_) and
                                                               ebm.dominated_by(m_, calls_to(ebm, "ext2fs_alloc_block3", "ext2fs_alloc_block2", "ext2fs_new_block2"))
                                                               for m_ in ebm.events("S"))
                  for t, a_ in control_lits(ebm, n))
        rep.ob("C09.aa", site(ebm, "only a block allocated by this call is released when set_bmap fails#%d" % i), own,
               "`%s` lies behind a test of a counter that is raised only behind the allocator" % n.text()[:40])


def copy_in_rules(prog, rep, RULE):
    """every copy into the handle's block buffer is paired with the dirty mark and preceded by a load, and the load
    skips filling the buffer only for whole-block writes.  Shared by C09.d and C18.i (mke2fs -d / debugfs write set
    i_size ahead of the data: a partial last block written without the fill leaves stale bytes after EOF on disk)."""
    wr = prog.fn("ext2fs_file_write", FIO)
    ins = [n for n in calls_to(wr, "memcpy") if _buf_rooted(arg(n, 0) or {})]
    rep.floor(RULE + " copies into the buffer in ext2fs_file_write", len(ins), 1)
    dirty = [n for n in wr.nodes() if _flag_store(n, "EXT2_FILE_BUF_DIRTY", True)]
    wloads = calls_to(wr, "load_buffer")
    for i, n in enumerate(ins):
        paired = wr.dominated_by(n, dirty) or wr.must_pass_after(n, dirty)
        rep.ob(RULE, site(wr, "copy-in paired with the dirty mark#%d" % i), bool(dirty) and paired,
               "EXT2_FILE_BUF_DIRTY is set on every path through memcpy(file->buf + start, …)")
        rep.ob(RULE, site(wr, "copy-in preceded by a load#%d" % i), wr.dominated_by(n, wloads), "load_buffer dominates the copy")
        # dontfill may be non-zero only when the copy covers the whole block
        ln = T.path(arg(n, 2))
        for j, l in enumerate(wloads):
            a = T.strip(arg(l, 1))
            ok = T.const(a) == 0
            if not ok and isinstance(a, dict) and a.get("k") == "b" and a.get("o") == "==":
                sides = [T.path(a["l"]), T.path(a["r"])]
                flds = T.field_names(a)
                ok = ln is not None and ln in sides and "blocksize" in flds
            rep.ob(RULE, site(wr, "fill skipped only for whole-block writes#%d.%d" % (i, j)), ok,
                   "load_buffer's dontfill is 0 or `<copy length> == fs->blocksize` (copy length `%s`): %s" % (ln, T.pp(a)[:50]))


def expand_keeps_size(prog, rep, RULE):
    """changing the storage form of a regular file (inline area -> blocks) does not touch its length: the routine that
    expands an inline *file* never stores into i_size (the directory twin legitimately sets one block's worth)"""
    f = prog.fn("ext2fs_inline_data_file_expand", "lib/ext2fs/inline_data.c")
    st = [n for n in f.events("S") if T.last_field(n.ev["lhs"]) and T.last_field(n.ev["lhs"])[1] in ("i_size", "i_size_high")]
    wr = calls_to(f, "ext2fs_file_write")
    rep.floor(RULE + " data write in ext2fs_inline_data_file_expand", len(wr), 1)
    rep.ob(RULE, site(f, "expanding an inline file keeps i_size"), not st,
           "no store into i_size/i_size_high: %s" % [(n.line, n.text()[:30]) for n in st])
    for i, w_ in enumerate(wr):
        lim = any(t is not None and "i_size" in T.field_names(a) for t, a in control_lits(f, w_)) or \
            any("i_size" in T.field_names(n.ev.get("rhs") or {}) for n in f.events("S") if T.path(n.ev["lhs"]) == T.path(arg(w_, 2)))
        rep.ob(RULE, site(f, "only the part of the inline area below i_size is written as data#%d" % i), lim,
               "the byte count handed to ext2fs_file_write is limited by the inode's size")


def search_mark_rule(prog, rep, RULE, only_files=None, floor=7):
    """a block found by the free-block search routines and then used is (a) marked in use on every path on which
    the caller succeeds and (b) marked before a name is linked / a directory expanded.  Shared by C09.h and C10.h."""
    # ------------------------------------------------------------------ C09.h searched blocks are marked in use
    SEARCH = ("ext2fs_new_block", "ext2fs_new_block2", "ext2fs_new_block3", "ext2fs_new_range")
    MARK = ("ext2fs_block_alloc_stats2", "ext2fs_block_alloc_stats", "ext2fs_block_alloc_stats_range",
            "ext2fs_mark_block_bitmap2", "ext2fs_mark_block_bitmap_range2", "ext2fs_alloc_range")
    must_mark = prog.must(lambda f, n: is_call(n, *MARK))
    n_search = 0
    HANDED_ON = {
        # the search routine's own wrappers return the block to their caller, who marks it
        ("lib/ext2fs/alloc.c", "ext2fs_new_block2"), ("lib/ext2fs/alloc.c", "ext2fs_new_block"),
        ("lib/ext2fs/alloc.c", "ext2fs_alloc_range"),
        # probe idiom with one variable: the range search is tried at several goals, a result that does
        # not abut the neighbouring extent is discarded unclaimed, and `pblk` is also the out-parameter
        # of unrelated cluster lookups further down; not decidable without tracking the value
        ("lib/ext2fs/fallocate.c", "ext_falloc_helper"),
    }
    for f in prog.functions():
        if not f.file.startswith("lib/ext2fs/") or (f.file, f.name) in HANDED_ON:
            continue
        if only_files is not None and f.file not in only_files:
            continue
        for c in calls_to(f, *SEARCH):
            n_search += 1
            marks = [n for n in f.call_nodes() if is_call(n, *MARK) or
                     (prog.callees(f, n.ev["x"], weak=False) and all(x.key in must_mark for x in prog.callees(f, n.ev["x"], weak=False)))]
            outv = None
            for a in c.ev["x"].get("a", []):
                a0 = T.strip(a)
                if isinstance(a0, dict) and a0.get("k") == "u" and a0.get("o") == "&" and T.path(a0["e"]):
                    outv = T.path(a0["e"])      # the first by-address argument: where the block number lands
                    break
            if outv is None:
                outv = "?"

            def uses(node, _v=outv, c=c):
                ev = node.ev
                if not ev:
                    return False
                if ev["e"] == "C":
                    return any(_v in {T.path(x) for x in T.walk(a) if isinstance(x, dict) and x.get("k") in ("v", "m")}
                               for a in ev["x"].get("a", []))
                if ev["e"] == "S":
                    r = ev.get("rhs")
                    if isinstance(r, dict) and any(cc.get("id") == c.ev["x"].get("id") for cc in T.calls(r)):
                        return False        # `retval = search(… &blk)`: the search itself
                    return isinstance(r, dict) and any(T.path(x) == _v for x in T.walk(r) if isinstance(x, dict)
                                                        and x.get("k") in ("v", "m"))
                return False

            exposed = []

            def saw(node, env, flags, _m=marks, _c=c, _f=f):
                if node is _c:
                    return (flags - {"used", "marked"}) | {"searched"}
                if node in _m:
                    return flags | {"marked"}
                if "searched" in flags and uses(node):
                    return flags | {"used"}
                # a block that is already in use by the new object but still free in the bitmap must not be exposed
                # to code that can allocate from the same bitmap: linking a name may split or grow the directory
                if "used" in flags and "marked" not in flags and is_call(node, "ext2fs_link", "ext2fs_expand_dir"):
                    exposed.append(node.line)
                return flags
            # from the function entry, so that conditions correlated with the search (`if (!inline_data)`
            # around both the search and the mark) are seen consistently; a failed search leaves through
            # the error exit with a non-zero return and is not a success path
            errfn = f.raw.get("ret") in ("errcode_t", "long")
            ex = absint.Explorer(f, prog)
            terms = ex.run([f.entry_node()], on_node=saw)
            bad = []
            for (node, env, f2, st) in terms:
                if node.ev and node.ev["e"] == "R" and "used" in f2 and "marked" not in f2:
                    v = ex.eval(node.ev.get("x"), env)
                    if (errfn and absint._z(v)) or (not errfn and not _abort_value(node.ev.get("x"))):
                        bad.append(ex.trace(st)[-30:])
            nm = T.call_names(c.ev["x"])[0]
            if is_call_present(f, "ext2fs_link", "ext2fs_expand_dir"):
                rep.ob(RULE, site(f, "block from %s marked before a name is linked#%d" % (nm, _occ(f, c))), not exposed,
                       "no path reaches ext2fs_link()/ext2fs_expand_dir() (which may allocate directory blocks) with the found "
                       "block `%s` written or mapped but not yet marked in the bitmap: lines %s" % (outv, sorted(set(exposed))))
            rep.ob(RULE, site(f, "block from %s marked in use before success#%d" % (nm, _occ(f, c))), not bad,
                   "every path that uses the block found by %s (`%s` written, mapped or stored) and returns success passes a "
                   "marking call (alloc_stats / bitmap mark, possibly in a callee); a result that is discarded unused needs "
                   "none: unmarked success paths %s" % (nm, outv, bad[:2]),
                   {"entry": f.name, "paths": bad[:2]} if bad else None)
    rep.floor("%s free-block search call sites" % RULE, n_search, floor)



def is_call_present(fn, *names):
    return bool(calls_to(fn, *names))


def _abort_value(x):
    """return value of an iterator callback that reports failure (BLOCK_ABORT / DIRENT_ABORT)"""
    return x is not None and any("ABORT" in m for m in T.macros(x))


def _occ(fn, node):
    nm = T.call_names(node.ev["x"])[0] if T.call_names(node.ev["x"]) else "?"
    same = sorted([n for n in fn.call_nodes() if nm in T.call_names(n.ev["x"])], key=lambda n: (n.line, n.bid, n.idx))
    return same.index(node)
