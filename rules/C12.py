"""C12 — an undo file restores the exact previous bytes: interposition discipline of the undo
manager and verification discipline of e2undo.  DESIGN.md §4 C12."""
from vlib import tree as T
from vlib import effects, absint
from vlib.rulelib import *
from vlib.engine import Broken, line_path

EXPLANATION = (
    "ORDER/GUARD/TABLE rules over clang CFGs: every mutating slot of the I/O-manager vtable is defined by the undo manager "
    "and saves the old bytes (undo_write_tdb) before forwarding to the backing channel, never forwarding when the save "
    "failed; undo_write_tdb reads and records a block only if it was not recorded before (first write wins), marks it and "
    "rewrites the indexes; undo_close stores the FINISHED marker before the final flushed index write and nobody else "
    "stores it; all six tools install the manager the same way and never remove or truncate a user-named undo file (it is "
    "re-opened and appended to); whoever raises the key count of the current key block passes the block-full step before "
    "returning (the key array is indexed without a bound); re-opening an undo file validates header magic/CRC/"
    "geometry/features/superblock and every key block before use; e2undo performs all checksum comparisons before its "
    "first device write, leaves on any mismatch unless forced, and never writes under -n.  Decides the discipline on all "
    "paths; does not decide the key/extent arithmetic of undo_write_tdb.")

UNDO = "lib/ext2fs/undo_io.c"
MUT_SLOTS = ("write_blk", "write_blk64", "write_byte", "discard", "zeroout")
FWD = ("io_channel_write_blk64", "io_channel_write_blk", "io_channel_write_byte", "io_channel_discard",
       "io_channel_zeroout")


def manager_slots(world, prog, name, file):
    g = [x for x in world.globals_named(name, prog) if x["file"] == file]
    if len(g) != 1:
        raise Broken("%s initialiser not found" % name)
    out = {}
    for f, v in g[0]["init"].get("f", {}).items():
        v = T.strip(v)
        if isinstance(v, dict) and v.get("k") == "fn":
            out[f] = v["n"]
    return out


def crc_local(fn, e):
    """e is (through one local) the result of ext2fs_crc32c_le"""
    e2 = resolve_local(fn, e)
    return any(c.get("fn") == "ext2fs_crc32c_le" for c in T.calls(e2)) and T.strip(e2).get("k") == "c"


def classify_check(fn, atom):
    """which verification a comparison literal implements (or None)"""
    a = T.strip(atom)
    if not isinstance(a, dict):
        return None
    if a.get("k") == "c" and a.get("fn") == "check_filesystem":
        return "superblock"
    if a.get("k") == "c" and a.get("fn") == "memcmp":
        if any("E2UNDO_MAGIC" in T.macros(x) or (x.get("k") == "s" and "E2UNDO" in x.get("v", ""))
               for arg_ in a.get("a", []) for x in T.walk(arg_)):
            return "hdr_magic"
        return None
    if a.get("k") == "b" and a.get("o") in ("==", "!=", "<", ">", "<=", ">="):
        sides = [a["l"], a["r"]]
        res = [resolve_local(fn, s) for s in sides]
        flds = set()
        for s in res:
            flds |= T.fields(s)
        ms = T.macros(a)
        if a.get("o") == "==":
            if any(crc_local(fn, s) for s in sides):
                if ("undo_header", "header_crc") in flds:
                    return "hdr_crc"
                if ("undo_key_block", "crc") in flds:
                    return "key_crc"
                if ("undo_key_info", "blk_crc") in flds or ("undo_key", "blk_crc") in flds:
                    return "blk_crc"
                if ("undo_header", "sb_crc") in flds:
                    return "sb_crc"
            if "KEYBLOCK_MAGIC" in ms:
                return "key_magic"
        if "E2UNDO_MAX_BLOCK_SIZE" in ms:
            return "blocksize_max"
        if "E2UNDO_MIN_BLOCK_SIZE" in ms:
            return "blocksize_min"
    if a.get("k") == "m" and a.get("r") == "undo_header" and a.get("f") in ("f_incompat", "f_rocompat"):
        return "features"
    return None


def check_blocks(fn):
    """{class: [(bid, atom, pos)]}"""
    out = {}
    for bid in fn.blocks:
        lit = fn.literal(bid)
        if not lit:
            continue
        c = classify_check(fn, lit[0])
        if c:
            out.setdefault(c, []).append((bid, lit[0], lit[1]))
    return out


def fail_truth(cls):
    """truth value of the atom that means 'verification failed'"""
    # atoms are normalised to ==: crc == stored -> failure is False; magic == KEYBLOCK -> failure False;
    # check_filesystem(...) non-zero -> failure True; memcmp non-zero -> failure True
    return {"superblock": True, "hdr_magic": True, "features": True,
            "blocksize_max": True, "blocksize_min": True}.get(cls, False)


def run(world, rep, tier, only=None):
    prog = world.program("e2undo")
    uslots = manager_slots(world, prog, "struct_unix_manager", "lib/ext2fs/unix_io.c")
    dslots = manager_slots(world, prog, "struct_undo_manager", UNDO)
    ufile = {f.name: f for f in prog.fns_in_file(UNDO)}

    # mutating slots = those whose unix implementation may change device content (computed)
    may_raw = prog.may(lambda f, n: f.file == "lib/ext2fs/unix_io.c" and
                       (is_call(n, "pwrite", "pwrite64", "write", "fallocate", "fallocate64", "ftruncate",
                                "ftruncate64") or effects.is_discard_ioctl(f, n)),
                       stop=lambda f: f.file != "lib/ext2fs/unix_io.c")
    computed = sorted(s for s, fn in uslots.items() if ("lib/ext2fs/unix_io.c", fn) in may_raw and
                      s not in ("close", "flush", "set_blksize", "read_blk", "read_blk64", "open",
                                "cache_readahead", "get_stats", "set_option"))
    rep.ob("C12.a", "%s:struct_undo_manager:mutating slot set" % UNDO, computed == sorted(MUT_SLOTS),
           "device-mutating slots of the unix manager (computed from its raw writes): %s" % computed)

    # ------------------------------------------------------------------ C12.a
    for slot in computed:
        fname = dslots.get(slot)
        rep.ob("C12.a", "%s:struct_undo_manager:.%s defined" % (UNDO, slot), fname is not None,
               "the undo manager interposes on slot %s (%s)" % (slot, fname))
        if not fname:
            continue
        fn = ufile.get(fname)
        if fn is None:
            raise Broken("undo slot function %s not found" % fname)
        saves = calls_to(fn, "undo_write_tdb")
        fwds = [n for n in calls_to(fn, *FWD) if arg_path_endswith(n, 0, "real")]
        deleg = [n for n in fn.call_nodes() if n.ev["x"].get("fn") in dslots.values() and
                 n.ev["x"].get("fn") != fname]
        if deleg and not fwds:
            rep.ob("C12.a", site(fn, "delegates to covered slot"), all(
                d.ev["x"]["fn"] in [dslots.get(s) for s in computed] for d in deleg),
                "%s forwards to %s which saves first" % (fname, [d.ev["x"]["fn"] for d in deleg]))
            continue
        rep.ob("C12.a", site(fn, "forwards to the backing channel"), bool(fwds),
               "slot %s forwards the operation to data->real" % slot)
        for i, f in enumerate(fwds):
            ok = fn.dominated_by(f, saves)
            wit = None
            if not ok:
                p = fn.witness_path([fn.entry_node()], [f], avoid=saves)
                wit = line_path(p) if p else None
            rep.ob("C12.a", site(fn, "save before forward#%d" % i), ok,
                   "`%s` is dominated by undo_write_tdb()" % f.text()[:50], wit)
        for s in saves:
            # after a failed save no forward is reachable
            ex = absint.Explorer(fn, prog, source_call_id=s.ev["x"].get("id"))
            hit = []

            def on(node, env, flags, _h=hit, _f=fwds):
                if node in _f:
                    _h.append(node)
                return flags
            ex.run([s], on_node=on)
            rep.ob("C12.a", site(fn, "no forward after failed save"), not hit,
                   "with undo_write_tdb() non-zero the backing channel is not written: %s" % [h.where() for h in hit[:2]])

    # ------------------------------------------------------------------ C12.b
    wt = ufile.get("undo_write_tdb")
    if wt is None:
        raise Broken("undo_write_tdb vanished")
    tests = [n for n in calls_to(wt, "ext2fs_test_block_bitmap2") if arg_path_endswith(n, 0, "written_block_map")]
    marks = [n for n in calls_to(wt, "ext2fs_mark_block_bitmap2") if arg_path_endswith(n, 0, "written_block_map")]
    reads = [n for n in calls_to(wt, "io_channel_read_blk64", "io_channel_read_blk") if arg_path_endswith(n, 0, "real")]
    writes = [n for n in calls_to(wt, "io_channel_write_blk64", "io_channel_write_blk")
              if arg_path_endswith(n, 0, "undo_file")]
    idx = calls_to(wt, "write_undo_indexes")
    rep.floor("C12.b anchors in undo_write_tdb", min(len(reads), len(writes)), 1)
    for kind, nodes in (("read of the backing device", reads), ("write to the undo file", writes)):
        for n in nodes:
            lits = control_lits(wt, n)
            ok = any((not t) and any(c.get("fn") == "ext2fs_test_block_bitmap2" for c in T.calls(a)) for t, a in lits)
            rep.ob("C12.b", site(wt, "%s only for unrecorded blocks" % kind), ok,
                   "control-dependent on !ext2fs_test_block_bitmap2(written_block_map, …)")
    for n in writes:
        rep.ob("C12.b", site(wt, "block marked recorded before it is saved"), wt.dominated_by(n, marks),
               "ext2fs_mark_block_bitmap2(written_block_map) dominates the undo-file write")
        # after the data block is written, every successful path rewrites the indexes
        ex = absint.Explorer(wt, prog)
        ok = True
        # success edge only: forbid the failure edge of the write's own retval test
        def succ_edge(nn, si, m, _w=n):
            lit = wt.literal(nn.bid)
            if lit and T.path(lit[0]) == "retval":
                truth = lit[1] if si == 0 else (not lit[1])
                # only for the first test after the write
                return True if truth is False else (nn.bid not in _first_retval_test(wt, _w))
            return True
        r = wt.reach(wt.after(n), avoid=set(idx), edge_ok=succ_edge)
        loop_back = [p for p in tests if p in r]
        rep.ob("C12.b", site(wt, "indexes rewritten after each saved block"),
               not loop_back and wt.exit_node() not in [x for x in r if x is wt.exit_node() and False],
               "no successful path from the undo-file write to the next block avoids write_undo_indexes")
    # the marked bitmap is consulted with the same key as marked (same access path for both arguments)
    for t in tests:
        for m in marks:
            rep.ob("C12.b", site(wt, "test and mark use the same key"),
                   T.pp(arg(t, 1)) == T.pp(arg(m, 1)), "test key %s, mark key %s" % (T.pp(arg(t, 1)), T.pp(arg(m, 1))))

    # ------------------------------------------------------------------ C12.c
    uc = ufile.get("undo_close")
    fin = [n for n in uc.events("S") if "E2UNDO_STATE_FINISHED" in T.macros(n.ev.get("rhs") or {})
           and T.last_field(n.ev["lhs"]) == ("undo_header", "state")]
    wi = calls_to(uc, "write_undo_indexes")
    rep.floor("C12.c write_undo_indexes in undo_close", len(wi), 1)
    rep.ob("C12.c", site(uc, "FINISHED marker stored"), bool(fin), "undo_close stores E2UNDO_STATE_FINISHED in hdr.state")
    for f in fin:
        r = uc.reach(uc.after(f))
        rep.ob("C12.c", site(uc, "marker before final index write"), all(w in r for w in wi) and
               not any(f in uc.reach(uc.after(w)) for w in wi), "the store precedes write_undo_indexes")
        lits = control_lits(uc, f)
        ok = all(any(c.get("fn") == "ext2fs_safe_getenv" for c in T.calls(a)) for t, a in lits
                 if not _is_magic_or_ref(a))
        rep.ob("C12.c", site(uc, "marker unconditional on normal close"), ok,
               "only the UNDO_IO_SIMULATE_UNFINISHED test hook restricts the store: %s" % [T.pp(a)[:40] for t, a in lits])
    for w in wi:
        rep.ob("C12.c", site(uc, "final index write is flushed"), (T.const(arg(w, 1)) or 0) != 0,
               "write_undo_indexes(data, %s)" % T.pp(arg(w, 1)))
    others = []
    for fn in prog.functions():
        if fn.name in ("undo_close",):
            continue
        for n in fn.events("S"):
            if T.last_field(n.ev["lhs"]) == ("undo_header", "state") and \
               "E2UNDO_STATE_FINISHED" in rulelib_positive(n.ev.get("rhs")) and n.ev["o"] in ("=", "|="):
                others.append(n)
    rep.ob("C12.c", "%s:*:only undo_close stores FINISHED" % UNDO, not others,
           "no other function sets E2UNDO_STATE_FINISHED: %s" % [o.where() for o in others])
    wu = ufile.get("write_undo_indexes")
    fl = calls_to(wu, "io_channel_flush", "struct_io_manager.flush")
    rep.floor("C12.c flush in write_undo_indexes", len(fl), 1)
    for n in fl:
        lits = control_lits(wu, n)
        rep.ob("C12.c", site(wu, "flush when asked"), any(t and T.path(a) == "flush" for t, a in lits) and
               arg_path_endswith(n, 0, "undo_file"), "io_channel_flush(undo_file) under `flush`")
    hw = [n for n in calls_to(wu, "io_channel_write_blk64") if arg_path_endswith(n, 0, "undo_file") and T.const(arg(n, 1)) == 0]
    rep.ob("C12.c", site(wu, "header written at block 0"), bool(hw), "undo header written to block 0 of the undo file")
    for h in hw:
        crcset = [n for n in wu.events("S") if T.last_field(n.ev["lhs"]) == ("undo_header", "header_crc")]
        rep.ob("C12.c", site(wu, "header CRC set before header write"), wu.dominated_by(h, crcset),
               "hdr.header_crc is stored on every path before the header is written")

    # ------------------------------------------------------------------ C12.j every index update reaches the header
    # undo_write_tdb() calls write_undo_indexes() after each saved block, before the device is overwritten.  The
    # header write at its end is what pushes the saved data and the key block out of the undo file's write-back
    # cache (an odd-sized write flushes and invalidates): no successful return may come before it.
    wu2 = ufile.get("write_undo_indexes")
    hws = [n for n in calls_to(wu2, "io_channel_write_blk64", "io_channel_write_blk") if (T.path(arg(n, 0)) or "").endswith("undo_file")
           and ("hdr" in T.pp(arg(n, 3) or {}) or T.const(arg(n, 1)) == 0)]
    rep.floor("C12.j header write in write_undo_indexes", len(hws), 1)
    exj = absint.Explorer(wu2, prog)
    termsj = exj.run([wu2.entry_node()], on_node=lambda node, env, flags, _h=hws: flags | {"hdr"} if node in _h else flags)
    early = sorted({node.line for (node, env, fl, st) in termsj if node.ev and node.ev["e"] == "R" and
                    absint._z(exj.eval(node.ev.get("x"), env)) and "hdr" not in fl})
    rep.ob("C12.j", site(wu2, "no successful return before the header is written"), not early,
           "zero returns of write_undo_indexes() that skip the header write: lines %s" % early)

    # ------------------------------------------------------------------ C12.k the file system offset is applied once
    # undo_write_tdb(channel, block, count) takes a block number of the *file system* and adds data->offset itself
    # when it computes which undo block to save.  A caller that hands it a number that already contains the offset
    # saves the wrong block whenever the file system does not start at byte 0 of the device.
    n_k = 0
    for f in ufile.values():
        for i, c in enumerate(calls_to(f, "undo_write_tdb")):
            n_k += 1
            twice = depends_on(f, arg(c, 1), lambda y: isinstance(y, dict) and y.get("k") == "m" and
                               T.last_field(y) == ("undo_private_data", "offset"), depth=3)
            rep.ob("C12.k", site(f, "block number handed to undo_write_tdb is relative to the file system#%d" % i), not twice,
                   "`%s` does not derive from data->offset (undo_write_tdb adds it)" % T.pp(arg(c, 1))[:40])
    rep.floor("C12.k callers of undo_write_tdb", n_k, 4)
    wt_ = ufile.get("undo_write_tdb")
    adds = [n for n in wt_.events("S") if isinstance(n.ev.get("rhs"), dict) and
            any(T.last_field(y) == ("undo_private_data", "offset") for y in T.walk(n.ev["rhs"]) if isinstance(y, dict) and y.get("k") == "m")]
    rep.ob("C12.k", site(wt_, "undo_write_tdb adds the offset"), bool(adds), "data->offset enters the undo block computation in undo_write_tdb")

    # ------------------------------------------------------------------ C12.d
    SETUP = [("mke2fs", "misc/mke2fs.c", "mke2fs_setup_tdb"), ("tune2fs", "misc/tune2fs.c", "tune2fs_setup_tdb"),
             ("resize2fs", "resize/main.c", "resize2fs_setup_tdb"), ("e2fsck", "e2fsck/unix.c", "e2fsck_setup_tdb"),
             ("debugfs", "debugfs/debugfs.c", "debugfs_setup_tdb"), ("e2undo", "misc/e2undo.c", "e2undo_setup_tdb")]
    for (pn, file, fname) in SETUP:
        p2 = world.program(pn)
        fn = p2.fn(fname, file)
        ioparam = [p["n"] for p in fn.raw["params"] if "io_manager *" in p["t"] or "io_manager*" in p["t"]]
        if not ioparam:
            raise Broken("%s has no io_manager* parameter" % fname)
        ip = ioparam[0]
        sb = [n for n in calls_to(fn, "set_undo_io_backing_manager") if T.path(arg(n, 0)) == ip]
        st = [n for n in fn.events("S") if T.path(n.ev["lhs"]) == ip and T.strip(n.ev["lhs"]).get("k") == "u"
              and T.path(n.ev.get("rhs")) == "undo_io_manager"]
        sf = calls_to(fn, "set_undo_io_backup_file")
        rep.ob("C12.d", site(fn, "backing manager recorded"), bool(sb), "set_undo_io_backing_manager(*%s)" % ip)
        rep.ob("C12.d", site(fn, "undo manager installed"), bool(st), "*%s = undo_io_manager" % ip)
        rep.ob("C12.d", site(fn, "undo file registered"), bool(sf), "set_undo_io_backup_file(…)")
        if sb and st:
            rep.ob("C12.d", site(fn, "backing recorded before it is replaced"),
                   all(fn.dominated_by(s, sb) for s in st), "the original manager is captured before *%s is overwritten" % ip)
            # on the success (return 0) paths both happened
            ex = absint.Explorer(fn, p2)

            def seen(node, env, flags, _sb=sb, _st=st, _sf=sf):
                if node in _sb:
                    flags = flags | {"backing"}
                if node in _st:
                    flags = flags | {"installed"}
                if node in _sf:
                    flags = flags | {"file"}
                return flags
            terms = ex.run([fn.entry_node()], on_node=seen)
            bad = [(node.line, sorted(fl)) for (node, env, fl, stt) in terms if node.ev and node.ev["e"] == "R"
                   and absint._z(ex.eval(node.ev.get("x"), env)) and not ({"backing", "installed", "file"} <= fl)
                   and ("installed" in fl or "backing" in fl)]
            rep.ob("C12.d", site(fn, "setup is all-or-nothing on success"), not bad,
                   "a zero return with the manager half installed: %s" % bad[:2])
        # the caller opens through the same variable after setup
        for (cf, cn) in p2.callers().get(fn.key, []):
            pi = fn.params.index(ip)
            a = arg(cn, pi)
            v = T.path(a)
            opens = [n for n in cf.call_nodes() if is_call(n, "ext2fs_open2", "ext2fs_open", "ext2fs_initialize",
                                                           "struct_io_manager.open", "try_open_fs")]
            after = cf.reach(cf.after(cn))
            o_after = [o for o in opens if o in after]
            def uses(o, name):
                return any(T.path(x) == name or (T.path(x) or "").startswith(name + "->")
                           for x in list(o.ev["x"].get("a", [])) + [o.ev["x"].get("via") or {}])
            via_v = [o for o in o_after if uses(o, v)]
            devs = {T.pp(arg(o, 0)) for o in via_v}
            bypass = [o for o in o_after if not uses(o, v) and T.pp(arg(o, 0)) in devs]
            ok = bool(via_v) and not bypass
            rep.ob("C12.d", site(cf, "opens through the installed manager after %s" % fname), ok,
                   "open calls after setup use `%s`: %s" % (v, [o.text()[:40] for o in o_after[:3]]))

    # ------------------------------------------------------------------ C12.h
    # A user-named undo file is re-opened and appended to (one file rolls back a whole chain of
    # runs): on the paths on which the tool was given a name, nothing removes or truncates a file
    # before the manager is installed.  The default-named file, by contrast, is removed first.
    n_lit = 0
    for (pn, file, fname) in SETUP:
        p2 = world.program(pn)
        fn = p2.fn(fname, file)
        ends = {}
        for bid in fn.blocks:
            lit = fn.literal(bid)
            if not lit:
                continue
            atom, pos = lit
            pth = T.path(atom)
            if pth and pth.split("->")[-1] == "undo_file":
                ends[fn.block_end(bid)] = pos
        n_lit += 1 if ends else 0
        if not ends:
            raise Broken("%s: no test of the user-supplied undo file name" % fname)

        def given_edge(n, si, m, _ends=ends):
            if n in _ends:
                # succ 0 is the edge on which the condition holds; condition == atom iff pos
                return (si == 0) == _ends[n]
            return True
        removers = [n for n in fn.call_nodes() if is_call(n, "unlink", "remove", "truncate", "truncate64", "rename")
                    or (is_call(n, "open", "open64", "ext2fs_open_file", "creat") and
                        (arg_has_macro(n, 1, "O_TRUNC") or is_call(n, "creat")))]
        r = fn.reach([fn.entry_node()], edge_ok=given_edge)
        hit = [n for n in removers if n in r]
        wit = None
        if hit:
            wp = fn.witness_path([fn.entry_node()], hit, edge_ok=given_edge)
            wit = {"entry": fname, "lines": line_path(wp or [])}
        rep.ob("C12.h", site(fn, "a user-named undo file is never removed or truncated"), not hit,
               "with the undo file name given (every test of it true), no unlink/truncate is reachable in %s; "
               "%d remover call(s) exist on the default-name path%s" % (
                   fname, len(removers), "; reached: %s" % [h.text()[:40] for h in hit] if hit else ""), witness=wit)
    rep.floor("C12.h setup functions with a name test", n_lit, 6)

    # ------------------------------------------------------------------ C12.i a full key block is left behind
    # keys[] holds KEYS_PER_BLOCK entries; the writer indexes it with keys_in_block without a bound,
    # relying on the invariant keys_in_block < KEYS_PER_BLOCK between operations.  Every function
    # that can raise the count must therefore pass the "block full -> start a fresh one" step
    # (itself or through a callee) before it returns successfully.
    def _kib(e):
        lf = T.last_field(e)
        return lf is not None and lf[1] == "keys_in_block"
    def _full_test(f):
        out = []
        for bid in f.blocks:
            lit = f.literal(bid)
            if lit and "keys_in_block" in T.field_names(lit[0]) and (
                    "KEYS_PER_BLOCK" in T.macros(lit[0]) or "keys_per_block" in T.vars_in(lit[0])):
                out.append(f.block_end(bid))
        return out
    must_full = set()
    for f in ufile.values():
        ft = _full_test(f)
        resets = [n for n in f.events("S") if _kib(n.ev["lhs"]) and T.const(n.ev.get("rhs")) == 0]
        if ft and any(any(r_ in f.reach(f.after(t_)) for r_ in resets) for t_ in ft):
            must_full.add(f.name)
    n_raise = 0
    for f in ufile.values():
        raises = [n for n in f.events("S") if _kib(n.ev["lhs"]) and not (T.const(n.ev.get("rhs")) == 0 and n.ev.get("o") == "=")]
        if not raises:
            continue
        through = list(_full_test(f)) + [c for c in f.call_nodes() if c.ev["x"].get("fn") in must_full]
        ex = absint.Explorer(f, prog)

        def seen_k(node, env, flags, _r=raises, _t=through):
            if node in _r:
                return (flags - {"tested"}) | {"raised"}
            if node in _t and "raised" in flags:
                return flags | {"tested"}
            return flags
        terms = ex.run([f.entry_node()], on_node=seen_k)
        bad = sorted({node.line for (node, env, fl, st) in terms if node.ev and node.ev["e"] == "R" and "raised" in fl and
                      "tested" not in fl and absint._z(ex.eval(node.ev.get("x"), env))})
        n_raise += 1
        rep.ob("C12.i", site(f, "a raised key count passes the block-full step before success"), not bad,
               "successful returns after keys_in_block was raised without `keys_in_block == KEYS_PER_BLOCK -> fresh block` "
               "(directly or via %s): lines %s" % (sorted(must_full), bad))
    rep.floor("C12.i functions raising keys_in_block", n_raise, 2)

    # ------------------------------------------------------------------ C12.e
    tr = ufile.get("try_reopen_undo_file")
    cb = check_blocks(tr)
    setup = calls_to(tr, "undo_setup_tdb")
    marks2 = calls_to(tr, "ext2fs_mark_block_bitmap_range2")
    rep.floor("C12.e anchors in try_reopen_undo_file", min(len(setup), len(marks2)), 1)
    need_hdr = ["hdr_magic", "hdr_crc", "blocksize_max", "blocksize_min", "features", "superblock"]
    need_key = ["key_magic", "key_crc"]
    for cls in need_hdr + need_key:
        blocks = cb.get(cls, [])
        rep.ob("C12.e", site(tr, "verification present: %s" % cls), bool(blocks),
               "try_reopen_undo_file compares %s" % cls)
        targets = setup if cls in need_hdr else marks2
        for (bid, atom, pos) in blocks[:1]:
            end = tr.block_end(bid)
            ft = fail_truth(cls)
            # failing edge index
            fail_si = 0 if (pos == ft) else 1
            # 1. the use is dominated by the passing edge: with the passing edge forbidden, unreachable

            def pass_forbidden(nn, si, m, _e=end, _f=fail_si):
                return not (nn is _e and si != _f)
            r = tr.reach([tr.entry_node()], edge_ok=pass_forbidden)
            rep.ob("C12.e", site(tr, "%s checked before use" % cls), not any(t in r for t in targets),
                   "the data covered by %s is used only after the comparison passed" % cls)
            # 2. the failing edge returns non-zero without reaching the use
            succ = tr.blocks[bid]["s"][fail_si]
            r2 = tr.reach([tr.node(succ, 0)])
            reach_use = [t for t in targets if t in r2 and cls in need_hdr]
            ex = absint.Explorer(tr, prog)
            terms = ex.run([tr.node(succ, 0)])
            badret = [(n.line, ex.eval(n.ev.get("x"), env)) for (n, env, fl, st) in terms if n.ev and n.ev["e"] == "R"
                      and not absint._nz(ex.eval(n.ev.get("x"), env))]
            # returns reachable through the loop after a *later* success are excluded by requiring
            # that the failing arm itself cannot reach the use
            rep.ob("C12.e", site(tr, "%s mismatch rejects the file" % cls),
                   not reach_use and (cls in need_key or not badret),
                   "failing arm returns an error and does not continue: use reachable=%s zero-returns=%s" %
                   (bool(reach_use), badret[:2]))
    cfs = ufile.get("check_filesystem")
    cb2 = check_blocks(cfs)
    mem = [b for b in cfs.blocks if cfs.literal(b) and T.strip(cfs.literal(b)[0]).get("fn") == "memcmp"]
    rep.ob("C12.e", site(cfs, "superblock bytes compared"), bool(mem), "memcmp(fs superblock, recorded superblock)")
    rep.ob("C12.e", site(cfs, "superblock crc compared"), "sb_crc" in cb2, "hdr->sb_crc compared with the computed crc")

    # ------------------------------------------------------------------ C12.g sibling agreement
    main = prog.fn("main", "misc/e2undo.c")
    sh_replay = key_walk_shapes(main)
    sh_reopen = key_walk_shapes(tr)
    rep.floor("C12.g key-walk advance expressions", min(len(sh_replay), len(sh_reopen)), 1)
    rep.ob("C12.g", "%s:try_reopen_undo_file~misc/e2undo.c:main:key extent length" % UNDO,
           len(sh_replay) == 1 and sh_replay == sh_reopen,
           "the two readers of the key list (e2undo replay, undo-file re-open) advance the undo-file cursor and mark the "
           "recorded range by the same function of (key size S, undo block size B): replay %s, re-open %s" %
           (sorted(sh_replay), sorted(sh_reopen)))
    # the writer stores one undo block per recorded block: cursor advanced by exactly 1 after each data write
    inc = [n for n in wt.events("S") if T.last_field(n.ev["lhs"]) == ("undo_private_data", "undo_blk_num")
           and n.ev["o"] in ("++", "+=")]
    rep.ob("C12.g", site(wt, "writer advances one undo block per saved block"),
           bool(inc) and all(wt.dominated_by(i, writes) for i in inc) and
           all(n.ev["o"] == "++" or T.const(n.ev.get("rhs")) == 1 for n in inc),
           "data->undo_blk_num++ follows the undo-file data write")

    # ------------------------------------------------------------------ C12.l every call of a tool's undo set-up switches the I/O manager
    # The tools point their io_manager variable at the plain manager before every open (e2fsck: after `restart:`) and
    # count on <tool>_setup_tdb() to put undo_io_manager there.  Each return of 0 must have done so - unless it is the
    # "no usable undo directory" exit - on every call, not only on the first.
    n_l = 0
    SETUPS = (("e2fsck", "e2fsck_setup_tdb", "e2fsck/unix.c"), ("tune2fs", "tune2fs_setup_tdb", "misc/tune2fs.c"),
              ("resize2fs", "resize2fs_setup_tdb", "resize/main.c"), ("mke2fs", "mke2fs_setup_tdb", "misc/mke2fs.c"),
              ("debugfs", "debugfs_setup_tdb", "debugfs/debugfs.c"))
    for (pn, fname, ffile) in SETUPS:
        pr = world.program(pn)
        if not pr.has_fn(fname, ffile):
            continue
        sf = pr.fn(fname, ffile)
        n_l += 1
        switch = [n for n in sf.events("S") if isinstance(T.strip(n.ev["lhs"]), dict) and T.strip(n.ev["lhs"]).get("k") == "u" and
                  T.strip(n.ev["lhs"]).get("o") == "*" and T.path(n.ev.get("rhs")) == "undo_io_manager"]
        nodir = [n for n in calls_to(sf, "access", "strcmp")]
        ex = absint.Explorer(sf, pr)

        def mark(node, env, flags, _s=switch, _n=nodir):
            if node in _s:
                return flags | {"switched"}
            if node in _n:
                return flags | {"dirtest"}
            return flags
        terms = ex.run([sf.entry_node()], on_node=mark)
        bare = sorted({node.line for (node, env, fl, st) in terms if node.ev and node.ev["e"] == "R" and
                       not absint._nz(ex.eval(node.ev.get("x"), env)) and not (fl & {"switched", "dirtest"})})
        rep.ob("C12.l", site(sf, "a return of 0 has switched to undo_io_manager (or found no undo directory)"), bool(switch) and not bare,
               "returns that may be 0 without `*io_ptr = undo_io_manager` and without the directory test: lines %s" % bare)
    rep.floor("C12.l undo set-up functions of the tools", n_l, 4)

    # ------------------------------------------------------------------ C12.m the undo file the user named is the one that is written
    # tune2fs -I switches the undo manager on by itself (with the default file name).  Where it does so it must not
    # replace a name given with -z: the run would record nowhere (or elsewhere) and e2undo <file> could restore nothing.
    tp = world.program("tune2fs")
    tmain = tp.fn("main", "misc/tune2fs.c")
    dflt = [n for n in tmain.events("S") if T.path(n.ev["lhs"]) == "undo_file" and T.path(n.ev.get("rhs")) is not None and
            "default" in (T.path(n.ev.get("rhs")) or "")]
    rep.floor("C12.m implicit undo file in tune2fs main", len(dflt), 1)
    for i, n in enumerate(dflt):
        ok = any(t is False and T.path(a_) == "undo_file" for t, a_ in control_lits(tmain, n))
        rep.ob("C12.m", site(tmain, "the default undo file replaces no name given with -z#%d" % i), ok,
               "`%s` lies on the `!undo_file` side of a test" % n.text()[:40])

    # ------------------------------------------------------------------ C12.p tune2fs decides on the undo manager before anything is written
    # tune2fs opens the device with the plain manager, and where an undo file is wanted closes it and opens it again
    # through the undo manager (`goto retry_open`).  Whatever modifies the device in main - the journal replay above
    # all, which runs on the first handle - lies behind the test that offers this switch; before it, the bytes
    # written would be in no undo file and e2undo would "restore" the state after them.
    ut = [tmain.block_end(b) for b in tmain.blocks if tmain.literal(b) and
          {"undo_file", "io_ptr_orig"} & {T.path(y) for y in T.walk(tmain.literal(b)[0]) if isinstance(y, dict)} and
          any(c_ in tmain.reach([tmain.block_end(b)]) for c_ in calls_to(tmain, "tune2fs_setup_tdb"))]
    rep.floor("C12.p tests that offer the undo manager in tune2fs main", len(ut), 1)
    # the modifying calls of main: the library's journal replay and flush, and tune2fs's own functions that (through
    # direct calls in the file) mark the file system dirty or send a write request
    tfile = {f.name: f for f in tp.fns_in_file("misc/tune2fs.c")}
    writes_ = set()
    chg = True
    while chg:
        chg = False
        for f in tfile.values():
            if f.name in writes_ or f.name == "main":
                continue
            if any(effects.is_write_req(f, c_) or effects.is_dirty_mark(f, c_) or
                   is_call(c_, "ext2fs_write_inode", "ext2fs_write_inode_full", "ext2fs_flush", "ext2fs_flush2") or
                   any(nm in writes_ for nm in T.call_names(c_.ev["x"])) for c_ in f.call_nodes()):
                writes_.add(f.name)
                chg = True
    mod_calls = [c_ for c_ in tmain.call_nodes() if
                 is_call(c_, "ext2fs_run_ext3_journal", "ext2fs_flush", "ext2fs_flush2", "ext2fs_mark_super_dirty") or
                 any(nm in writes_ for nm in T.call_names(c_.ev["x"]))]
    rep.floor("C12.p modifying calls in tune2fs main", len(mod_calls), 8)
    k_p = {}
    for c_ in mod_calls:
        nm = T.call_names(c_.ev["x"])[0]
        k_p[nm] = k_p.get(nm, -1) + 1
        rep.ob("C12.p", site(tmain, "%s#%d comes after the undo manager was offered" % (nm, k_p[nm])), tmain.dominated_by(c_, ut),
               "every path to %s (line %d) passes the test of undo_file / io_ptr_orig that leads to tune2fs_setup_tdb()" % (nm, c_.line))

    # ------------------------------------------------------------------ C12.q e2undo looks at the device at one offset only
    # e2undo replays onto a channel it has told the offset (io_channel_set_options(channel, "offset=…")).  When it
    # opens the device a second time - to mark the restored file system as needing a check - the same option string
    # goes along; without it the mark lands in whatever file system sits at offset 0, a byte no undo record covers.
    eu = world.program("e2undo")
    eum = eu.fn("main", "misc/e2undo.c")
    seto = calls_to(eum, "io_channel_set_options")
    reop = calls_to(eum, "ext2fs_open2", "ext2fs_open")
    rep.floor("C12.q offset option handed to the replay channel in e2undo main", len(seto), 1)
    optv = set()
    for c_ in seto:
        optv |= T.vars_in(arg(c_, 1) or {})
    for i, c_ in enumerate(reop):
        got = T.vars_in(arg(c_, 1) or {})
        rep.ob("C12.q", site(eum, "second open of the device carries the replay's offset#%d" % i), bool(optv & got),
               "ext2fs_open2(device, %s, …) (line %d) is given the option string of io_channel_set_options(): %s" %
               (T.pp(arg(c_, 1))[:40], c_.line, sorted(optv)))
    rep.floor("C12.q opens of the device as a file system in e2undo main", len(reop), 1)

    # ------------------------------------------------------------------ C12.n a run that wrote nothing leaves a well-formed undo file
    # The header's block size is filled in by undo_setup_tdb(), which runs before the first block is saved.  A run
    # that changes nothing never gets there; undo_close() therefore runs it before it writes the header, or e2undo and
    # the next tool of a chain reject the file ("Corrupt undo file header").
    uc = ufile["undo_close"]
    wi = calls_to(uc, "write_undo_indexes")
    su = calls_to(uc, "undo_setup_tdb")
    rep.floor("C12.n header write in undo_close", len(wi), 1)
    for i, n in enumerate(wi):
        rep.ob("C12.n", site(uc, "header set up before it is written at close#%d" % i), bool(su) and uc.dominated_by(n, su),
               "undo_setup_tdb() dominates write_undo_indexes() in undo_close()")

    # ------------------------------------------------------------------ C12.o an odd-sized write through unix_io pushes the whole cache out first
    # undo_write_tdb() and write_undo_indexes() leave the saved data block and the key block in the write-back cache of
    # the undo file's channel; what pushes them to the file before the device is touched is the odd-sized header write
    # that follows, because unix_write_blk64() writes back the *whole* cache before a direct (count < 0) write.
    # The undo file of a run that is killed is only usable because of that: the direct-write arm is dominated by
    # flush_cached_blocks(), not by a write-back of the overlapping blocks only.
    uw = prog.fn("unix_write_blk64", "lib/ext2fs/unix_io.c")
    # (the arm is entered through `count < 0 || count > WRITE_DIRECT_SIZE`: a comparison of count that holds)
    direct = [n for n in calls_to(uw, "raw_write_blk") if any(t is True and isinstance(T.strip(a_), dict) and T.strip(a_).get("k") == "b" and
                                                              "count" in T.vars_in(a_) and T.strip(a_).get("o") in ("<", ">", "<=", ">=")
                                                              for t, a_ in control_lits(uw, n) + restrict_lits(uw, n))]
    fl_all = calls_to(uw, "flush_cached_blocks")
    rep.floor("C12.o direct-write arm of unix_write_blk64", len(direct), 1)
    for i, n in enumerate(direct):
        rep.ob("C12.o", site(uw, "odd-sized write preceded by a write-back of the whole cache#%d" % i), bool(fl_all) and uw.dominated_by(n, fl_all),
               "flush_cached_blocks() dominates the direct raw_write_blk() on the `count < 0` arm")

    # ------------------------------------------------------------------ C12.f e2undo
    cbm = check_blocks(main)
    dev_writes = [n for n in main.call_nodes() if effects.is_write_req(main, n) and T.path(arg(n, 0)) == "channel"]
    rep.floor("C12.f device writes in e2undo main", len(dev_writes), 1)
    noret = prog.noreturn_nodes(main)

    def force_off(nn, si, m):
        lit = main.literal(nn.bid)
        if lit and T.path(lit[0]) == "force":
            truth = lit[1] if si == 0 else (not lit[1])
            return not truth
        return True
    for cls in ("hdr_crc", "key_magic", "key_crc", "blk_crc", "superblock", "blocksize_max", "blocksize_min", "features"):
        blocks = cbm.get(cls, [])
        rep.ob("C12.f", site(main, "verification present: %s" % cls), bool(blocks), "e2undo compares %s" % cls)
        for (bid, atom, pos) in blocks[:1]:
            ft = fail_truth(cls)
            fail_si = 0 if (pos == ft) else 1
            succ = main.blocks[bid]["s"][fail_si]
            r = main.reach([main.node(succ, 0)], avoid=noret, edge_ok=force_off)
            hit = [w for w in dev_writes if w in r]
            wit = None
            if hit:
                p = main.witness_path([main.node(succ, 0)], hit, avoid=noret, edge_ok=force_off)
                wit = line_path(p) if p else None
            rep.ob("C12.f", site(main, "%s mismatch: no device write unless forced" % cls), not hit,
                   "with force == 0 the failing arm reaches exit() before any io_channel_write on the device", wit)
            # with force == 0 there is no way round the comparison: from the start of the innermost
            # loop body containing it (or from entry), neither the next iteration nor a device write is
            # reachable unless the comparison's passing edge is taken
            end = main.block_end(bid)
            pass_si = 1 - fail_si
            head = _innermost_loop(main, bid)
            start = main.node(main.blocks[head]["s"][0], 0) if head is not None else main.entry_node()
            targets = list(dev_writes) + ([main.node(head, 0)] if head is not None else [])

            def no_pass(nn, si, m, _e=end, _p=pass_si):
                if nn is _e and si == _p:
                    return False
                return force_off(nn, si, m)
            r3 = main.reach([start], avoid=noret, edge_ok=no_pass)
            hit3 = [t for t in targets if t in r3 and t is not start]
            wit3 = None
            if hit3:
                pth = main.witness_path([start], hit3, avoid=noret, edge_ok=no_pass)
                wit3 = line_path(pth) if pth else None
            rep.ob("C12.f", site(main, "%s cannot be bypassed when not forced" % cls), not hit3,
                   "with force == 0 every path through the %s passes the %s comparison" %
                   ("loop body" if head is not None else "function", cls), wit3)
            for w in dev_writes:
                rep.ob("C12.f", site(main, "%s verified before the first device write" % cls),
                       _loop_precedes(main, bid, w), "the comparison is evaluated before the replay loop starts")
    for i, w in enumerate(dev_writes):
        lits = control_lits(main, w)
        rep.ob("C12.f", site(main, "device write only when !dry_run#%d" % i),
               any((not t) and T.path(a) == "dry_run" for t, a in lits),
               "guards %s" % [("" if t else "!") + T.pp(a)[:30] for t, a in lits])
    rw_open = [n for n in calls_to(main, "ext2fs_open2", "ext2fs_open") if "EXT2_FLAG_RW" in T.macros(n.ev["x"])]
    for n in rw_open:
        lits = control_lits(main, n)
        rep.ob("C12.f", site(main, "post-replay RW open only when !dry_run"),
               any((not t) and T.path(a) == "dry_run" for t, a in lits), "guards %s" % [T.pp(a)[:30] for t, a in lits])
    # an unfinished record forces the fsck mark
    unf = [b for b in main.blocks if main.literal(b) and "E2UNDO_STATE_FINISHED" in T.macros(main.literal(b)[0])]
    rep.ob("C12.f", site(main, "unfinished record detected"), bool(unf), "hdr.state & E2UNDO_STATE_FINISHED is tested")
    vclear = [n for n in main.events("S") if T.last_field(n.ev["lhs"]) == ("ext2_super_block", "s_state")
              and store_clears_bits(n, "EXT2_VALID_FS")]
    rep.ob("C12.f", site(main, "needs-check mark"), bool(vclear), "s_state &= ~EXT2_VALID_FS after a problematic replay")


def _innermost_loop(fn, bid):
    best, head = None, None
    target = fn.block_end(bid)
    for hb, b in fn.blocks.items():
        t = b.get("t")
        if not t or t.get("k") not in ("for", "while", "do"):
            continue
        if not b.get("s") or b["s"][0] is None or b["s"][0] < 0:
            continue
        body = fn.reach([fn.node(b["s"][0], 0)], avoid=[fn.block_end(hb)])
        if target in body and fn.node(hb, 0) in fn.reach([target]):
            if best is None or len(body) < best:
                best, head = len(body), hb
    return head


def _shape(fn, e, depth=0):
    """canonical shape of an arithmetic expression over roles: S = a recorded key's size,
    B = the undo block size; locals are resolved through their single definition"""
    e = T.strip(e)
    if not isinstance(e, dict) or depth > 8:
        return "?"
    c = T.const(e)
    if c is not None and e.get("k") != "v":
        return str(c)
    k = e.get("k")
    if k == "c" and e.get("fn") in ("ext2fs_le32_to_cpu", "ext2fs_le64_to_cpu", "ext2fs_cpu_to_le32") and e.get("a"):
        return _shape(fn, e["a"][0], depth + 1)
    if k == "m":
        if e["f"] == "size" and e.get("r") in ("undo_key", "undo_key_info"):
            return "S"
        if e["f"] in ("blocksize", "block_size", "tdb_data_size"):
            return "B"
        return e["f"]
    if k == "v":
        if e.get("s") == "l":
            r = resolve_local(fn, e)
            if r is not e and T.strip(r) is not e:
                return _shape(fn, r, depth + 1)
        return e["n"]
    if k == "b":
        return "(%s %s %s)" % (_shape(fn, e["l"], depth + 1), e["o"], _shape(fn, e["r"], depth + 1))
    if k == "u":
        return "%s%s" % (e.get("o"), _shape(fn, e["e"], depth + 1))
    return "?"


def key_walk_shapes(fn):
    """shapes of the amounts by which a walker advances its undo-file cursor per key"""
    out = set()
    for n in fn.events("S"):
        if n.ev["o"] != "+=":
            continue
        sh = _shape(fn, n.ev.get("rhs"))
        if "S" in sh.replace("SUPER", ""):
            out.add(sh)
    for n in calls_to(fn, "ext2fs_mark_block_bitmap_range2"):
        sh = _shape(fn, arg(n, 2))
        if "S" in sh:
            out.add(sh)
    return out


def _first_retval_test(fn, node):
    """block ids of the first `retval` literal reached after node"""
    out = set()
    seen = set()
    st = list(fn.after(node))
    while st:
        n = st.pop()
        if n in seen:
            continue
        seen.add(n)
        if n.ev is None:
            lit = fn.literal(n.bid)
            if lit and T.path(lit[0]) == "retval":
                out.add(n.bid)
                continue
        st.extend(m for (m, _) in fn.succ(n))
    return out


def _loop_precedes(fn, bid, w):
    """the block bid can reach node w, and w cannot reach bid (verification strictly before writes)"""
    end = fn.block_end(bid)
    return (w in fn.reach([end])) and (end not in fn.reach(fn.after(w)))


def _is_magic_or_ref(a):
    a = T.strip(a)
    p = T.path(a)
    if p and (p.endswith("refcount") or p in ("channel", "data")):
        return True
    if isinstance(a, dict) and a.get("k") == "b":
        if any(("magic" in f[1]) or f[1] == "refcount" for f in T.fields(a)):
            return True
    return False


def rulelib_positive(e):
    from vlib.rulelib import _positive_macros
    return _positive_macros(e) if isinstance(e, dict) else set()
