"""C06 — bounds discipline on the anchored parsers of untrusted on-disk data.  DESIGN.md §4 C06."""
import os
from vlib import tree as T
from vlib import taint
from vlib.rulelib import *
from vlib.engine import Broken, line_path

EXPLANATION = (
    "TAINT-GUARD rule over the parsers of on-disk structures: values derived from fields of on-disk record types (through "
    "locals and byte-order helpers) are followed to the sinks where they are used as a length (memcpy/memset/memcmp, "
    "io_channel byte counts), allocation size, array index, pointer offset, divisor or shift count.  Two frozen lists, derived "
    "from the pinned tree and keyed semantically (function, sink class, source fields / canonical name-independent comparison "
    "shape — no text, no line numbers), are enforced: (1) every recorded sink that was dominated by a comparison on its value "
    "still is; (2) every recorded comparison on untrusted values is still present in its function with the same operands and "
    "direction.  Decides that the untrusted lengths/counts/offsets the anchors name are compared before use on every path; does "
    "not decide absence of all memory errors, termination, or that a bound is the right number.")

HERE = os.path.dirname(os.path.abspath(__file__))
REF = os.path.join(HERE, "ref", "c06_instances.tsv")

SCOPE = [
    ("lib/ext2fs/openfs.c", ["ext2fs_open2"]),
    ("e2fsck/recovery.c", ["count_tags", "do_one_pass", "scan_revoke_records", "calc_chksums", "jbd2_journal_recover"]),
    ("e2fsck/journal.c", ["e2fsck_journal_load", "e2fsck_get_journal", "ext4_fc_replay_scan", "ext4_fc_replay"]),
    ("debugfs/journal.c", ["ext2fs_journal_load", "ext2fs_get_journal"]),
    ("lib/ext2fs/extent.c", ["ext2fs_extent_header_verify", "ext2fs_extent_get", "ext2fs_extent_open2"]),
    ("lib/ext2fs/dirblock.c", None),
    ("lib/ext2fs/rw_bitmaps.c", ["read_bitmaps_range_prepare", "read_bitmaps_range_start"]),
    ("resize/resize2fs.c", ["calculate_minimum_resize_size"]),
    ("lib/ext2fs/dir_iterate.c", ["ext2fs_process_dir_block", "ext2fs_validate_entry", "ext2fs_inline_data_dir_iterate"]),
    ("lib/ext2fs/ext_attr.c", ["read_xattrs_from_buffer", "ext2fs_xattrs_read_inode", "ext2fs_ext_attr_block_rehash"]),
    ("lib/ext2fs/inline_data.c", None),
    ("lib/ext2fs/csum.c", ["__get_dx_countlimit", "__get_dirent_tail", "ext2fs_dx_csum", "ext2fs_extent_block_csum"]),
    ("lib/ext2fs/mmp.c", ["ext2fs_mmp_read"]),
    ("lib/ext2fs/orphan.c", None),
    ("lib/ext2fs/qcow2.c", ["qcow2_read_header", "qcow2_write_raw_image", "qcow2_copy_data", "qcow2_read_l1_table", "qcow2_read_l2_table"]),
    ("lib/ext2fs/undo_io.c", ["try_reopen_undo_file", "check_filesystem"]),
    ("misc/e2undo.c", ["main", "check_filesystem"]),
    ("e2fsck/pass1.c", ["check_ext_attr", "check_ea_in_inode", "check_blocks_inline_data", "check_blocks_extents", "scan_extent_node"]),
    ("e2fsck/pass2.c", ["check_dir_block", "parse_int_node", "salvage_directory", "check_dot", "check_dotdot"]),
    ("lib/ext2fs/swapfs.c", ["ext2fs_swap_ext_attr", "ext2fs_swap_inode_full"]),
]
PROGRAM_OF = {"misc/e2undo.c": "e2undo", "debugfs/journal.c": "debugfs", "debugfs/htree.c": "debugfs", "debugfs/logdump.c": "debugfs",
              "resize/resize2fs.c": "resize2fs"}
# dumpers of the same on-disk structures (debugfs read-only commands): judged by the absolute rule C06.c only
BOUND_EXTRA = [("debugfs/htree.c", None), ("debugfs/logdump.c", None)]


HELPERS = {}
HELPER_GUARDS = {}


def collect(world, thorough=False):
    """-> (sinks, guards): sinks {key: n_guards}, guards {(function key, shape): number of tests of that shape}"""
    sinks = {}
    gsites = {}
    n_fn = 0
    for (file, names) in SCOPE:
        prog = world.program(PROGRAM_OF.get(file, "e2fsck"), plain=True)
        fns = prog.fns_in_file(file)
        for fn in fns:
            in_scope = names is None or fn.name in names
            ft = taint.FnTaint(fn, prog)
            fkey = "%s:%s" % (fn.file, fn.name)
            # file-local helpers a function calls: a comparison moved into one of them still guards the caller
            for c in fn.call_nodes():
                for g_ in prog.callees(fn, c.ev["x"], weak=False):
                    if g_.file == fn.file and g_.key != fn.key:
                        HELPERS.setdefault(fkey, set()).add("%s:%s" % (g_.file, g_.name))
            if not in_scope:
                # not judged itself; its ordering comparisons are kept in case it is such a helper
                for bid in fn.blocks:
                    lit = fn.literal(bid)
                    sh = ft.guard_shape(lit[0]) if lit else None
                    if sh and (" < " in sh or " <= " in sh):
                        HELPER_GUARDS[(fkey, sh)] = HELPER_GUARDS.get((fkey, sh), 0) + 1
                continue
            n_fn += 1
            # guards anywhere in the function
            lits = {}
            for bid in fn.blocks:
                lit = fn.literal(bid)
                if not lit:
                    continue
                sh = ft.guard_shape(lit[0])
                if sh:
                    lits[bid] = sh
                    # ordering comparisons are bounds checks by form; equality / truth tests are recorded only
                    # when they control a sink (below)
                    if " < " in sh or " <= " in sh:
                        gsites.setdefault((fkey, sh), set()).add(bid)
            for (node, kind, op, src, expr) in ft.sinks():
                if kind == "bound":
                    continue        # judged absolutely by C06.c
                srcs = ",".join(sorted(src))
                key = (fkey, kind, op, srcs)
                g = 0
                for (bid, truth, atom) in fn.control_literals(node):
                    if bid in lits and (ft.sources(atom) & ft.sources(expr) or T.vars_in(atom) & T.vars_in(expr)):
                        g += 1
                        gsites.setdefault((fkey, lits[bid]), set()).add(bid)
                sinks[key] = max(sinks.get(key, 0), g) if key in sinks else g
                # several sites with the same key: the weakest one counts
                if key in sinks:
                    sinks[key] = min(sinks[key], g)
    guards = {k: len(v) for k, v in gsites.items()}
    return sinks, guards, n_fn


def load_ref():
    if not os.path.exists(REF):
        raise Broken("reference rules/ref/c06_instances.tsv missing")
    sinks, guards = {}, {}
    for line in open(REF):
        line = line.rstrip("\n")
        if not line or line.startswith("#"):
            continue
        p = line.split("\t")
        if p[0] == "sink":
            sinks[(p[1], p[2], p[3], p[4])] = int(p[5])
        elif p[0] == "guard":
            guards[(p[1], p[2])] = int(p[3]) if len(p) > 3 else 1
    return sinks, guards


def write_ref(world):
    sinks, guards, n_fn = collect(world)
    os.makedirs(os.path.dirname(REF), exist_ok=True)
    with open(REF, "w") as f:
        f.write("# C06 reference instances derived from the pinned tree (semantic keys only).\n"
                "# sink\\tfile:function\\tclass\\top\\ton-disk source fields\\tnumber of dominating comparisons on the value\n"
                "# guard\\tfile:function\\tcanonical comparison shape (locals resolved or numbered; every ordering test rewritten as a strict <, polarity dropped)\tnumber of tests of that shape\n")
        for k in sorted(sinks):
            f.write("sink\t%s\t%s\t%s\t%s\t%d\n" % (k[0], k[1], k[2], k[3], sinks[k]))
        for g in sorted(guards):
            f.write("guard\t%s\t%s\t%d\n" % (g[0], g[1], guards[g]))
    return len(sinks), len(guards), n_fn


def run(world, rep, tier, only=None):
    rs, rg = load_ref()
    sinks, guards, n_fn = collect(world)
    rep.floor("C06 functions analysed", n_fn, 40)
    rep.floor("C06 reference sinks", len(rs), 40)
    rep.floor("C06 reference guards", len(rg), 100)
    present_fns = {g[0] for g in guards} | {k[0] for k in sinks}
    ref_fns = {g[0] for g in rg} | {k[0] for k in rs}
    gone = sorted(ref_fns - present_fns - _all_scope_fns(world))
    if gone:
        raise Broken("reference functions no longer exist: %s" % gone[:5])
    # (1) guarded sinks stay guarded
    for key in sorted(rs):
        want = rs[key]
        if want == 0:
            rep.examined()
            continue
        if key not in sinks:
            rep.examined()      # the sink itself is gone (code removed): nothing to protect
            continue
        rep.ob("C06.a", "%s:sink %s %s <- %s" % (key[0], key[1], key[2], key[3]), sinks[key] >= 1,
               "value derived from %s used as %s(%s): dominated by %d comparison(s) on the value (reference: %d)" %
               (key[3], key[1], key[2], sinks[key], want))
    # (2) every recorded comparison is still there
    byfn = {}
    for (f, sh) in guards:
        byfn.setdefault(f, set()).add(sh)
    for (f, sh) in sorted(rg):
        have = guards.get((f, sh), 0)
        if have < rg[(f, sh)]:
            # a comparison extracted into a file-local helper that the reference does not know (a new function)
            # is still made on the caller's behalf
            have += sum(guards.get((h, sh), 0) + HELPER_GUARDS.get((h, sh), 0) for h in HELPERS.get(f, ()) if h not in ref_fns)
        ok = have >= rg[(f, sh)]
        rep.ob("C06.a", "%s:guard %s" % (f, sh), ok,
               "comparison on untrusted value still present with the same operands and strictness, %d time(s) (reference %d)%s" %
               (have, rg[(f, sh)],
                "" if ok else "; comparisons now in this function: %s" % sorted(byfn.get(f, set()))[:6]))
    # new unguarded sinks: notes only
    new_unguarded = [k for k in sinks if k not in rs and sinks[k] == 0]
    for k in sorted(new_unguarded)[:20]:
        rep.note("C06 note: new sink without a dominating comparison in its function: %s %s(%s) <- %s" % k)
    rep.extra["sinks_now"] = len(sinks)
    rep.extra["guards_now"] = len(guards)
    rep.extra["unguarded_reference_sinks"] = sum(1 for k in rs if rs[k] == 0)

    # ------------------------------------------------------------------ C06.c a count from the disk that bounds an index is range-checked
    # `for (i = 0; i < count; i++) ... ent[i]` with count read from the block being parsed walks as far as the disk says.
    # Every such bound (in the anchored parsers and in the debugfs dumpers of the same structures) must have passed
    # a comparison of its own - a range check or the test of a clamp - on every path to the loop; the loop's own
    # `i < count` does not count.
    n_b = 0
    for (file, names) in SCOPE + BOUND_EXTRA:
        prog = world.program(PROGRAM_OF.get(file, "e2fsck"), plain=True)
        fns = prog.fns_in_file(file)
        if names is not None:
            fns = [f for f in fns if f.name in names]
        for fn in fns:
            ft = taint.FnTaint(fn)
            occ = {}
            for (node, kind, op, src, expr) in ft.sinks():
                if kind != "bound":
                    continue
                n_b += 1
                key = T.pp(expr)[:30]
                occ[key] = occ.get(key, 0) + 1
                chk = ft.bound_checks(node, expr)
                rep.ob("C06.c", "%s:%s:bound %s of an index is range-checked#%d" % (fn.file, fn.name, key, occ[key] - 1), bool(chk),
                       "`%s` (line %d) limits an index/pointer walk and derives from %s: %d dominating comparison(s) on it" %
                       (T.pp(expr)[:40], node.line, ",".join(sorted(src))[:80], len(chk)))
    rep.floor("C06.c disk-derived loop bounds of an index", n_b, 5)

    # ------------------------------------------------------------------ C06.d the walks over the log are bounded
    # The scan of the journal ends at a block with the wrong magic, sequence or checksum; a crafted log need not
    # contain one (revoke blocks carry no obligation to advance the sequence).  Each unbounded walk therefore needs
    # a progress measure: a counter incremented on every turn and tested, on every turn, against a length the loop
    # does not change, with an outcome that leaves the loop.
    n_d = 0
    for (pn, fname, file, reader) in (("e2fsck", "do_one_pass", "e2fsck/recovery.c", "jread"),
                                      ("debugfs", "do_one_pass", "e2fsck/recovery.c", "jread"),
                                      ("debugfs", "dump_journal", "debugfs/logdump.c", "read_journal_block")):
        prog = world.program(pn)
        fn = prog.fn(fname, file) if prog.has_fn(fname, file) else prog.fn(fname)
        heads = set()
        for n in calls_to(fn, reader):
            hb = loop_head(fn, n)
            if hb is None:
                continue
            # a loop whose own header tests a variable that every turn advances bounds itself (a for loop over the
            # tags of a block, the walk over the fast-commit area); every other loop around the reader needs a counter
            if any(b_ == hb for (c_, n_, b_) in loop_counter_exits(fn, hb, None, any_step=True)):
                continue
            heads.add(hb)
        for hb in sorted(heads):
            n_d += 1

            def scan_only(n, si, m, _f=fn):
                lit = _f.literal(n.bid)
                if not lit:
                    return True
                a = T.strip(lit[0])
                truth = lit[1] if si == 0 else (not lit[1])
                if T.path(a) == "pass":
                    return not truth            # PASS_SCAN is 0
                if isinstance(a, dict) and a.get("k") == "b" and a.get("o") == "==" and T.path(a.get("l")) == "pass" and \
                        T.macros(a.get("r") or {}) & {"PASS_REVOKE", "PASS_REPLAY"}:
                    return not truth
                return True
            ce = loop_counter_exits(fn, hb, scan_only if fname == "do_one_pass" else None)
            rep.ob("C06.d", site(fn, "unbounded walk over the log has a progress counter[%s]" % pn), bool(ce),
                   "`while (1)` around %s(): counters incremented and tested against a loop-invariant length on every turn%s: %s" %
                   (reader, " of the scan pass" if fname == "do_one_pass" else "", [(c, n.line) for c, n, b in ce]))
    rep.floor("C06.d unbounded walks over the log", n_d, 3)

    # ------------------------------------------------------------------ C06.e no second release of a field left dangling
    # Error paths release what they built.  A release that leaves the pointer in its structure (free(), the bitmap
    # and channel destructors - unlike ext2fs_free_mem(&p), which zeroes p) must not be followed by another release
    # of the same field, neither later in the function nor by the caller's own clean-up after the call returned.
    n_e = 0
    seen_e = set()
    for pn in ("e2fsck", "debugfs", "tune2fs", "resize2fs", "e2image", "e2undo"):
        prog = world.program(pn, plain=True)
        fns = [f for f in prog.functions() if f.key not in seen_e]
        seen_e |= {f.key for f in fns}
        n1, hits = double_releases(prog, fns)
        n_e += n1
        for (f, first, g, second) in hits:
            rep.ob("C06.e", site(g, "no second release of %s.%s" % tuple(T.last_field(T.strip(arg(second, 0))))), False,
                   "`%s` (%s:%d) leaves the pointer in place and `%s` (%s:%d) releases it again" %
                   (first.text()[:40], f.name, first.line, second.text()[:40], g.name, second.line))
    rep.floor("C06.e releases that leave the pointer in its structure", n_e, 10)
    if not any(o[0] == "C06.e" and not o[2] for o in rep.obligations):
        rep.ob("C06.e", "*:*:releases that leave the pointer in place are final", True,
               "%d such releases examined; none is followed by a second release of the same field" % n_e)

    # ------------------------------------------------------------------ C06.f a record is validated before a walk strides by its length
    # The fast-commit area is a sequence of tag/length/value records.  Each walker advances its cursor by a length read
    # from the record; the record must have passed a test that relates that length to the end of the block - on
    # every path to the stride - or the next header, the value copies and the checksum run outside the buffer.
    n_f = 0
    for (file, pn) in (("e2fsck/journal.c", "e2fsck"), ("debugfs/logdump.c", "debugfs")):
        prog = world.program(pn, plain=True)
        for fn in prog.fns_in_file(file):
            ft = taint.FnTaint(fn)
            for n in fn.events("S"):
                l = T.strip(n.ev["lhs"])
                rhs = n.ev.get("rhs")
                if not (isinstance(l, dict) and l.get("k") == "v" and taint._is_ptr(l) and isinstance(rhs, dict)):
                    continue
                if n.ev.get("o") not in ("+=", "=") or (n.ev["o"] == "=" and l["n"] not in T.vars_in(rhs)):
                    continue
                stride_src, rec_vars = set(), set()
                for x in T.walk(rhs):
                    if isinstance(x, dict) and x.get("k") in ("v", "m") and T.path(x) != l["n"]:
                        s_ = ft.sources(x)
                        if any(y.startswith("ext4_fc_tl.") for y in s_):
                            stride_src |= s_
                            rec_vars |= T.vars_in(x)
                if not stride_src:
                    continue
                hb = loop_head(fn, n)
                if hb is None:
                    continue
                n_f += 1
                # the loop's bound: what the cursor is compared with in the loop condition
                bound_vars = set()
                tcond = (fn.blocks[hb].get("t") or {}).get("c")
                if isinstance(tcond, dict):
                    bound_vars = T.vars_in(tcond) - {l["n"]} - rec_vars
                body = loop_body(fn, hb)
                guards = []
                for bid in fn.blocks:
                    lit = fn.literal(bid)
                    end_ = fn.block_end(bid)
                    if not lit or end_ not in body:
                        continue
                    av = T.vars_in(lit[0])
                    if (av & rec_vars) and (av & bound_vars) and any(m not in body for (m, si) in fn.succ(end_)):
                        guards.append(end_)
                ok = bool(guards) and fn.dominated_by(n, guards)
                rep.ob("C06.f", site(fn, "record validated against the end of the block before the stride"), ok,
                       "`%s` (line %d) strides by %s: %d test(s) in the loop relate the record (%s) to the bound (%s), leave the loop "
                       "on failure and lie on every path to the stride" %
                       (n.text()[:40], n.line, sorted(stride_src)[:2], len(guards), sorted(rec_vars), sorted(bound_vars)))
    rep.floor("C06.f fast-commit record walkers", n_f, 3)
    # the same for the walkers of a directory block in debugfs/htree.c: the stride is rec_len; it has to be at least
    # the size of an entry header (the walk makes progress) and stay inside the block
    n_g = 0
    prog = world.program("debugfs", plain=True)
    for fn in prog.fns_in_file("debugfs/htree.c"):
        ft = taint.FnTaint(fn)
        for n in fn.events("S"):
            l = T.strip(n.ev["lhs"])
            rhs = n.ev.get("rhs")
            if not (isinstance(l, dict) and l.get("k") == "v" and isinstance(rhs, dict) and n.ev.get("o") == "+="):
                continue
            src = ft.sources(rhs)
            if not any(s_.startswith("ext2_dir_entry.") for s_ in src) or l["n"] not in ft._index_vars():
                continue        # (only what positions the next access: not, say, a print column)
            hb = loop_head(fn, n)
            if hb is None:
                continue
            n_g += 1
            sv = T.vars_in(rhs)
            body = loop_body(fn, hb)
            lower = upper = room = False
            iv = l["n"]
            for bid in fn.blocks:
                end_ = fn.block_end(bid)
                lit = fn.literal(bid)
                if end_ not in body or not lit or not fn.dominated_by(n, [end_]):
                    continue
                x = T.strip(lit[0])
                if not (isinstance(x, dict) and x.get("k") == "b" and x.get("o") in ("<", "<=", ">", ">=")):
                    continue
                sides = (x.get("l"), x.get("r"))
                # whichever way round and with whichever polarity it is written: a test that relates rec_len to the
                # size of an entry header, and one that relates where the entry ends to the block size
                for p_, q_ in (sides, sides[::-1]):
                    if (T.vars_in(p_) & sv) and (T.const(q_) or 0) >= 1:
                        lower = True
                    if (T.vars_in(p_) & sv) and (T.field_names(q_) & {"blocksize"} or T.vars_in(q_) & {"blocksize"}):
                        upper = True
                # room for a header: what holds on the edge that stays in the loop, as  cursor + slack <(=) blocksize
                if T.vars_in(x) & sv:
                    continue
                stay = [si for (m, si) in fn.succ(end_) if m in body and si is not None]
                if len(stay) != 1:
                    continue
                holds = lit[1] if stay[0] == 0 else (not lit[1])
                l_, r_, o_ = x["l"], x["r"], x["o"]
                if not holds:
                    o_ = {"<": ">=", "<=": ">", ">": "<=", ">=": "<"}[o_]
                if o_ in (">", ">="):
                    l_, r_, o_ = r_, l_, {">": "<", ">=": "<="}[o_]
                fl_, fr_ = linear_form(l_, fn), linear_form(r_, fn)
                if fl_ is None or fr_ is None or iv not in fl_ or not any("blocksize" in str(k) for k in fr_):
                    continue
                slack = fl_.get(1, 0) - fr_.get(1, 0)
                if (o_ == "<=" and slack >= 8) or (o_ == "<" and slack >= 7):
                    room = True
            # the loop goes round only while a whole entry header (8 bytes) still lies inside the block
            cond = (fn.blocks[hb].get("t") or {}).get("c")
            rep.ob("C06.f", site(fn, "directory walk stops when no entry header fits any more"), room,
                   "a test that every turn passes before the cursor is used keeps an 8-byte header inside the block (loop condition `%s`)" % T.pp(cond or {})[:40])
            rep.ob("C06.f", site(fn, "directory walk validates rec_len before it strides by it"), lower and upper,
                   "`%s` (line %d): a test rejects a rec_len too small for an entry: %s; one that runs past the block: %s" %
                   (n.text()[:30], n.line, lower, upper))
    rep.floor("C06.f directory-block walkers in debugfs/htree.c", n_g, 2)

    # ------------------------------------------------------------------ C06.g a recursion depth read from the disk is range-checked
    # A routine that calls itself (directly or through one other routine) with `depth - 1` does depth levels of
    # work, each multiplying the last by the fan-out the disk dictates.  Where the first depth handed in from outside
    # the recursion derives from an on-disk field, a comparison on that value has to lie on every path to the call.
    n_r = 0
    for pn in ("debugfs", "e2fsck"):
        prog = world.program(pn, plain=True)
        byname = {}
        for f in prog.functions():
            byname.setdefault(f.name, []).append(f)
        depth_of = {}        # function key -> index of its depth parameter
        for f in prog.functions():
            for c in f.call_nodes():
                cn = c.ev["x"].get("fn")
                for idx, a in enumerate(c.ev["x"].get("a", [])):
                    a0 = T.strip(a)
                    if not (isinstance(a0, dict) and a0.get("k") == "b" and a0.get("o") == "-" and (T.const(a0.get("r")) or 0) >= 1):
                        continue
                    pv = T.strip(a0.get("l"))
                    if not (isinstance(pv, dict) and pv.get("k") == "v" and pv.get("s") == "p" and pv["n"] in f.params):
                        continue
                    for g in byname.get(cn, []):
                        back = g.key == f.key or any(c2.ev["x"].get("fn") == f.name for c2 in g.call_nodes())
                        if back and idx < len(g.params):
                            depth_of[g.key] = idx
                            depth_of.setdefault(f.key, f.params.index(pv["n"]))
        ring = {k for k in depth_of}
        for f in prog.functions():
            if f.key in ring or not f.file.startswith(("debugfs/", "e2fsck/")):
                continue
            ft = None
            for c in f.call_nodes():
                for g in byname.get(c.ev["x"].get("fn"), []):
                    if g.key not in depth_of:
                        continue
                    a = arg(c, depth_of[g.key])
                    if not isinstance(a, dict):
                        continue
                    ft = ft or taint.FnTaint(f)
                    src = ft.sources(a)
                    if not src:
                        continue
                    n_r += 1
                    chk = ft.bound_checks(c, a)
                    rep.ob("C06.g", site(f, "depth handed to %s() is range-checked" % g.name), bool(chk),
                           "`%s` (line %d) is the number of levels %s() recurses through and derives from %s: %d dominating comparison(s) on it"
                           % (T.pp(a)[:40], c.line, g.name, ",".join(sorted(src))[:60], len(chk)))
    rep.floor("C06.g disk-derived recursion depths", n_r, 1)

    # ------------------------------------------------------------------ C06.h a transfer loop survives a zero count
    # `while (count > 0) { r = read(fd, p, count); ...; count -= r; }` makes progress only by what the call returned.
    # read() returns 0 at the end of the file - a short or empty file is enough: with r == 0 the loop has to be left,
    # not taken again with nothing changed.  For every loop whose progress variable is advanced by the result of
    # read/pread, the outcome r == 0 of some test on r leads out of the loop.  (write() returning 0 for a non-zero
    # count is not something an input can bring about; the write loops of the tree are not held to this.)
    XFER = ("read", "pread", "pread64")
    n_h = 0
    seen_h = set()
    for pn in ("e2image", "mke2fs", "e2fsck", "debugfs", "resize2fs", "tune2fs", "e2undo"):
        prog = world.program(pn, plain=True)
        for fn in prog.functions():
            if fn.key in seen_h:
                continue
            seen_h.add(fn.key)
            xs = [n for n in fn.events("S") if isinstance(n.ev.get("rhs"), dict) and T.strip(n.ev["rhs"]).get("k") == "c"
                  and T.strip(n.ev["rhs"]).get("fn") in XFER and T.strip(n.ev["lhs"]).get("k") == "v"]
            for xn in xs:
                r = T.strip(xn.ev["lhs"])["n"]
                hb = loop_head(fn, xn)
                if hb is None:
                    continue
                body = natural_loops(fn)[hb]
                # the result advances something the loop is controlled by
                adv = [n for n in fn.events("S") if n in body and n.ev.get("o") in ("-=", "+=") and r in T.vars_in(n.ev.get("rhs") or {})
                       and T.strip(n.ev["lhs"]).get("k") == "v"]
                ctl = set()
                for bid in {n.bid for n in body}:
                    t_ = fn.blocks[bid].get("t")
                    if t_ and isinstance(t_.get("c"), dict) and any(m not in body for (m, si) in fn.succ(fn.block_end(bid))):
                        ctl |= T.vars_in(t_["c"])
                t_ = fn.blocks[hb].get("t")
                if t_ and isinstance(t_.get("c"), dict):
                    ctl |= T.vars_in(t_["c"])
                if not any(T.strip(n.ev["lhs"])["n"] in ctl for n in adv):
                    continue
                n_h += 1
                h0 = fn.node(hb, 0)
                leaves = unknown = False
                for bid in {n.bid for n in body}:
                    lit = fn.literal(bid)
                    if not lit or r not in T.vars_in(lit[0]):
                        continue
                    v = _truth_at_zero(lit[0], r)
                    if v is None:
                        unknown = True
                        continue
                    taken = 0 if v == lit[1] else 1
                    for (m, si) in fn.succ(fn.block_end(bid)):
                        if si != taken:
                            continue
                        if m not in body or any(x not in body for x in fn.reach([m], avoid=[h0])):
                            leaves = True
                rep.ob("C06.h", site(fn, "loop advanced by the result of %s() is left when it returns 0" % T.strip(xn.ev["rhs"])["fn"]),
                       leaves or unknown, "`%s` (line %d): with %s == 0 a test on it leads out of the loop: %s%s" %
                       (xn.text()[:40], xn.line, r, leaves, " (a test on it could not be evaluated)" if unknown and not leaves else ""))
    rep.floor("C06.h loops advanced by a transfer count", n_h, 2)

    # ------------------------------------------------------------------ C06.i a table's end marker is not one of its entries
    # Name tables end in a null entry for the loops that search them.  Where such a table is indexed directly with a
    # value that comes from outside (s_creator_os, a hash or checksum type, ...), the range test in front has to stop
    # short of the marker: `index < number of elements` lets the null through to strlen()/strcmp().
    n_tab = 0
    seen_i = set()
    for pn in ("dumpe2fs", "debugfs", "tune2fs", "e2fsck", "mke2fs"):
        prog = world.program(pn, plain=True)
        for fn in prog.functions():
            if fn.key in seen_i:
                continue
            seen_i.add(fn.key)
            for n in fn.nodes():
                if not n.ev:
                    continue
                exprs = [n.ev.get(k_) for k_ in ("x", "lhs", "rhs") if isinstance(n.ev.get(k_), dict)]
                for e in exprs:
                    for x, tern in _subscripts_with_conditions(e):
                        base, idx = T.strip(x.get("b") or x.get("a") or {}), T.strip(x.get("i") or {})
                        if not (isinstance(base, dict) and base.get("k") == "v" and base.get("s") == "g" and isinstance(idx, dict)
                                and idx.get("k") == "v" and idx.get("s") in ("p", "l")):
                            continue
                        gl = world.globals_named(base["n"], prog)
                        init = gl[0].get("init") if gl else None
                        if not (isinstance(init, dict) and init.get("k") == "arr" and init.get("e")):
                            continue
                        last = init["e"][-1]
                        if not (isinstance(last, dict) and last.get("k") == "i" and last.get("c") == 0 and
                                any(isinstance(y, dict) and y.get("k") == "s" for y in init["e"][:-1])):
                            continue
                        nel = len(init["e"])
                        # the largest index the dominating comparisons with constants admit
                        hi = None
                        for t, a_ in list(control_lits(fn, n)) + tern:
                            a0 = T.strip(a_)
                            if t is None or not (isinstance(a0, dict) and a0.get("k") == "b" and a0.get("o") in ("<", "<=", ">", ">=")):
                                continue
                            l_, r_, o_ = a0["l"], a0["r"], a0["o"]
                            if T.path(r_) == idx["n"]:
                                l_, r_, o_ = r_, l_, {"<": ">", "<=": ">=", ">": "<", ">=": "<="}[o_]
                            c_ = T.const(r_)
                            if T.path(l_) != idx["n"] or c_ is None:
                                continue
                            if not t:
                                o_ = {"<": ">=", "<=": ">", ">": "<=", ">=": "<"}[o_]
                            if o_ == "<":
                                hi = c_ - 1 if hi is None else min(hi, c_ - 1)
                            elif o_ == "<=":
                                hi = c_ if hi is None else min(hi, c_)
                        if hi is None:
                            continue        # bounded some other way (a loop over the table, a mask): not this rule's shape
                        n_tab += 1
                        rep.ob("C06.i", site(fn, "index into %s stops short of its end marker" % base["n"]), hi <= nel - 2,
                               "`%s[%s]` (line %d): the tests in front admit indices up to %d; the table has %d entries and a null marker at %d" %
                               (base["n"], idx["n"], n.line, hi, nel - 1, nel - 1))
    rep.floor("C06.i range-tested direct indices into null-terminated tables", n_tab, 1)

    # ------------------------------------------------------------------ C06.j debugfs: a function that allows for "no file system open" does so throughout
    # Several debugfs commands work without an open file system (logdump -f, dx_hash, ...).  A function that tests the
    # global current_fs for null somewhere holds the belief that it may be null; every dereference of current_fs in
    # that function then lies behind such a test (Engler's contradiction rule, frozen to this one global).
    n_j = 0
    dprog = world.program("debugfs", plain=True)
    for fn in dprog.functions():
        if not fn.file.startswith("debugfs/"):
            continue
        tests = [b for b in fn.blocks if fn.literal(b) and T.path(fn.literal(b)[0]) == "current_fs"]
        if not tests:
            continue
        for n in fn.nodes():
            if not n.ev:
                continue
            der = False
            for key in ("x", "lhs", "rhs"):
                e = n.ev.get(key)
                if isinstance(e, dict):
                    for x in T.walk(e):
                        if isinstance(x, dict) and x.get("k") == "m":
                            b_ = T.strip(x.get("b") or x.get("e") or {})
                            if isinstance(b_, dict) and b_.get("k") == "v" and b_.get("n") == "current_fs":
                                der = True
            lit = fn.literal(n.bid) if n is fn.block_end(n.bid) else None
            if lit and not der:
                for x in T.walk(lit[0]):
                    if isinstance(x, dict) and x.get("k") == "m":
                        b_ = T.strip(x.get("b") or x.get("e") or {})
                        if isinstance(b_, dict) and b_.get("k") == "v" and b_.get("n") == "current_fs":
                            der = True
            if not der:
                continue
            n_j += 1
            ok = any(t is True and T.path(a_) == "current_fs" for t, a_ in control_lits(fn, n)) or \
                fn.dominated_by(n, calls_to(fn, "check_fs_open", "common_args_process", "common_inode_args_process",
                                            "common_block_args_process"))
            # `current_fs && current_fs->x` and `current_fs ? current_fs->x : y`: the test is part of the same expression
            if not ok:
                txt = n.text() or ""
                ok = "current_fs &&" in txt or "current_fs ?" in txt
            rep.ob("C06.j", site(fn, "current_fs dereferenced only behind a test@%d" % (n.line - fn.raw.get("line", 0))), ok,
                   "`%s` (line %d): %s tests current_fs for null elsewhere, so it may be null here too" % ((n.text() or "")[:40], n.line, fn.name))
    rep.floor("C06.j dereferences of current_fs in functions that test it", n_j, 3)

    # ------------------------------------------------------------------ C06.k a buffer for inline data is as large as the inline area
    # ext2fs_inline_data_get() copies the whole inline area (60 bytes of i_block plus the system.data value), whatever
    # i_size says.  A caller that allocates the buffer itself sizes it from ext2fs_inline_data_size() or by whole
    # blocks - not from i_size, which the disk sets independently.
    n_k6 = 0
    seen_k = set()
    for pn in ("debugfs", "e2fsck", "mke2fs"):
        prog = world.program(pn, plain=True)
        for fn in prog.functions():
            if fn.key in seen_k:
                continue
            seen_k.add(fn.key)
            for c in calls_to(fn, "ext2fs_inline_data_get"):
                bv = T.path(arg(c, 3))
                if bv is None:
                    continue
                allocs = [a_ for a_ in calls_to(fn, "ext2fs_get_mem", "ext2fs_get_memzero", "malloc", "calloc", "ext2fs_get_array", "ext2fs_get_arrayzero")
                          if any(bv == T.path(T.strip(x).get("e") if isinstance(T.strip(x), dict) and T.strip(x).get("k") == "u" else x)
                                 for x in a_.ev["x"].get("a", []))] + \
                    [st for st in fn.events("S") if T.path(st.ev["lhs"]) == bv and
                     any(cc.get("fn") in ("malloc", "calloc") for cc in T.calls(st.ev.get("rhs") or {}))]
                for a_ in allocs:
                    if not fn.dominated_by(c, [a_]):
                        continue
                    n_k6 += 1
                    sz = (a_.ev["x"].get("a", [None])[0] if a_.ev["e"] == "C" else
                          (T.calls(a_.ev.get("rhs"))[0].get("a", [None])[0]))
                    outs = set()
                    for q in calls_to(fn, "ext2fs_inline_data_size"):
                        o_ = T.strip(arg(q, 2))
                        if isinstance(o_, dict) and o_.get("k") == "u":
                            outs.add(T.path(o_.get("e")))
                    by_area = isinstance(sz, dict) and (depends_on(fn, sz, lambda y: T.path(y) in outs) or
                                                         depends_on(fn, sz, lambda y: "blocksize" in T.field_names(y) or T.path(y) == "blocksize"))
                    by_isize = isinstance(sz, dict) and depends_on(fn, sz, lambda y: bool({"i_size", "i_size_high"} & T.field_names(y)))
                    rep.ob("C06.k", site(fn, "buffer for ext2fs_inline_data_get holds the whole inline area#%d" % n_k6), by_area and not by_isize,
                           "`%s` (line %d): size from ext2fs_inline_data_size()/the block size: %s; from i_size: %s" %
                           (a_.text()[:40], a_.line, by_area, by_isize))
    rep.floor("C06.k caller-allocated buffers handed to ext2fs_inline_data_get", n_k6, 1)

    # ------------------------------------------------------------------ C06.l a name appended to a path has room for its separator and its NUL
    # path_append() (misc/create_inode.c) keeps the path of the entry being copied for messages and appends
    # "/" + name with sprintf().  The test that decides whether the buffer must grow counts both extra bytes
    # (length so far + name + 2 against the size), or a name of the right length writes one byte past the end.
    mprog = world.program("mke2fs", plain=True)
    pa = mprog.fn("path_append", "misc/create_inode.c")
    grows = calls_to(pa, "realloc") + [n for n in pa.events("S") if any(cc.get("fn") == "realloc" for cc in T.calls(n.ev.get("rhs") or {}))]
    rep.floor("C06.l buffer growth in path_append", len(grows), 1)
    room = False
    for b in pa.blocks:
        lit = pa.literal(b)
        a0 = T.strip(lit[0]) if lit else None
        if not (isinstance(a0, dict) and a0.get("k") == "b" and a0.get("o") in ("<", "<=", ">", ">=")):
            continue
        l_, r_, o_ = a0["l"], a0["r"], a0["o"]
        if o_ in ("<", "<="):
            l_, r_, o_ = r_, l_, {"<": ">", "<=": ">="}[o_]
        fl_, fr_ = linear_form(l_, pa, depth=2), linear_form(r_, pa, depth=2)
        if fl_ is None or fr_ is None or not any("path_len" in str(k) for k in fl_) or not any("path_max_len" in str(k) for k in fr_):
            # strlen(file) is not a linear term: take the constant of the sum it stands in
            txt = T.pp(resolve_local(pa, l_))
            if "path_len" in txt and "path_max_len" in T.pp(r_):
                import re as _re2
                m_ = _re2.findall(r"\+ (\d+)\)", txt)
                c_ = sum(int(x) for x in m_) if m_ else 0
                room = room or (o_ == ">" and c_ >= 2) or (o_ == ">=" and c_ >= 1)
            continue
        c_ = fl_.get(1, 0) - fr_.get(1, 0)
        room = room or (o_ == ">" and c_ >= 2) or (o_ == ">=" and c_ >= 1)
    rep.ob("C06.l", site(pa, "growth test counts the separator and the NUL"), room,
           "the comparison of path_len + strlen(name) + K with path_max_len that guards the realloc has K >= 2")

    # ------------------------------------------------------------------ C06.m the checksum of an extent block is computed only over an accepted header
    # ext2fs_extent_block_csum_verify() finds the checksum tail at 12 + 12 * eh_max: it trusts the header.  For a
    # block that came from the disk that is only safe once ext2fs_extent_header_verify() has accepted it (eh_max no
    # larger than the block holds); verified the other way round, an eh_max of 0xffff reads 768 KiB past the buffer.
    lprog = world.program("debugfs", plain=True)
    n_m6 = 0
    for fn in lprog.fns_in_file("lib/ext2fs/extent.c"):
        ver = calls_to(fn, "ext2fs_extent_block_csum_verify") + \
            [fn.block_end(b) for b in fn.blocks if fn.literal(b) and
             any(cc.get("fn") == "ext2fs_extent_block_csum_verify" for cc in T.calls(fn.literal(b)[0]))]
        hv = calls_to(fn, "ext2fs_extent_header_verify") + \
            [n for n in fn.events("S") if any(cc.get("fn") == "ext2fs_extent_header_verify" for cc in T.calls(n.ev.get("rhs") or {}))]
        for i, v in enumerate(ver):
            n_m6 += 1
            rep.ob("C06.m", site(fn, "extent block checksummed only after its header was verified#%d" % i), bool(hv) and fn.dominated_by(v, hv),
                   "ext2fs_extent_header_verify() dominates ext2fs_extent_block_csum_verify() (line %d)" % v.line)
    rep.floor("C06.m checksum verifications of extent blocks in extent.c", n_m6, 1)

    # ------------------------------------------------------------------ C06.n the handle's buffer receives no more inline data than it holds
    # An ext2_file_t has a buffer of three blocks; ext2fs_inline_data_get() copies the whole inline area into the buffer
    # it is given, and with ea_inode the system.data value may be 64k.  In fileio.c every such copy into file->buf is
    # preceded by a comparison of the size reported by ext2fs_inline_data_size() with the block size.
    fprog = world.program("debugfs", plain=True)
    n_n6 = 0
    for fn in fprog.fns_in_file("lib/ext2fs/fileio.c"):
        for c in calls_to(fn, "ext2fs_inline_data_get"):
            if "buf" not in T.field_names(arg(c, 3) or {}):
                continue
            n_n6 += 1
            sized = calls_to(fn, "ext2fs_inline_data_size")
            outs = {T.path(T.strip(arg(q, 2)).get("e")) for q in sized if isinstance(T.strip(arg(q, 2)), dict) and T.strip(arg(q, 2)).get("k") == "u"} | \
                {T.path(arg(q, 2)) for q in sized}
            outs = {o_.lstrip("*") for o_ in outs if o_}
            cmp_ = [fn.block_end(b) for b in fn.blocks if fn.literal(b) and "blocksize" in T.field_names(fn.literal(b)[0]) and
                    ({v_.lstrip("*") for v_ in T.vars_in(fn.literal(b)[0])} & outs)]
            rep.ob("C06.n", site(fn, "inline area measured against the handle's buffer before it is copied#%d" % n_n6),
                   bool(cmp_) and fn.dominated_by(c, cmp_),
                   "a comparison of the size from ext2fs_inline_data_size() with the block size dominates `%s`" % c.text()[:40])
    rep.floor("C06.n copies of the inline area into file->buf", n_n6, 1)

    # C06.b cursor lifetime in the rbtree bitmap — shared with C16.b
    try:
        from rules import C16
        class _Sub:
            pass
    except ImportError:
        pass


def _cond_facts(c, truth):
    """comparison atoms known to hold (with their truth) when the condition c evaluates to `truth`"""
    c = T.strip(c)
    if not isinstance(c, dict):
        return []
    if c.get("k") == "u" and c.get("o") == "!":
        return _cond_facts(c.get("e"), not truth)
    if c.get("k") == "b" and c.get("o") == "&&":
        return _cond_facts(c["l"], True) + _cond_facts(c["r"], True) if truth else []
    if c.get("k") == "b" and c.get("o") == "||":
        return _cond_facts(c["l"], False) + _cond_facts(c["r"], False) if not truth else []
    return [(truth, c)]


def _subscripts_with_conditions(e, conds=()):
    """(subscript node, [(truth, atom)] from the conditional expressions it sits in) for every subscript in e"""
    e0 = e
    if not isinstance(e0, dict):
        return
    if e0.get("k") == "x":
        yield e0, list(conds)
    if e0.get("k") == "?":
        yield from _subscripts_with_conditions(e0.get("c0"), conds)
        yield from _subscripts_with_conditions(e0.get("t"), tuple(conds) + tuple(_cond_facts(e0.get("c0"), True)))
        yield from _subscripts_with_conditions(e0.get("f"), tuple(conds) + tuple(_cond_facts(e0.get("c0"), False)))
        return
    for ch in T.children(e0):
        yield from _subscripts_with_conditions(ch, conds)


def _truth_at_zero(atom, r):
    """truth of a comparison literal when the variable r is 0 (None when it is not of a form that decides it)"""
    a = T.strip(atom)
    if not isinstance(a, dict):
        return None
    if a.get("k") == "v" and a.get("n") == r:
        return False
    if a.get("k") == "b" and a.get("o") in ("<", "<=", ">", ">=", "==", "!="):
        l, rr = T.strip(a.get("l")), T.strip(a.get("r"))
        lv = 0 if (isinstance(l, dict) and l.get("k") == "v" and l.get("n") == r) else T.const(l)
        rv = 0 if (isinstance(rr, dict) and rr.get("k") == "v" and rr.get("n") == r) else T.const(rr)
        if lv is None or rv is None:
            return None
        return {"<": lv < rv, "<=": lv <= rv, ">": lv > rv, ">=": lv >= rv, "==": lv == rv, "!=": lv != rv}[a["o"]]
    return None


def _all_scope_fns(world):
    out = set()
    for (file, names) in SCOPE:
        prog = world.program(PROGRAM_OF.get(file, "e2fsck"), plain=True)
        for f in prog.fns_in_file(file):
            out.add("%s:%s" % (f.file, f.name))
    return out


if __name__ == "__main__":
    import sys
    sys.path.insert(0, os.path.dirname(HERE))
    from vlib import engine
    print(write_ref(engine.World()))
