"""C05 — e2fsck never alters healthy files: gating and layering clauses.  DESIGN.md §4 C05."""
from vlib import tree as T
from vlib import effects, gating, problems
from vlib.rulelib import *
from vlib.engine import Broken, line_path

EXPLANATION = (
    "GATED-EFFECT / WHO / GUARD rules over e2fsck passes 1-5, super.c and badblocks.c: (a) every call that changes "
    "persistent metadata (inode, directory-block, xattr, extent writers, allocation statistics, descriptor setters, dirty "
    "marks, raw block writes) executes only after a problem was reported and its fix accepted — directly, through a flag that is "
    "only ever set on accepted answers, through a helper that returns such an answer, or because every call site of the "
    "enclosing function is gated — or sits in an explicitly requested mode or on a listed path (orphan processing, "
    "read-only-gated bookkeeping), each exemption naming its reason; on a consistent filesystem no problem is raised, so no "
    "gated mutator runs; (b) no function of pass5.c reaches an inode, directory-block, extent or xattr writer; (c) a "
    "checksum-only mismatch of a directory leaf / inode leads to rewriting (checksum recomputed), not to clearing; (d) wherever "
    "two extents are merged, the merge is conditional on their UNINIT flags being equal; (e) the counters behind the inode scan's per-block "
    "'mostly garbage' verdict are zeroed whenever the scan leaves an inode-table block; (f) a library request whose failure a "
    "pass discards without a report, and which can fail with a checksum error, is made with checksum errors ignored.  Decides gating and layering on every "
    "path; not that -D / extent rebuilding preserve names and bytes.")

FILES = ("e2fsck/pass1.c", "e2fsck/pass1b.c", "e2fsck/pass2.c", "e2fsck/pass3.c", "e2fsck/pass4.c", "e2fsck/pass5.c",
         "e2fsck/super.c", "e2fsck/badblocks.c")
MUT = ("ext2fs_write_inode", "ext2fs_write_inode_full", "ext2fs_write_new_inode", "e2fsck_write_inode", "e2fsck_write_inode_full",
       "ext2fs_write_dir_block4", "ext2fs_write_dir_block3", "ext2fs_write_ext_attr3", "ext2fs_write_ext_attr2",
       "io_channel_write_blk64", "io_channel_write_blk", "ext2fs_link", "ext2fs_unlink", "ext2fs_punch", "ext2fs_extent_replace",
       "ext2fs_extent_insert", "ext2fs_extent_delete", "ext2fs_extent_set_bmap", "ext2fs_extent_fix_parents",
       "ext2fs_block_alloc_stats2", "ext2fs_inode_alloc_stats2", "ext2fs_block_alloc_stats_range", "e2fsck_clear_inode",
       "deallocate_inode", "ext2fs_bg_flags_set", "ext2fs_bg_flags_clear", "ext2fs_bg_free_blocks_count_set",
       "ext2fs_bg_free_inodes_count_set", "ext2fs_bg_used_dirs_count_set", "ext2fs_bg_itable_unused_set",
       "ext2fs_group_desc_csum_set", "ext2fs_mark_super_dirty", "ext2fs_mark_bb_dirty", "ext2fs_mark_ib_dirty",
       "ext2fs_new_dir_block", "ext2fs_zero_blocks2", "e2fsck_rehash_dir", "e2fsck_rebuild_extents_later",
       "ext2fs_adjust_ea_refcount3", "ext2fs_set_gdt_csum", "e2fsck_reconnect_file", "e2fsck_expand_directory",
       "e2fsck_adjust_inode_count", "fix_dotdot", "ext2fs_inline_data_set", "ext2fs_xattr_set", "ext2fs_xattr_remove",
       "ext2fs_xattrs_write", "write_and_fix", "ext2fs_create_orphan_file", "ext2fs_truncate_orphan_file")

# literals that put a site into an explicitly requested rewriting mode or behind the read-write test
MODE_BITS = {
    "E2F_OPT_CONVERT_BMAP": "-E bmap2extent was requested",
    "E2F_OPT_COMPRESS_DIRS": "-D was requested",
    "E2F_OPT_UNSHARE_BLOCKS": "-E unshare_blocks was requested",
    "E2F_OPT_DISCARD": "-E discard was requested",
}

# helpers that return non-zero only after fix_problem() said yes, but through a value-set idiom the derivation
# does not follow (`fixup` starts at -1, is replaced by the answer, `return 0` when the answer is 0); read on the pinned tree
REVIEWED_ANSWER_FNS = {
    "check_name": "ret = 1 only after fixup = fix_problem(PR_2_BAD_NAME) returned non-zero",
    "encoded_check_name": "ret = fix_problem(PR_2_BAD_ENCODED_NAME) || check_name()",
    "check_dotdot": "returns 1 only inside `if (fix_problem(ctx, problem, pctx))`; -1 aborts the pass",
}

# (file, function, callee) -> reason.  Every entry was read on the pinned tree.
EXEMPT = {
    # orphan processing: journaled-fs semantics, skipped when read-only (check_super_block tests E2F_OPT_READONLY first)
    ("e2fsck/super.c", "release_inode_block", "*"): ("orphan inode truncation the kernel left unfinished", True),
    ("e2fsck/super.c", "release_inode_blocks", "*"): ("orphan inode truncation", True),
    ("e2fsck/super.c", "release_orphan_inode", "*"): ("orphan inode release", True),
    ("e2fsck/super.c", "process_orphan_block", "*"): ("orphan file processing", True),
    ("e2fsck/super.c", "process_orphan_file", "*"): ("orphan file processing", True),
    ("e2fsck/super.c", "release_orphan_inodes", "*"): ("orphan list processing", True),
    ("e2fsck/super.c", "reinit_orphan_block", "*"):
        ("re-initialises orphan-file blocks after the orphans were processed (not file data); the caller in main runs it "
         "for a present orphan file", False),
    ("e2fsck/super.c", "check_super_block", "ext2fs_mark_super_dirty"):
        ("clears EXT2_VALID_FS after orphan processing / when group tables are invalid: bookkeeping of a run that found "
         "something", True),
    ("e2fsck/super.c", "check_super_block", "ext2fs_group_desc_csum_set"):
        ("`should_be` is reset to 0 at the top of every loop iteration and set to 1 only inside accepted fix_problem arms "
         "(the variable is reused from an unrelated size computation earlier in the function)", False),
    ("e2fsck/super.c", "check_resize_inode", "ext2fs_mark_super_dirty"):
        ("error arm resize_inode_invalid: the resize inode was found invalid; VALID_FS is dropped so the next run is full", True),
    ("e2fsck/pass1.c", "e2fsck_pass1", "ext2fs_mark_super_dirty"):
        ("s_last_orphan cleared when it is non-zero (an orphan list is pending); pass 1 finds those inodes itself", True),
    ("e2fsck/pass1.c", "e2fsck_pass1", "e2fsck_write_inode"):
        ("resize inode recreated when E2F_FLAG_RESIZE_INODE is set: accepted PR_0_RESIZE_INODE_INVALID or inode 7 unreadable", False),
    ("e2fsck/pass1.c", "new_table_block", "*"):
        ("relocates a bitmap/inode table whose location is 0 (ctx->invalid_bitmaps): set by an accepted PR_0_*_NOT_GROUP "
         "fix or found on disk - an inconsistency reported by PR_1_RELOC_*", False),
    ("e2fsck/pass1.c", "e2fsck_get_alloc_block", "*"):
        ("allocation callback registered with the library: runs only when a repair allocates a block", False),
    ("e2fsck/pass2.c", "clear_htree", "*"):
        ("htree index dropped when its block failed the checksum and the directory is already scheduled for rebuild "
         "(e2fsck_dir_will_be_rehashed); every other way in is an accepted fix_problem", False),
    ("e2fsck/pass3.c", "expand_dir_proc", "*"):
        ("directory expansion for the htree rebuild of directories queued in ctx->dirs_to_hash (PR_3A_OPTIMIZE_DIR*; "
         "names unchanged is not decided here) or for lost+found under an accepted problem", False),
    ("e2fsck/pass3.c", "e2fsck_expand_directory", "*"): ("same as expand_dir_proc", False),
}


def run(world, rep, tier, only=None):
    # the gating analysis classifies helpers by what they return ("answer functions"), so it looks at
    # the functions as written, not with anonymous helpers absorbed into their callers
    prog = world.program("e2fsck", plain=True)
    G = gating.Gating(prog, mode_bits=tuple(MODE_BITS), reviewed_answer_fns=tuple(REVIEWED_ANSWER_FNS))
    for nm in REVIEWED_ANSWER_FNS:
        if not prog.has_fn(nm):
            raise Broken("reviewed answer function %s vanished" % nm)
    rep.extra["gated_context_flag_bits"] = sorted(G.gated_bits)
    rep.extra["answer_functions"] = sorted(G.answer_fns)
    rep.extra["gated_flag_fields"] = sorted("%s.%s" % f for f in G.gated_fields)

    def stop(fn, node):
        """accepted non-problem reasons at some level of the call chain"""
        lits = [(t, resolve_local(fn, a)) for t, a in control_lits(fn, node)]
        for (t, a) in lits:
            for mb, why in MODE_BITS.items():
                if t and lit_tests_bit(a, mb, "options"):
                    return why
        return None

    # ------------------------------------------------------------------ C05.a
    n_sites = 0
    n_exempt = 0
    for fn in prog.functions():
        if fn.file not in FILES:
            continue
        seq = {}
        for n in fn.call_nodes():
            if not is_call(n, *MUT):
                continue
            nm = next(x for x in T.call_names(n.ev["x"]) if x in MUT)
            i = seq.get(nm, 0)
            seq[nm] = i + 1
            n_sites += 1
            key = (fn.file, fn.name, nm)
            ok, why = G.gated(fn, n, stop=stop)
            if not ok and not ((fn.file, fn.name, "*") in EXEMPT or key in EXEMPT):
                # a file-local helper cut out of a listed function: the listing of its only caller holds for it
                hf, hops = fn, 0
                while hops < 2 and hf.static:
                    cfs = {cf.key: cf for (cf, _cn) in G.call_sites(hf)}
                    if len(cfs) != 1:
                        break
                    hf = list(cfs.values())[0]
                    hops += 1
                    k2 = (hf.file, hf.name, nm)
                    if k2 in EXEMPT or (hf.file, hf.name, "*") in EXEMPT:
                        key = k2 if k2 in EXEMPT else (hf.file, hf.name, "*")
                        EXEMPT.setdefault((fn.file, fn.name, nm), EXEMPT[key])
                        key = (fn.file, fn.name, nm)
                        break
            if not ok and ((fn.file, fn.name, "*") in EXEMPT or key in EXEMPT):
                # exempted paths must really be behind the read-only test
                reason, need_ro = EXEMPT.get(key) or EXEMPT[(fn.file, fn.name, "*")]
                n_exempt += 1
                if need_ro:
                    ro_ok = _behind_readonly(prog, G, fn, n)
                    rep.ob("C05.a", site(fn, "%s#%d exempt path is read-only-gated" % (nm, i)), ro_ok,
                           "%s; reached only under !(options & E2F_OPT_READONLY)" % reason)
                else:
                    rep.ob("C05.a", site(fn, "%s#%d listed exemption" % (nm, i)), True, reason)
                continue
            rep.ob("C05.a", site(fn, "%s#%d problem-gated" % (nm, i)), ok,
                   "`%s` at %s: %s" % (n.text()[:50], n.where(), why))
    rep.floor("C05.a mutator call sites", n_sites, 150)
    rep.extra["exempt_sites"] = n_exempt

    # ------------------------------------------------------------------ C05.b pass 5 only rewrites summaries
    WRITERS = ("ext2fs_write_inode", "ext2fs_write_inode_full", "ext2fs_write_inode2", "ext2fs_write_dir_block4",
               "ext2fs_write_dir_block3", "ext2fs_write_ext_attr3", "ext2fs_extent_replace", "ext2fs_extent_insert",
               "ext2fs_extent_delete", "ext2fs_xattrs_write", "ext2fs_link", "ext2fs_unlink", "ext2fs_punch")

    REPORTING = ("print_e2fsck_message", "ext2fs_get_pathname", "print_pathname", "com_err", "log_out", "log_err")

    def reaches_writer(files):
        hit = []
        seen = set()
        st = [f for f in prog.functions() if f.file in files]
        roots = list(st)
        while st:
            f = st.pop()
            if f.key in seen:
                continue
            seen.add(f.key)
            if f.name in REPORTING:
                continue    # message formatting: resolves path names with read-only directory iteration
            for (n, g) in prog.callees_cs(f):
                if g.name in WRITERS:
                    hit.append((f, n, g))
                if g.key not in seen and (g.file.startswith("e2fsck/") or g.file.startswith("lib/")):
                    # stay out of the generic close/flush machinery: not called from pass 5
                    st.append(g)
        return hit, len(seen)
    hit5, n5 = reaches_writer(("e2fsck/pass5.c",))
    rep.ob("C05.b", "e2fsck/pass5.c:*:no inode/dir/extent/xattr writer reachable", not hit5,
           "%d functions reachable from pass5.c; writers reached: %s" %
           (n5, [(f.name, n.line, g.name) for f, n, g in hit5[:4]]))
    hit2, n2 = reaches_writer(("e2fsck/pass2.c",))
    rep.ob("C05.b", "e2fsck/pass2.c:*:positive control (pass 2 does reach writers)", bool(hit2),
           "the same query on pass2.c finds %d writer call sites" % len(hit2))

    # ------------------------------------------------------------------ C05.c checksum-only mismatch is not destruction
    cdb = prog.fn("check_dir_block", "e2fsck/pass2.c")
    fps = [n for n in calls_to(cdb, "fix_problem") if arg_has_macro(n, 1, "PR_2_LEAF_NODE_ONLY_CSUM_INVALID")]
    rep.ob("C05.c", site(cdb, "leaf checksum-only mismatch is a separate problem"), bool(fps),
           "PR_2_LEAF_NODE_ONLY_CSUM_INVALID is raised")
    for f in fps:
        lits = [b for b in cdb.blocks if cdb.literal(b) and any(c.get("id") == f.ev["x"].get("id") for c in T.calls(cdb.literal(b)[0]))]
        ok = False
        for b in lits:
            lit = cdb.literal(b)
            si = 0 if lit[1] else 1
            succ = cdb.blocks[b]["s"][si]
            arm = cdb.reach([cdb.node(succ, 0)])
            wr = [x for x in arm if is_call(x, "write_and_fix", "ext2fs_write_dir_block4")]
            # between the accepted answer and the write no clearing/salvage
            first_w = None
            destroy = [x for x in cdb.reach([cdb.node(succ, 0)], avoid=set(wr)) if
                       is_call(x, "e2fsck_clear_inode", "deallocate_inode", "salvage_directory")]
            ok = bool(wr) and not destroy
        rep.ob("C05.c", site(cdb, "accepted leaf checksum fix rewrites the block"), ok,
               "the accepted arm reaches the directory-block writer without passing e2fsck_clear_inode / salvage")
    rb = prog.fn("recheck_bad_inode_checksum", "e2fsck/pass1.c")
    fps = [n for n in calls_to(rb, "fix_problem") if arg_has_macro(n, 1, "PR_1_INODE_ONLY_CSUM_INVALID")]
    rep.ob("C05.c", site(rb, "inode checksum-only mismatch is a separate problem"), bool(fps), "PR_1_INODE_ONLY_CSUM_INVALID is raised")
    for f in fps:
        after = rb.reach(rb.after(f))
        wr = [x for x in after if is_call(x, "ext2fs_write_inode_full", "e2fsck_write_inode_full", "e2fsck_write_inode")]
        destroy = [x for x in after if is_call(x, "e2fsck_clear_inode", "deallocate_inode")]
        rep.ob("C05.c", site(rb, "accepted inode checksum fix rewrites the inode"), bool(wr) and not destroy,
               "inode writer reached, e2fsck_clear_inode not reachable")

    # ------------------------------------------------------------------ C05.d extent merges respect the unwritten flag
    n_merge = 0
    for file in ("e2fsck/extents.c", "lib/ext2fs/extent.c"):
        for fn in prog.fns_in_file(file):
            for n in fn.events("S"):
                lf = T.last_field(n.ev["lhs"])
                if lf != ("ext2fs_extent", "e_len") or n.ev["o"] != "+=":
                    continue
                rhs = n.ev.get("rhs") or {}
                if ("ext2fs_extent", "e_len") not in T.fields(rhs):
                    continue        # growing by a block count, not merging two extents
                n_merge += 1
                lits = control_lits(fn, n)
                ok = False
                for (t, a) in lits:
                    a0 = T.strip(a)
                    if t and isinstance(a0, dict) and a0.get("k") == "b" and a0.get("o") == "==":
                        l, r = T.bits_test(a0["l"]), T.bits_test(a0["r"])
                        if l and r and "EXT2_EXTENT_FLAGS_UNINIT" in l[2] and "EXT2_EXTENT_FLAGS_UNINIT" in r[2] and \
                                T.last_field(l[0]) == ("ext2fs_extent", "e_flags") and T.last_field(r[0]) == ("ext2fs_extent", "e_flags") \
                                and T.path(l[0]) != T.path(r[0]):
                            ok = True
                rep.ob("C05.d", site(fn, "extent merge requires equal UNINIT flags"), ok,
                       "`%s` is conditional on (a.e_flags & UNINIT) == (b.e_flags & UNINIT): %s" %
                       (n.text()[:40], [("" if t else "!") + T.pp(a)[:60] for t, a in lits][:4]))
    rep.floor("C05.d extent merge sites", n_merge, 1)

    # ------------------------------------------------------------------ C05.e per-block verdicts use per-block counters
    # The inode scan declares a whole inode-table block garbage ("more than half the inodes are bad")
    # and e2fsck then offers to clear every inode in it.  The counters that feed that verdict must be
    # reset whenever the scan moves on to the next block, or damage spread thinly over several blocks
    # condemns the healthy inodes of a later one.
    lib = world.program("e2fsck")
    cs = lib.fn("check_inode_block_sanity", "lib/ext2fs/inode.c")
    verdicts = [n for n in cs.events("S") if T.path(n.ev["lhs"]) == "block_status" and
                T.strip(n.ev["lhs"]).get("k") in ("x", "u")]
    rep.floor("C05.e per-block verdict stores in check_inode_block_sanity", len(verdicts), 2)
    def is_reset(n, name):
        return T.path(n.ev["lhs"]) == name and n.ev.get("o") == "=" and (T.const(n.ev.get("rhs")) == 0 or _chain_zero(n))
    bumped = {T.path(n.ev["lhs"]) for n in cs.events("S") if n.ev.get("o") in ("++", "+=")}
    zeroed = {T.path(n.ev["lhs"]) for n in cs.events("S") if is_reset(n, T.path(n.ev["lhs"]))}
    counters = set()
    per_verdict = []
    for v in verdicts:
        hb = loop_head(cs, v)
        if hb is None:
            continue
        body = cs.reach([cs.node(cs.blocks[hb]["s"][0], 0)], avoid=[cs.block_end(hb)])
        inloop = [(bid, t, a) for (bid, t, a) in cs.control_literals(v) if cs.block_end(bid) in body]
        for (bid, t, a) in inloop:
            counters |= {x for x in T.vars_in(a) if x in bumped and x in zeroed}
        per_verdict.append((v, hb, body, inloop))
    rep.floor("C05.e verdict counters", len(counters), 1)
    for (v, hb, body, inloop) in per_verdict:
        # the point at which the scan is done with the block: the innermost condition of the verdict
        # that does not read a counter ("this was the last inode of the block"); the verdict store
        # itself when every condition reads counters ("more than half are bad: skip the rest")
        def depth(bid):
            return len([1 for (b2, _t, _a) in cs.control_literals(cs.block_end(bid)) if cs.block_end(b2) in body])
        plain = [(bid, t, a) for (bid, t, a) in inloop if not (T.vars_in(a) & counters)]
        if plain:
            bid, t, a = max(plain, key=lambda x: depth(x[0]))
            lit = cs.literal(bid)
            si = 0 if (t == lit[1]) else 1
            starts = [m for (m, i) in cs.succ(cs.block_end(bid)) if i == si]
            what = "%s%s" % ("" if t else "!", T.pp(a)[:40])
        else:
            starts = cs.after(v)
            what = "the verdict `%s`" % v.text()[:40]
        head0 = cs.node(hb, 0)
        for c in sorted(counters):
            resets = [n for n in cs.events("S") if is_reset(n, c)]
            r = cs.reach([s for s in starts if s not in resets], avoid=resets)
            leak = head0 in r
            rep.ob("C05.e", site(cs, "%s reset when the scan leaves a block after %s" % (c, what)),
                   not leak, "every path from there back to the loop head stores %s = 0 (counters feeding the per-block "
                   "verdicts: %s)" % (c, sorted(counters)))

    # ------------------------------------------------------------------ C05.f a checksum-only defect does not silently change what is processed
    # Where a pass asks the library for something, the request can fail with *_CSUM_INVALID, and the failure is
    # discarded without a report (errcode = 0; return), the request must be made with checksum errors ignored:
    # pass 1 deals with the checksum itself ("passes checks, but checksum does not match"), and skipping the rest
    # of the inode's processing would send its healthy children to lost+found.
    plain = prog
    may_csum = plain.may(lambda f_, n_: n_.ev and f_.file.startswith("lib/ext2fs") and any(
        m_.endswith("_CSUM_INVALID") for m_ in T.macros(n_.ev.get("x") or n_.ev.get("rhs") or {})))
    n_sw = 0
    for f_ in plain.functions():
        if not f_.file.startswith("e2fsck/pass"):
            continue
        for n_ in f_.events("S"):
            lhs = T.path(n_.ev["lhs"])
            if not lhs or not (lhs.endswith("errcode") or lhs in ("retval", "err")):
                continue
            if n_.ev.get("o") != "=" or T.const(n_.ev.get("rhs")) != 0:
                continue
            ctl = [(b_, t_, a_) for (b_, t_, a_) in f_.control_literals(n_) if t_ and T.path(a_) == lhs]
            if not ctl:
                continue
            litend = f_.block_end(ctl[-1][0])
            stores_ = [m_ for m_ in f_.events("S") if T.path(m_.ev["lhs"]) == lhs and m_ is not n_]
            for m_ in stores_:
                r0 = T.strip(m_.ev.get("rhs")) if isinstance(m_.ev.get("rhs"), dict) else None
                if not (isinstance(r0, dict) and r0.get("k") == "c" and r0.get("fn")):
                    continue
                others = [x_ for x_ in stores_ if x_ is not m_]
                if litend not in f_.reach(f_.after(m_), avoid=others) or not f_.dominated_by(litend, [m_]):
                    continue
                if not any(g_.key in may_csum for g_ in plain.lookup(r0["fn"], f_)):
                    continue
                reported = [c_ for c_ in calls_to(f_, "fix_problem") if c_ in f_.reach(f_.after(m_), avoid=[n_]) and
                            n_ in f_.reach(f_.after(c_))]
                if reported:
                    rep.examined()
                    continue
                n_sw += 1
                sets = [s_ for s_ in f_.events("S") if T.last_field(s_.ev["lhs"]) and T.last_field(s_.ev["lhs"])[1] == "flags"
                        and store_sets_bits(s_, "EXT2_FLAG_IGNORE_CSUM_ERRORS")]
                rep.ob("C05.f", site(f_, "silently discarded failure of %s is asked for with checksum errors ignored" % r0["fn"]),
                       bool(sets) and f_.dominated_by(m_, sets),
                       "fs->flags |= EXT2_FLAG_IGNORE_CSUM_ERRORS dominates the call whose error is dropped at line %d without "
                       "a fix_problem()" % n_.line)
    rep.floor("C05.f silently discarded library failures that may be checksum errors", n_sw, 1)

    # ------------------------------------------------------------------ C05.h names are compared case-insensitively only in a casefold directory
    # e2fsck -D sorts and de-duplicates the names of a directory; on a casefold file system only the directories that
    # carry EXT4_CASEFOLD_FL fold case.  The comparator context must get its folding table (and its flag) under a
    # test of that inode flag - set for every directory it makes `Makefile` and `makefile` duplicates and renames one.
    rd_ = prog.fn("e2fsck_rehash_dir", "e2fsck/rehash.c")
    n_cf = 0
    for st in rd_.events("S"):
        lhs0 = T.strip(st.ev["lhs"])
        rhs = st.ev.get("rhs")
        if not isinstance(rhs, dict):
            continue
        vals = []
        if isinstance(lhs0, dict) and lhs0.get("k") == "m" and lhs0.get("r") == "name_cmp_ctx":
            vals = [rhs]
        elif isinstance(T.strip(rhs), dict) and T.strip(rhs).get("k") == "rec" and T.strip(rhs).get("r") == "name_cmp_ctx":
            vals = list((T.strip(rhs).get("f") or {}).values())
        for v in vals:
            if T.const(v) == 0:
                continue        # "compare bytes"
            n_cf += 1
            lits = control_lits(rd_, st)
            ok = any(t and "EXT4_CASEFOLD_FL" in T.macros(a) and "i_flags" in T.field_names(a) for t, a in lits)
            rep.ob("C05.h", site(rd_, "case folding enabled only under the directory's EXT4_CASEFOLD_FL#%d" % n_cf), ok,
                   "`%s` (line %d) puts `%s` into the comparator context under %s" %
                   (st.text()[:40], st.line, T.pp(v)[:30], [("" if t else "!") + T.pp(a)[:40] for t, a in lits][-2:]))
    rep.floor("C05.h stores that enable case folding in e2fsck_rehash_dir", n_cf, 1)

    # ------------------------------------------------------------------ C05.g extent pieces advance in both address spaces
    # when e2fsck rebuilds an extent tree it cuts runs longer than the on-disk maximum into pieces: every piece starts
    # where the previous one ended, logically *and* physically
    pc = paired_cursor_updates([f_ for f_ in lib.functions() if f_.file in ("e2fsck/extents.c", "e2fsck/journal.c", "e2fsck/pass1.c")],
                               "ext2fs_extent", "e_lblk", "e_pblk")
    rep.floor("C05.g compound updates of extent start fields in e2fsck", len(pc), 4)
    for (f_, n_, fld, ok) in pc:
        rep.ob("C05.g", site(f_, "`%s` moves together with its twin#%d" % (T.pp(n_.ev["lhs"])[:30], _ordn(f_, n_))), ok,
               "`%s` has the same update of the other start field in the same block" % n_.text()[:40])

    # ------------------------------------------------------------------ C05.i the index is written into the room it was measured against
    # calculate_tree() decides from the number of leaf blocks whether their index entries fit the root (or one level of
    # interior nodes) and then writes one entry per leaf.  The quantity compared with the capacity and the number of
    # turns of the writing loop are the same number: one more turn than was measured writes an entry over the start of
    # the first leaf (or over the root's checksum tail) - a file's directory entry is gone after a run that reported
    # success.
    ct = lib.fn("calculate_tree", "e2fsck/rehash.c")
    n_lp = 0
    for hb in sorted(natural_loops(ct)):
        tc = loop_trip_count(ct, hb)
        if tc is None:
            continue
        iv, trip = tc
        tv = {k for k in trip if k != 1}
        if not tv:
            continue
        # the capacity test that admits this loop: a controlling literal `L <= cap` / `L < cap` over the same variable
        for t, a_ in control_lits(ct, ct.block_end(hb)):
            a0 = T.strip(a_)
            if not (t is True and isinstance(a0, dict) and a0.get("k") == "b" and a0.get("o") in ("<=", "<")):
                continue
            lf = linear_form(a0.get("l"), ct)
            if lf is None or not ({k for k in lf if k != 1} & tv) or iv in {k for k in lf if k != 1}:
                continue
            n_lp += 1
            want = dict(trip)
            if a0["o"] == "<":
                want[1] = want.get(1, 0) + 1      # L < cap  <=>  L + 1 <= cap ... compared as  L <= cap - 1
            same = {k: v for k, v in lf.items() if v != 0} == {k: v for k, v in (trip if a0["o"] == "<=" else
                                                                                  {**trip, 1: trip.get(1, 0) + 1}).items() if v != 0}
            rep.ob("C05.i", site(ct, "entries written = entries measured#%d" % n_lp), same,
                   "loop at line %d makes %s turns; the capacity test in front of it measures %s" %
                   (ct.block_end(hb).line, _fmt_lin(trip), _fmt_lin(lf)))
    rep.floor("C05.i counting loops behind a capacity test in calculate_tree", n_lp, 2)

    # ------------------------------------------------------------------ C05.j an inline directory whose EA part holds exactly one entry is healthy
    # pass 2 treats the EA part of an inline directory as too small when it cannot hold a directory entry
    # (EXT2_DIR_REC_LEN(1)), offers PR_2_BAD_INLINE_DIR_SIZE and truncates to the in-inode part.  A part of exactly that
    # size holds one entry: at equality neither the problem nor the truncation is reachable.
    plib = world.program("e2fsck", plain=True)
    p2 = {f.name: f for f in plib.fns_in_file("e2fsck/pass2.c")}
    n_eq = 0

    def is_cmp(a0):
        return isinstance(a0, dict) and a0.get("k") == "b" and a0.get("o") in ("<", "<=", ">", ">=") and "EXT2_DIR_REC_LEN" in T.macros(a0)
    # helpers of the file that answer the question with `return <comparison>`: name -> value returned at equality
    answers = {}
    for g in p2.values():
        for r_ in g.events("R"):
            x = T.strip(r_.ev.get("x") or {})
            if is_cmp(x):
                answers[g.name] = x["o"] in ("<=", ">=")
    for fname, is_target in (("check_dir_block", lambda f, n: is_call(n, "fix_problem") and "PR_2_BAD_INLINE_DIR_SIZE" in T.macros(arg(n, 1) or {})),
                             ("fix_inline_dir_size", lambda f, n: n.ev and n.ev["e"] == "S" and "EXT4_MIN_INLINE_DATA_SIZE" in T.macros(n.ev.get("rhs") or {})
                              and T.strip(n.ev["rhs"]).get("k") != "b")):
        f = p2[fname]
        targets = [n for n in f.nodes() if n.ev and is_target(f, n)]
        for b in sorted(f.blocks):
            lit = f.literal(b)
            a0 = T.strip(lit[0]) if lit else None
            if is_cmp(a0):
                holds_at_eq, shown = a0["o"] in ("<=", ">="), T.pp(a0)[:60]
            elif isinstance(a0, dict) and a0.get("k") == "c" and a0.get("fn") in answers:
                holds_at_eq, shown = answers[a0["fn"]], "%s() [returns %d at equality]" % (a0["fn"], answers[a0["fn"]])
            else:
                continue
            n_eq += 1
            end_ = f.block_end(b)
            taken = [m for (m, si) in f.succ(end_) if ((si == 0) == lit[1]) == holds_at_eq]
            r = f.reach(taken)
            hit = [t_.line for t_ in targets if t_ in r]
            rep.ob("C05.j", site(f, "a part of exactly one entry's size is not too small@%d" % (end_.line - f.raw.get("line", 0))), not hit,
                   "`%s`: with the two sides equal control goes where neither PR_2_BAD_INLINE_DIR_SIZE nor the truncation lies: %s" %
                   (shown, hit))
    rep.floor("C05.j comparisons with EXT2_DIR_REC_LEN in the inline directory checks", n_eq, 2)

    # ------------------------------------------------------------------ C05.k every block of a rebuilt directory is mapped before it is written
    # write_directory() writes the rebuilt blocks with a walk over the directory's *mapped* blocks, so it first makes
    # the mapping as long as the rebuilt directory (e2fsck_expand_directory to outdir->num).  That call is not a matter
    # of sizes - clusters allocated beyond i_size are not mapped - : it comes before the walk on every path.
    wdir = prog.fn("write_directory", "e2fsck/rehash.c")
    walk = calls_to(wdir, "ext2fs_block_iterate3", "ext2fs_block_iterate2")
    expd = calls_to(wdir, "e2fsck_expand_directory")
    rep.floor("C05.k block walk in write_directory", len(walk), 1)
    for i, w_ in enumerate(walk):
        rep.ob("C05.k", site(wdir, "mapping extended to the rebuilt length before the blocks are written#%d" % i),
               bool(expd) and wdir.dominated_by(w_, expd),
               "e2fsck_expand_directory() lies on every path to the walk that writes the blocks (line %d)" % w_.line)


def _fmt_lin(f):
    return " + ".join(("%s" % v if k == 1 else ("%s" % k if v == 1 else "%d*%s" % (v, k))) for k, v in sorted(f.items(), key=lambda kv: str(kv[0])) if v != 0) or "0"


def _chain_zero(n):
    """`a = b = 0` is reported as a store whose rhs is the inner assignment"""
    r = T.strip(n.ev.get("rhs"))
    while isinstance(r, dict) and r.get("k") == "b" and r.get("o") == "=":
        r = T.strip(r.get("r"))
    return isinstance(r, dict) and T.const(r) == 0


def _behind_readonly(prog, G, fn, node, depth=0, seen=()):
    """every path from main to the site passes a false edge of (options & E2F_OPT_READONLY)"""
    lits = [(t, resolve_local(fn, a)) for t, a in control_lits(fn, node)]
    if any((not t) and lit_tests_bit(a, "E2F_OPT_READONLY", "options") for t, a in lits):
        return True
    if depth >= 7 or fn.key in seen:
        return False
    sites = G.call_sites(fn)
    if not sites:
        return False
    return all(_behind_readonly(prog, G, cf, cn, depth + 1, seen + (fn.key,)) for (cf, cn) in sites)


def _ordn(fn, n):
    same = sorted([m for m in fn.events("S") if T.pp(m.ev["lhs"]) == T.pp(n.ev["lhs"])], key=lambda m: (m.line, m.bid, m.idx))
    return same.index(n)
