"""C18 — populating from a directory tree is exact; extraction returns the same data: type coverage,
metadata transfer, error flow of the copy loops, offset width.  DESIGN.md §8.6 C18."""
from vlib import tree as T
from vlib import absint, width
from vlib.engine import Broken, line_path, switch_cases
from vlib.rulelib import *

EXPLANATION = (
    "Exhaustiveness/ORDER/ERRFLOW/TABLE rules over misc/create_inode.c and debugfs/dump.c: the population switch on "
    "st_mode & S_IFMT has an arm for every host file type (char, block, fifo, socket, symlink, regular, directory) and each "
    "arm reaches the creator of that kind; after every creator, every path that goes on to the next directory entry has "
    "transferred mode/owner/times (set_inode_extra) and extended attributes (set_inode_xattr); set_inode_extra stores uid "
    "(both halves), gid (both halves), mode and the three timestamps, each from the same-named stat field, with a "
    "permission mask containing all of 07777; the hard-link table is consulted before anything is created for a "
    "multiply-linked non-directory and the new inode is recorded on every path that continues; the data copy writes every "
    "non-zero chunk it read at the offset it read it from, a short or failed write is an error, close errors are returned, "
    "and the recorded size is the host's st_size; on extraction each of regular file, symlink and directory has an arm, the "
    "dump loop writes every byte it read and restores mode, owner and times; no zero-extended 32-bit complement mask is "
    "applied to a 64-bit file offset in either direction.  Decides the wiring for every tree; not the byte equality of a "
    "particular copy, nor inline-data corner cases.")

CI = "misc/create_inode.c"
DUMP = "debugfs/dump.c"


def _reads_stat(e, field):
    # glibc spells st_atime as st_atim.tv_sec
    alts = {field, field[:-1]} if field in ("st_atime", "st_ctime", "st_mtime") else {field}
    return any(isinstance(x, dict) and x.get("k") == "m" and x.get("f") in alts for x in T.walk(e))


def run(world, rep, tier, only=None):
    prog = world.program("mke2fs")
    cf = {f.name: f for f in prog.fns_in_file(CI)}
    for need in ("__populate_fs", "set_inode_extra", "copy_file", "copy_file_chunk", "do_write_internal"):
        if need not in cf:
            raise Broken("%s:%s not found" % (CI, need))
    pf = cf["__populate_fs"]

    # ------------------------------------------------------------------ C18.a every host file type has a creator arm
    CREATORS = {"S_IFCHR": "do_mknod_internal", "S_IFBLK": "do_mknod_internal", "S_IFIFO": "do_mknod_internal",
                "S_IFSOCK": "do_mknod_internal", "S_IFLNK": "do_symlink_internal", "S_IFREG": "do_write_internal",
                "S_IFDIR": "do_mkdir_internal"}
    creators = {nm: calls_to(pf, nm) for nm in set(CREATORS.values())}
    rep.floor("C18.a creator calls in __populate_fs", sum(1 for v in creators.values() if v), 4)
    for ty, cr in sorted(CREATORS.items()):
        val = named_const(prog, ty)
        if val is None:
            val = {"S_IFCHR": 0o020000, "S_IFBLK": 0o060000, "S_IFIFO": 0o010000, "S_IFSOCK": 0o140000, "S_IFLNK": 0o120000,
                   "S_IFREG": 0o100000, "S_IFDIR": 0o040000}[ty]
        ok = False
        for c in creators[cr]:
            for sw in switch_cases(pf, c):
                if not (_reads_stat(sw["expr"], "st_mode") or
                        depends_on(pf, sw["expr"], lambda y: isinstance(y, dict) and y.get("k") == "m" and y.get("f") == "st_mode")):
                    continue        # (the type may have been put into a local first)
                labs = [l for l in sw["labels"] if isinstance(l, dict)]
                if any(l.get("c") == val for l in labs):
                    ok = True
        rep.ob("C18.a", site(pf, "host type %s has an arm reaching %s" % (ty, cr)), ok,
               "case %s (%#o) of the switch on st.st_mode & S_IFMT reaches %s" % (ty, val, cr))

    # ------------------------------------------------------------------ C18.b metadata transferred after every creator
    extra = calls_to(pf, "set_inode_extra")
    xattr = calls_to(pf, "set_inode_xattr")
    rep.floor("C18.b metadata transfer calls in __populate_fs", min(len(extra), len(xattr)), 1)
    allc = [c for v in creators.values() for c in v]
    hb = loop_head(pf, allc[0]) if allc else None
    if hb is None:
        raise Broken("__populate_fs: directory-entry loop not found")
    head0 = pf.node(hb, 0)
    for c in sorted(allc, key=lambda n: n.line):
        nm = T.call_names(c.ev["x"])[0]
        for what, through in (("mode/owner/times", extra), ("extended attributes", xattr)):
            # paths that go on to the next entry: from after the creator back to the loop head
            r = pf.reach(pf.after(c), avoid=through)
            rep.ob("C18.b", site(pf, "%s transferred after %s#%d" % (what, nm, _occ(pf, c))), head0 not in r,
                   "every path from the creator to the next directory entry passes %s" %
                   ("set_inode_extra" if through is extra else "set_inode_xattr"))
    for c in extra + xattr:
        bad = failure_returns(pf, prog, c)
        rep.ob("C18.b", site(pf, "failure of %s is returned" % T.call_names(c.ev["x"])[0]), not bad,
               "non-zero result reaches the return value: %s" % [(b[0].line, b[1]) for b in bad[:2]])
    # the stat buffer handed over is the one lstat() filled for this entry
    for c in extra:
        st = T.path(arg(c, 2))
        ls = [n for n in calls_to(pf, "lstat", "lstat64", "__lxstat", "__lxstat64", "stat") if T.path(arg(n, 1)) == st
              or T.path(arg(n, 2)) == st]
        rep.ob("C18.b", site(pf, "metadata comes from this entry's lstat"), bool(ls) and pf.dominated_by(c, ls),
               "lstat(name, &%s) dominates set_inode_extra(fs, ino, &%s)" % (st, st))

    se = cf["set_inode_extra"]
    PAIRS = [("i_uid", "st_uid"), ("l_i_uid_high", "st_uid"), ("i_gid", "st_gid"), ("l_i_gid_high", "st_gid"),
             ("i_mode", "st_mode")]
    for (fld, src) in PAIRS:
        ss = [n for n in se.events("S") if T.last_field(n.ev["lhs"]) and T.last_field(n.ev["lhs"])[1] == fld]
        ok = any(_reads_stat(n.ev.get("rhs") or {}, src) for n in ss)
        rep.ob("C18.b", site(se, "%s taken from %s" % (fld, src)), ok, "store to inode.%s reads st->%s" % (fld, src))
    hi = [n for n in se.events("S") if T.last_field(n.ev["lhs"]) and T.last_field(n.ev["lhs"])[1] in ("l_i_uid_high", "l_i_gid_high")]
    for n in hi:
        r = T.strip(n.ev.get("rhs"))
        sh = [x for x in T.walk(r) if isinstance(x, dict) and x.get("k") == "b" and x.get("o") == ">>"]
        rep.ob("C18.b", site(se, "%s is the upper half" % T.last_field(n.ev["lhs"])[1]), any(T.const(x["r"]) == 16 for x in sh),
               "value >> 16")
    modes = [n for n in se.events("S") if T.last_field(n.ev["lhs"]) and T.last_field(n.ev["lhs"])[1] == "i_mode"]
    for n in modes:
        masks = [x for x in T.walk(n.ev.get("rhs") or {}) if isinstance(x, dict) and x.get("k") == "b" and x.get("o") == "&"
                 and (_reads_stat(x["l"], "st_mode") or _reads_stat(x["r"], "st_mode"))]
        ok = bool(masks)
        for x in masks:
            other = x["r"] if _reads_stat(x["l"], "st_mode") else x["l"]
            k = T.const(other)
            if k is None or (k & 0o7777) != 0o7777:
                ok = False
        rep.ob("C18.b", site(se, "all permission bits kept"), ok or not masks and _reads_stat(n.ev.get("rhs") or {}, "st_mode"),
               "the mask applied to st_mode contains 07777 (rwx for all, setuid, setgid, sticky)")
        typ = [x for x in T.walk(n.ev.get("rhs") or {}) if isinstance(x, dict) and x.get("k") == "m" and x.get("f") == "i_mode"]
        rep.ob("C18.b", site(se, "file type kept from the created inode"), bool(typ), "the new mode keeps inode.i_mode's type bits")
    for (fld, src) in (("i_atime", "st_atime"), ("i_ctime", "st_ctime"), ("i_mtime", "st_mtime")):
        # ext2fs_inode_xtime_set is a macro: the stores land in inode.<fld>; the value flows through clamped_time()
        ss = [n for n in se.events("S") if T.last_field(n.ev["lhs"]) and T.last_field(n.ev["lhs"])[1] == fld]
        def src_ok(n):
            r = n.ev.get("rhs") or {}
            if _reads_stat(r, src) or any(_reads_stat(a, src) for c in T.calls(r) for a in c.get("a", [])):
                return True
            # through a local holding clamped_time(fs, st->st_Xtime)
            return any(_reads_stat(m.ev.get("rhs") or {}, src) or any(_reads_stat(a, src) for c in T.calls(m.ev.get("rhs") or {})
                                                                      for a in c.get("a", []))
                       for v in T.vars_in(r) for m in se.events("S") if T.path(m.ev["lhs"]) == v)
        rep.ob("C18.b", site(se, "%s taken from %s" % (fld, src)), any(src_ok(n) for n in ss) or any(
            _reads_stat(a, src) or any(_reads_stat(a2, src) for c2 in T.calls(a) for a2 in c2.get("a", []))
            for c in se.call_nodes() for a in c.ev["x"].get("a", []) if fld in T.pp(c.ev["x"])),
            "the timestamp store/macro for inode.%s reads st->%s" % (fld, src))
    wi = calls_to(se, "ext2fs_write_inode", "ext2fs_write_inode_full", "ext2fs_write_inode2")
    rep.ob("C18.b", site(se, "inode written back"), bool(wi) and all(not failure_returns(se, prog, w_) for w_ in wi),
           "ext2fs_write_inode follows the stores and its failure is returned")

    # ------------------------------------------------------------------ C18.c hard links
    ih = calls_to(pf, "is_hardlink")
    rep.floor("C18.c hard-link lookup in __populate_fs", len(ih), 1)
    for c in ih:
        lits = control_lits(pf, c)
        ok = any("st_nlink" in T.field_names(a) for t, a in lits)
        rep.ob("C18.c", site(pf, "multiply-linked entries are looked up"), ok, "is_hardlink() runs under st.st_nlink > 1")
        # any kind of object other than a directory can have several names (a symbolic link too): the only test of
        # the type on the way to the lookup is the one that sets directories aside
        typed = [(t, a) for t, a in lits + restrict_lits(pf, c) if "st_mode" in T.field_names(a)]
        other = [T.pp(a)[:40] for t, a in typed if not ({"S_ISDIR", "S_IFDIR", "__S_IFDIR"} & T.macros(a))]
        rep.ob("C18.c", site(pf, "every kind of multiply-linked object is looked up"), not other,
               "tests of st_mode on the way to is_hardlink() other than the one for directories: %s" % sorted(set(other)))
        args = [T.pp(a) for a in c.ev["x"].get("a", [])]
        rep.ob("C18.c", site(pf, "group identity is (device, inode)"), any("st_dev" in a for a in args) and any("st_ino" in a for a in args),
               "is_hardlink(hdlinks, st.st_dev, st.st_ino)")
    for c in sorted(allc, key=lambda n: n.line):
        if T.call_names(c.ev["x"])[0] == "do_mkdir_internal":
            continue
        # on the multiply-linked paths the lookup precedes the creator
        nl = {}
        for bid in pf.blocks:
            lit = pf.literal(bid)
            if lit and "st_nlink" in T.field_names(lit[0]):
                nl[pf.block_end(bid)] = lit
        def multi(n, si, m, _nl=nl):
            if n in _nl:
                atom, pos = _nl[n]
                return (si == 0) == pos      # the edge on which `st_nlink > 1` holds
            return True
        break
    saves = [n for n in pf.events("S") if T.last_field(n.ev["lhs"]) and T.last_field(n.ev["lhs"])[1] == "dst_ino"]
    flag = [n for n in pf.events("S") if T.path(n.ev["lhs"]) == "save_inode" and T.const(n.ev.get("rhs")) == 1]
    rep.floor("C18.c hard-link table stores", min(len(saves), len(flag)), 1)
    for i, n in enumerate(saves):
        rep.ob("C18.c", site(pf, "recorded inode is the one just created#%d" % i), T.path(n.ev.get("rhs")) == "ino" and
               pf.dominated_by(n, calls_to(pf, "ext2fs_namei")), "hdl[].dst_ino = ino after ext2fs_namei(... &ino)")
    # first member of a group: every path that continues to the next entry records it
    ex = absint.Explorer(pf, prog)
    ex.track = {"save_inode", "retval"}
    def seen(node, env, flags, _s=saves, _f=flag):
        if node in _f:
            return flags | {"first"}
        if node in _s:
            return flags | {"saved"}
        return flags
    for f0 in flag:
        terms = ex.run([f0], on_node=seen, stop_at=lambda n, _h=head0: n is _h)
        bad = [ex.trace(st)[-8:] for (node, env, fl, st) in terms if node is head0 and "saved" not in fl]
        rep.ob("C18.c", site(pf, "first member of a link group is recorded before the next entry"), not bad,
               "paths from `save_inode = 1` to the next iteration without hdl[].dst_ino = ino: %s" % bad[:2])

    # ------------------------------------------------------------------ C18.d the data copy
    cc = cf["copy_file_chunk"]
    wr = calls_to(cc, "ext2fs_file_write")
    sk = calls_to(cc, "ext2fs_file_llseek")
    rdc = calls_to(cc, "pread64", "pread", "my_pread")
    rep.floor("C18.d read/seek/write in copy_file_chunk", min(len(wr), len(sk), len(rdc)), 1)
    for i, w_ in enumerate(wr):
        rep.ob("C18.d", site(cc, "write positioned by a seek#%d" % i), cc.dominated_by(w_, sk), "ext2fs_file_llseek dominates ext2fs_file_write")
        bad = failure_returns(cc, prog, w_)
        rep.ob("C18.d", site(cc, "failed write is returned#%d" % i), not bad, "%s" % [(b[0].line, b[1]) for b in bad[:2]])
    for i, s_ in enumerate(sk):
        a1 = arg(s_, 1)
        offv = T.path(arg(rdc[0], 3)) if rdc else None
        rep.ob("C18.d", site(cc, "destination offset is the source offset#%d" % i), offv is not None and offv in T.vars_in(a1),
               "the seek target `%s` is built from the offset `%s` the chunk was read at" % (T.pp(a1)[:30], offv))
        bad = failure_returns(cc, prog, s_)
        rep.ob("C18.d", site(cc, "failed seek is returned#%d" % i), not bad, "%s" % [(b[0].line, b[1]) for b in bad[:2]])
    short = [bid for bid in cc.blocks if cc.literal(bid) and T.path(cc.literal(bid)[0]) == "written"]
    rep.ob("C18.d", site(cc, "a write that makes no progress is an error"), bool(short), "`written == 0` is tested")
    neg = [bid for bid in cc.blocks if cc.literal(bid) and "got" in T.vars_in(cc.literal(bid)[0]) and
           T.strip(cc.literal(bid)[0]).get("k") == "b" and T.strip(cc.literal(bid)[0]).get("o") in ("<", "<=")]
    rep.ob("C18.d", site(cc, "a failed read is an error"), bool(neg), "`got < 0` is tested")
    cp = cf["copy_file"]
    clos = calls_to(cp, "ext2fs_file_close")
    for i, c in enumerate(clos):
        bad = failure_returns(cp, prog, c)
        rep.ob("C18.d", site(cp, "close error is returned#%d" % i), not bad, "%s" % [(b[0].line, b[1]) for b in bad[:2]])
    # try_lseek_copy / try_fiemap_copy answer EXT2_ET_UNIMPLEMENTED to hand over to the next method, so
    # their result is deliberately not final in copy_file; the chunk copier's result is, wherever it is called
    n_chunk = 0
    for g in (cp, cf.get("try_lseek_copy"), cf.get("try_fiemap_copy")):
        if g is None:
            continue
        for c in calls_to(g, "copy_file_chunk"):
            n_chunk += 1
            bad = failure_returns(g, prog, c)
            rep.ob("C18.d", site(g, "failed chunk copy is returned#%d" % _occ(g, c)), not bad,
                   "%s" % [(b[0].line, b[1]) for b in bad[:2]])
    rep.floor("C18.d copy_file_chunk call sites", n_chunk, 2)
    dw = cf["do_write_internal"]
    sz = [c for c in calls_to(dw, "ext2fs_inode_size_set") if _reads_stat(arg(c, 2) or {}, "st_size")]
    rep.ob("C18.d", site(dw, "recorded size is the host's st_size"), bool(sz), "ext2fs_inode_size_set(fs, &inode, statbuf.st_size)")
    for c in calls_to(dw, "copy_file"):
        bad = failure_returns(dw, prog, c)
        rep.ob("C18.d", site(dw, "failed copy is returned"), not bad, "%s" % [(b[0].line, b[1]) for b in bad[:2]])

    # ------------------------------------------------------------------ C18.e extraction
    dbg = world.program("debugfs")
    df = {f.name: f for f in dbg.fns_in_file(DUMP)}
    for need in ("dump_file", "fix_perms", "rdump_inode"):
        if need not in df:
            raise Broken("%s:%s not found" % (DUMP, need))
    du = df["dump_file"]
    rds = calls_to(du, "ext2fs_file_read")
    wrs = calls_to(du, "write")
    rep.floor("C18.e read/write in dump_file", min(len(rds), len(wrs)), 1)
    for i, w_ in enumerate(wrs):
        gv = None
        for r_ in rds:
            a3 = T.strip(arg(r_, 3))
            if isinstance(a3, dict) and a3.get("k") == "u":
                gv = T.path(a3["e"])
        rep.ob("C18.e", site(du, "writes every byte it read#%d" % i), gv is not None and T.path(arg(w_, 2)) == gv,
               "write(fd, buf, %s) with the count ext2fs_file_read returned" % gv)
    for r_ in rds:
        bad = [b for b in [du.literal(bid) for bid in du.blocks] if b and "retval" in T.vars_in(b[0])]
        rep.ob("C18.e", site(du, "read errors are noticed"), bool(bad), "retval of ext2fs_file_read is tested")
    fp = df["fix_perms"]
    sysc = {nm: calls_to(fp, *alts) for nm, alts in (("mode", ("fchmod", "chmod")), ("owner", ("fchown", "chown", "lchown")),
                                                      ("times", ("utime", "utimes", "futimes", "utimensat", "futimens")))}
    for nm, cs in sysc.items():
        rep.ob("C18.e", site(fp, "%s restored" % nm), bool(cs), "%s" % [T.call_names(c.ev["x"])[0] for c in cs])
    for c in sysc["mode"]:
        rep.ob("C18.e", site(fp, "mode comes from the inode"), any(depends_on(fp, a, lambda y: y.get("k") == "m" and y.get("f") == "i_mode")
                                                                  for a in c.ev["x"].get("a", [])), "i_mode (possibly through a local)")
    for c in sysc["owner"]:
        def from_inode(a, what):
            return depends_on(fp, a, lambda y: (y.get("k") == "m" and what in y.get("f", "")) or
                              (y.get("k") == "c" and what in (y.get("fn") or "")) or what in (y.get("m") or "") or what in (y.get("om") or ""))
        args = c.ev["x"].get("a", [])
        rep.ob("C18.e", site(fp, "owner comes from the inode"), any(from_inode(a, "uid") for a in args) and
               any(from_inode(a, "gid") for a in args), " ".join(T.pp(a) for a in args)[:60])
    ri = df["rdump_inode"]
    arms = {"regular": "dump_file", "symlink": "rdump_symlink", "directory": "ext2fs_dir_iterate"}
    for kind, callee in arms.items():
        cs = calls_to(ri, callee)
        mac = {"regular": "LINUX_S_ISREG", "symlink": "LINUX_S_ISLNK", "directory": "LINUX_S_ISDIR"}[kind]
        ok = any(any(t and (mac in T.macros(a) or mac.replace("ISREG", "IFREG").replace("ISLNK", "IFLNK").replace("ISDIR", "IFDIR")
                            in T.macros(a)) for t, a in control_lits(ri, c)) for c in cs)
        rep.ob("C18.e", site(ri, "%s inodes are extracted" % kind), bool(cs) and ok, "%s under %s" % (callee, mac))
    fpc = calls_to(ri, "fix_perms") + calls_to(du, "fix_perms")
    rep.ob("C18.e", site(ri, "metadata restored for files and directories"), bool(calls_to(ri, "fix_perms")) and
           bool(calls_to(du, "fix_perms")), "fix_perms is called by dump_file (files) and by rdump_inode (directories)")

    # ------------------------------------------------------------------ C18.f a populate step that is retried gives back what it took
    # (shared with C10.d) do_symlink_internal()/do_mkdir_internal() retry after ext2fs_expand_dir() when the parent is
    # full; the failed first attempt of ext2fs_symlink()/ext2fs_mkdir() must have undone its block and inode
    # accounting, or every retry leaves a block marked in use that nothing owns.
    from rules import C10
    for (cfn, cfile) in (("ext2fs_mkdir", "lib/ext2fs/mkdir.c"), ("ext2fs_symlink", "lib/ext2fs/symlink.c")):
        cfx = prog.fn(cfn, cfile)
        for callee, what in (("ext2fs_inode_alloc_stats2", "inode"), ("ext2fs_block_alloc_stats2", "block")):
            n_a, n_u, leak, kept = C10.accounting_rollback(prog, cfx, callee)
            rep.floor("C18.f %s accounting and its inverse in %s" % (what, cfn), min(n_a, n_u), 1)
            rep.ob("C18.f", site(cfx, "%s accounting rolled back on every failure after it" % what), not leak,
                   "error returns after %s(+1) without %s(-1): %s" % (callee, callee, leak[:2]))

    # ------------------------------------------------------------------ C18.g expansion of an inline file keeps its length (shared with C09.s)
    # do_write_internal() sets i_size ahead of the data and, on an inline_data file system, marks the file inline; the
    # first chunk that does not fit expands it.  The expansion must not change the size, or a file ending in a hole
    # comes out shorter than its source.
    from rules import C09
    C09.expand_keeps_size(prog, rep, "C18.g")

    # ------------------------------------------------------------------ C18.i bytes behind the end of a populated file are zero on disk (shared with C09.d)
    # do_write_internal() sets i_size to the full length before the data is copied, so the last, partial block of a
    # file never goes through the size-extension path that zeroes a tail: what keeps stale heap or buffer bytes out of
    # the image - and the image reproducible - is that a partial write fills the block buffer first.
    C09.copy_in_rules(prog, rep, "C18.i")

    # ------------------------------------------------------------------ C18.h an inline file is never left longer than its inline area
    # do_write_internal() gives the new inode its full length and the inline flag before any data is copied, and the
    # copy skips holes and blocks of zeroes: a source without any data to copy writes nothing, so nothing expands the
    # file.  On every path on which copy_file() succeeds the inline state is therefore compared with the length (a
    # test of EXT4_INLINE_DATA_FL / the size of the inline area, directly or in a helper).
    cpf = cf["copy_file"]

    def inline_check(f, n):
        if is_call(n, "ext2fs_inline_data_size", "ext2fs_inline_data_expand"):
            return True
        lit = f.literal(n.bid) if n is f.block_end(n.bid) else None
        return bool(lit and "EXT4_INLINE_DATA_FL" in T.macros(lit[0]))
    marks = set()
    for n in cpf.nodes():
        if inline_check(cpf, n) or (n.ev and n.ev["e"] == "C" and not n.ev["x"].get("spl") and
                                    call_reaches(prog, cpf, n, inline_check, depth=2) and
                                    not is_call(n, "ext2fs_file_open", "ext2fs_file_open2", "ext2fs_file_close", "ext2fs_file_write",
                                                "ext2fs_file_llseek", "ext2fs_file_flush", "copy_file_chunk", "try_lseek_copy",
                                                "try_fiemap_copy")):
            marks.add(n)
    ex = absint.Explorer(cpf, prog)
    terms = ex.run([cpf.entry_node()], on_node=lambda n, env, fl, _m=marks: (fl | {"chk"}) if n in _m else fl)
    bad = [(node.line, ex.trace(st)[-6:]) for (node, env, fl, st) in terms
           if node.ev and node.ev["e"] == "R" and not absint._nz(ex.eval(node.ev.get("x"), env)) and "chk" not in fl]
    rets = [1 for (node, env, fl, st) in terms if node.ev and node.ev["e"] == "R" and not absint._nz(ex.eval(node.ev.get("x"), env))]
    rep.floor("C18.h successful returns of copy_file explored", len(rets), 1)
    rep.ob("C18.h", site(cpf, "inline state compared with the length on every successful copy"), not bad,
           "paths on which copy_file() may return 0 without a test of EXT4_INLINE_DATA_FL / ext2fs_inline_data_size(): %s" % bad[:2])

    # ------------------------------------------------------------------ C18.j an entry that could not be copied fails the run
    # __populate_fs() stops at the first entry it cannot copy and prints why.  Stopping with the status still 0 makes
    # mke2fs -d report success for an image that lacks the rest of the directory: on no path from one of its error
    # messages does it return a status known to be 0.
    msgs = [n for n in calls_to(pf, "com_err") if T.const(arg(n, 1)) != 0]      # (code 0: a warning, "ignoring entry")
    rep.floor("C18.j error messages in __populate_fs", len(msgs), 8)
    exj = absint.Explorer(pf, prog)
    exj.track = {"retval"}
    # state at the message: explore from the entry, remember having passed a message
    termsj = exj.run([pf.entry_node()], on_node=lambda node, env, fl, _m=set(msgs): (fl | {"msg:%d" % node.line}) if node in _m else fl)
    silent_fail = sorted({(int(f_.split(":")[1]), node.line) for (node, env, fl, st) in termsj
                          if node.ev and node.ev["e"] == "R" and absint._z(exj.eval(node.ev.get("x"), env))
                          for f_ in fl if f_.startswith("msg:")})
    rep.ob("C18.j", site(pf, "no error message is followed by a zero status"), not silent_fail,
           "(line of com_err, line of `return` with a status known to be 0): %s" % silent_fail[:4])

    # ------------------------------------------------------------------ C18.k a populate step writes back no stale inode (shared with C10.i)
    # Creating a directory, symlink or file links a name into the parent; the link may grow the parent (a new block,
    # an htree split that rewrites the directory inode).  A caller that goes on to write its own copy of that inode
    # has read it again, or size and mapping go back and names disappear from the tree just stored.
    n_k18 = 0
    seen_k = set()
    for pr in (prog, dbg):
        for f in pr.functions():
            if not f.file.startswith(("lib/ext2fs/mkdir.c", "lib/ext2fs/symlink.c", "lib/ext2fs/link.c", "misc/create_inode.c")) or f.key in seen_k:
                continue
            seen_k.add(f.key)
            for (m, w_, stale) in stale_inode_writes(f):
                n_k18 += 1
                rep.ob("C18.k", site(f, "inode written at line %d is fresh after %s" % (w_.line, T.call_names(m.ev["x"])[0])), not stale,
                       "every path from `%s` (line %d) to `%s` re-reads the inode into the written copy" %
                       (m.text()[:30], m.line, w_.text()[:40]))
    rep.floor("C18.k rewrite-then-write pairs in the populate path", n_k18, 3)

    # ------------------------------------------------------------------ C18.w offset width
    fns = [f for f in prog.functions() if f.file in (CI, "misc/create_inode_libarchive.c", "misc/mk_hugefiles.c")] + \
          [f for f in dbg.functions() if f.file in (DUMP, "debugfs/debugfs.c", "debugfs/filefrag.c")]
    hits, n_and = width.zx_masks(fns)
    rep.floor("C18.w mask operations examined", n_and, 5)
    rep.ob("C18.w", "misc/create_inode.c,debugfs/dump.c:*:no 32-bit complement mask on a 64-bit file offset", not hits,
           "%d `&` operations examined; hits: %s" % (n_and, [(f.file, f.name, l, t[:50]) for f, l, z, t in hits]))


def _occ(fn, node):
    nm = T.call_names(node.ev["x"])[0] if T.call_names(node.ev["x"]) else "?"
    same = sorted([n for n in fn.call_nodes() if nm in T.call_names(n.ev["x"])], key=lambda n: (n.line, n.bid, n.idx))
    return same.index(node)
