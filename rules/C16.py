"""C16 — bitmap implementations: two structural necessary conditions (unit conversion in the
generic layer; cursor coherence in the rbtree backend).  DESIGN.md §4 C16."""
from vlib import tree as T
from vlib.rulelib import *
from vlib.engine import Broken, line_path

# helpers that are steps of their own in the cursor-lifetime argument (kept as functions)
STEPS = ("rb_truncate", "rb_free_extent", "rb_insert_extent", "rb_remove_extent", "rb_get_new_extent")

EXPLANATION = (
    "Set semantics of extent merge/split is behaviour over histories and is NOT decided.  Decided: (a) in gen_bitmap64.c every "
    "dispatcher that takes block numbers converts them to cluster units before the backend slot call (single-bit entries shift "
    "the argument, range entries shift the start and round the end up, find_first_* shift the bounds in and the result out) and "
    "checks the converted value against start/end before dispatching, while the two entries that take cluster units by contract "
    "do not shift; both backends fill every slot the generic layer calls without a NULL test; (b) in blkmap64_rb.c the cached "
    "cursors never outlive what they describe: every tree insertion is preceded on all paths (through callers) by resetting "
    "rcursor_next, every ext2fs_rb_erase is followed by rb_free_extent (which nulls matching cursors) or by unconditional "
    "cursor resets, and every function that replaces the tree root resets the cursors.")

GB = "lib/ext2fs/gen_bitmap64.c"
RB = "lib/ext2fs/blkmap64_rb.c"

# dispatcher, slot, kind
DISPATCH = [
    ("ext2fs_mark_generic_bmap", "mark_bmap", "single"),
    ("ext2fs_unmark_generic_bmap", "unmark_bmap", "single"),
    ("ext2fs_test_generic_bmap", "test_bmap", "single"),
    ("ext2fs_test_block_bitmap_range2", "test_clear_bmap_extent", "range"),
    ("ext2fs_mark_block_bitmap_range2", "mark_bmap_extent", "range"),
    ("ext2fs_unmark_block_bitmap_range2", "unmark_bmap_extent", "range"),
    ("ext2fs_find_first_zero_generic_bmap", "find_first_zero", "find"),
    ("ext2fs_find_first_set_generic_bmap", "find_first_set", "find"),
    ("ext2fs_set_generic_bmap_range", "set_bmap_range", "cluster-units"),
    ("ext2fs_get_generic_bmap_range", "get_bmap_range", "cluster-units"),
]


def shifts(fn, varname, right=True):
    """stores `v >>= …cluster_bits` / `v = x >> …cluster_bits` (or << for right=False)"""
    out = []
    for n in fn.events("S"):
        if T.path(n.ev["lhs"]) != varname:
            continue
        rhs = n.ev.get("rhs") or {}
        o = n.ev["o"]
        if "cluster_bits" not in T.field_names(rhs):
            continue
        if (o == (">>=" if right else "<<=")):
            out.append(n)
        elif o == "=":
            r = T.strip(rhs)
            if r.get("k") == "b" and r.get("o") == (">>" if right else "<<"):
                out.append(n)
    return out


def run(world, rep, tier, only=None):
    prog = world.program("e2fsck")
    gfns = {f.name: f for f in prog.fns_in_file(GB)}

    # ------------------------------------------------------------------ C16.a
    for (fname, slot, kind) in DISPATCH:
        fn = gfns.get(fname)
        if fn is None:
            raise Broken("dispatcher %s vanished" % fname)
        calls = calls_to(fn, "ext2_bitmap_ops.%s" % slot)
        rep.ob("C16.a", site(fn, "dispatches to .%s" % slot), bool(calls), "backend slot %s is called" % slot)
        if not calls:
            continue
        call = calls[0]
        args = [T.path(a) for a in call.ev["x"].get("a", [])]
        if kind == "cluster-units":
            sh = [n for n in fn.events("S") if "cluster_bits" in T.field_names(n.ev.get("rhs") or {})]
            rep.ob("C16.a", site(fn, "cluster-unit entry does not shift"), not sh,
                   "%s takes cluster units by contract: no shift by cluster_bits (%s)" % (fname, [s.text()[:30] for s in sh]))
            continue
        if kind == "single":
            v = args[1]
            sh = shifts(fn, v)
            rep.ob("C16.a", site(fn, "block converted to cluster"), bool(sh) and all(fn.dominated_by(c, sh) for c in calls),
                   "`%s >>= cluster_bits` dominates the backend call" % v)
            _range_check(fn, rep, calls, sh, v)
        elif kind == "range":
            v = args[1]
            sh = shifts(fn, v)
            rep.ob("C16.a", site(fn, "range start converted to cluster"), bool(sh) and all(fn.dominated_by(c, sh) for c in calls),
                   "`%s >>= cluster_bits` dominates the backend call" % v)
            she = shifts(fn, "end")
            rnd = [n for n in fn.events("S") if T.path(n.ev["lhs"]) == "end" and n.ev["o"] == "+=" and
                   "cluster_bits" in T.field_names(n.ev.get("rhs") or {})]
            ok = bool(she) and bool(rnd) and all(fn.dominated_by(s, rnd) for s in she) and \
                all(fn.dominated_by(c, she) for c in calls)
            rep.ob("C16.a", site(fn, "range end rounded up then converted"), ok,
                   "end += (1 << cluster_bits) - 1 precedes end >>= cluster_bits, both before the backend call")
            # the rounding addend is (1 << bits) - 1
            for r in rnd:
                rr = T.strip(r.ev["rhs"])
                okr = rr.get("k") == "b" and rr.get("o") == "-" and T.const(rr["r"]) == 1 and \
                    T.strip(rr["l"]).get("o") == "<<" and T.const(T.strip(rr["l"])["l"]) == 1
                rep.ob("C16.a", site(fn, "rounding addend is one cluster minus one"), okr, "addend %s" % T.pp(rr))
            numdef = [n for n in fn.events("S") if T.path(n.ev["lhs"]) == "num" and n.ev["o"] == "="]
            rep.ob("C16.a", site(fn, "length recomputed in cluster units"),
                   any(T.vars_in(n.ev.get("rhs") or {}) >= {"end", v} for n in numdef) and
                   all(fn.dominated_by(c, numdef) for c in calls) and args[2] == "num",
                   "num = end - %s after the conversion, passed to the backend" % v)
            _range_check(fn, rep, calls, sh, v)
        elif kind == "find":
            cs = shifts(fn, "cstart")
            ce = shifts(fn, "cend")
            rep.ob("C16.a", site(fn, "bounds converted to clusters"),
                   bool(cs) and bool(ce) and args[1:3] == ["cstart", "cend"] and all(fn.dominated_by(c, cs + ce) or
                                                                                     (fn.dominated_by(c, cs) and fn.dominated_by(c, ce)) for c in calls),
                   "cstart/cend = start/end >> cluster_bits are what the backend receives: %s" % args)
            back = shifts(fn, "cout", right=False)
            rets0 = [n for n in fn.events("R") if T.const(n.ev.get("x")) == 0]
            outst = [n for n in fn.events("S") if T.strip(n.ev["lhs"]).get("k") == "u" and T.path(n.ev["lhs"]) == "out"]
            rep.ob("C16.a", site(fn, "result converted back to blocks"),
                   bool(back) and all(fn.dominated_by(o, back) for o in outst if "cout" in T.vars_in(o.ev.get("rhs") or {})),
                   "cout <<= cluster_bits before *out is stored")
            _range_check(fn, rep, calls, cs, "cstart")
    # both backends fill every slot the generic layer calls unconditionally
    called = set()
    guarded = set()
    for fn in gfns.values():
        for n in fn.call_nodes():
            sl = n.ev["x"].get("slot")
            if sl and sl.get("r") == "ext2_bitmap_ops":
                lits = control_lits(fn, n)
                if any(t and T.last_field(a) == ("ext2_bitmap_ops", sl["f"]) for t, a in lits):
                    guarded.add(sl["f"])
                else:
                    called.add(sl["f"])
    rep.floor("C16.a backend slots called by the generic layer", len(called), 12)
    for bname, file in (("ext2fs_blkmap64_bitarray", "lib/ext2fs/blkmap64_ba.c"), ("ext2fs_blkmap64_rbtree", RB)):
        g = [x for x in world.globals_named(bname, prog) if x["file"] == file]
        if len(g) != 1:
            raise Broken("backend table %s not found" % bname)
        have = set(g[0]["init"].get("f", {}))
        missing = sorted(called - have)
        rep.ob("C16.a", "%s:%s:all unconditionally called slots defined" % (file, bname), not missing,
               "slots called without a NULL test: %d; missing in this backend: %s" % (len(called), missing))

    # ------------------------------------------------------------------ C16.b cursor coherence
    rfns = {f.name: f for f in prog.fns_in_file(RB)}

    def resets(fn, field):
        return [n for n in fn.events("S") if T.last_field(n.ev["lhs"]) == ("ext2fs_rb_private", field)
                and T.const(n.ev.get("rhs")) == 0 and n.ev["o"] == "="]
    # (1) insertion: rcursor_next reset before every link into the tree, through callers
    inserters = [f for f in rfns.values() if calls_to(f, "ext2fs_rb_link_node")]
    rep.floor("C16.b tree inserters", len(inserters), 1)

    def covered(fn, node, depth=0, seen=()):
        """every path from program entry to node passes a reset of rcursor_next"""
        if fn.dominated_by(node, resets(fn, "rcursor_next")) or fn.dominated_by(node, resets(fn, "rcursor")):
            return True, "%s resets rcursor_next (or the read cursor itself) first" % fn.name
        if depth >= 3 or fn.key in seen:
            return False, "%s: not reset (depth)" % fn.name
        callers = prog.callers().get(fn.key, [])
        callers = [(cf, cn) for (cf, cn) in callers if cf.file == RB]
        if not callers:
            return False, "%s: not reset and no caller does" % fn.name
        why = []
        for (cf, cn) in callers:
            ok, w = covered(cf, cn, depth + 1, seen + (fn.key,))
            if not ok:
                return False, "caller %s:%d does not reset rcursor_next before `%s` (%s)" % (cf.name, cn.line, cn.text()[:30], w)
            why.append(cf.name)
        return True, "all callers reset first: %s" % why
    for f in inserters:
        for i, n in enumerate(calls_to(f, "ext2fs_rb_link_node")):
            # copying a whole tree builds a fresh private structure: cursors are reset wholesale (checked below)
            if f.name == "rb_copy_bmap":
                rep.examined()
                continue
            ok, why = covered(f, n)
            rep.ob("C16.b", site(f, "rcursor_next reset before a node is linked in#%d" % i), ok,
                   "a new extent may become the successor of the read cursor: %s" % why)
    # (2) erase: followed by rb_free_extent or unconditional resets
    n_er = 0
    for f in rfns.values():
        for i, n in enumerate(calls_to(f, "ext2fs_rb_erase")):
            n_er += 1
            fr = calls_to(f, "rb_free_extent")
            full = [x for x in f.nodes() if x in resets(f, "rcursor")] and [x for x in f.nodes() if x in resets(f, "wcursor")]
            ok = f.must_pass_after(n, fr) if fr else False

            def around_ok(cf, cn):
                rr, ww = resets(cf, "rcursor"), resets(cf, "wcursor")
                if rr and ww and ((cf.must_pass_after(cn, rr) and cf.must_pass_after(cn, ww)) or
                                  (cf.dominated_by(cn, rr) and cf.dominated_by(cn, ww))):
                    return True     # cursors are NULL around the erase
                # the whole private structure is released afterwards
                frees = [x for x in calls_to(cf, "ext2fs_free_mem") if T.path(arg(x, 0)) == "bp"]
                return bool(frees) and cf.must_pass_after(cn, frees)
            if not ok:
                # unconditional resets (or release of the structure) in this function or in every caller after the call
                ok = around_ok(f, n)
                if not ok:
                    callers = [(cf, cn) for (cf, cn) in prog.callers().get(f.key, []) if cf.file == RB]
                    ok = bool(callers) and all(around_ok(cf, cn) for (cf, cn) in callers)
            rep.ob("C16.b", site(f, "erased node's cursors invalidated#%d" % i), ok,
                   "ext2fs_rb_erase is followed on every path by rb_free_extent() or by resets of rcursor and wcursor")
    rep.floor("C16.b erase sites", n_er, 4)
    fe = rfns.get("rb_free_extent")
    if fe is None:
        raise Broken("rb_free_extent vanished")
    for fld in ("wcursor", "rcursor", "rcursor_next"):
        r = resets(fe, fld)
        ok = bool(r) and all(any(t and T.last_field(a) == ("ext2fs_rb_private", fld) or
                                 (t and ("ext2fs_rb_private", fld) in T.fields(a)) for t, a in control_lits(fe, x)) for x in r)
        rep.ob("C16.b", site(fe, "nulls %s when it is the freed extent" % fld), ok, "bp->%s = NULL under bp->%s == ext" % (fld, fld))
    # (3) functions that install a new root reset all three cursors (or build a zeroed private structure)
    for f in rfns.values():
        roots = [n for n in f.events("S") if T.last_field(n.ev["lhs"]) == ("ext2fs_rb_private", "root") and n.ev["o"] == "="]
        if not roots or calls_to(f, "rb_insert_extent", "rb_remove_extent"):
            continue
        ok = all(bool(resets(f, fld)) for fld in ("rcursor", "rcursor_next", "wcursor"))
        rep.ob("C16.b", site(f, "new root comes with reset cursors"), ok,
               "%s assigns bp->root and resets rcursor, rcursor_next, wcursor" % f.name)
    # (4) the read cursor's fast path consults only cursor state that (1)-(3) keep coherent
    tb = rfns.get("rb_test_bit")
    rep.ob("C16.b", site(tb, "fast path exists"), tb is not None and any(
        ("ext2fs_rb_private", "rcursor_next") in T.fields(n.ev.get("rhs") or {}) for n in tb.events("S")),
        "rb_test_bit reads bp->rcursor_next")

    # ------------------------------------------------------------------ C16.e a position reaches a backend only after it was compared with the bitmap's bounds
    # The backends trust the positions they are given (the bit array indexes with them, the tree stores them).  A set
    # over [start, end] answers "not a member / cannot hold it" for anything outside: every generic wrapper that hands
    # a caller-supplied position to a backend operation first compares it with the bitmap's start and with its end or
    # real_end (positions the wrapper computes from those fields itself need no test).
    POS_OPS = {"mark_bmap", "unmark_bmap", "test_bmap", "mark_bmap_extent", "unmark_bmap_extent", "test_clear_bmap_extent",
               "set_bmap_range", "get_bmap_range", "find_first_zero", "find_first_set"}
    n_e = 0
    for f in prog.fns_in_file(GB):
        params = set(f.params)
        for n in f.call_nodes():
            slot = [x for x in T.call_names(n.ev["x"]) if x.startswith("ext2_bitmap_ops.")]
            if not slot or slot[0].split(".")[1] not in POS_OPS:
                continue
            a = arg(n, 1)
            v = T.vars_in(a or {})
            if not (v & params):
                rep.examined()      # a position derived inside the wrapper (padding, the result of a search loop)
                continue
            n_e += 1
            lits = control_lits(f, n)
            lo = any("start" in T.field_names(x) and (T.vars_in(x) & v) for t, x in lits)
            hi = any(({"end", "real_end"} & set(T.field_names(x))) and (T.vars_in(x) & v) for t, x in lits)
            op = slot[0].split(".")[1]
            if op.startswith("find_first"):
                hi = hi or any({"end", "real_end"} & set(T.field_names(x)) for t, x in lits)   # the upper limit is a second argument
            rep.ob("C16.e", site(f, "%s: position compared with the bitmap's bounds before the backend" % op), lo and hi,
                   "`%s` handed to %s under a comparison with ->start: %s, with ->end/->real_end: %s" % (T.pp(a)[:20], op, lo, hi))
    rep.floor("C16.e caller-supplied positions handed to backend operations", n_e, 8)

    # ------------------------------------------------------------------ C16.f a copy has the geometry of its source
    # ext2fs_copy_generic_bmap() must take every header field that the wrappers consult from the *source* - a bitmap's
    # cluster_bits need not be the file system's (ext2fs_allocate_subcluster_bitmap() makes per-block ones) - or the
    # copy answers every query in other units than the bits it holds.
    cpf = gfns.get("ext2fs_copy_generic_bmap")
    if cpf is None:
        raise Broken("ext2fs_copy_generic_bmap vanished")
    REC = "ext2fs_struct_generic_bitmap_64"
    for fld in ("start", "end", "real_end", "cluster_bits", "bitmap_ops", "magic", "base_error_code"):
        sts = [n for n in cpf.events("S") if T.last_field(n.ev["lhs"]) == (REC, fld)]
        same = [n for n in sts if isinstance(T.strip(n.ev.get("rhs")), dict) and T.strip(n.ev["rhs"]).get("k") == "m" and
                T.last_field(n.ev["rhs"]) == (REC, fld)]
        other = [n for n in sts if n not in same]
        rep.ob("C16.f", site(cpf, "copy takes %s from its source" % fld), bool(same) and not other,
               "new->%s = src->%s: %d such store(s); stores of anything else into it: %s" %
               (fld, fld, len(same), [(n.line, n.text()[:30]) for n in other]))

    # ------------------------------------------------------------------ C16.g bulk get answers for the whole range in both backends
    # the caller's buffer is an output: the tree backend, which only writes the runs it finds, clears it first - on every
    # path, the empty tree included (the bit array copies its bytes)
    rg = prog.fn("rb_get_bmap_range", RB)
    outp = rg.params[3] if len(rg.params) > 3 else None
    clr = [c for c in calls_to(rg, "memset") if T.path(arg(c, 0)) == outp and T.const(arg(c, 1)) == 0]
    rets = [n for n in rg.events("R")]
    rep.floor("C16.g returns of rb_get_bmap_range", len(rets), 1)
    for i, r_ in enumerate(sorted(rets, key=lambda n: n.line)):
        rep.ob("C16.g", site(rg, "output cleared before return#%d" % i), bool(clr) and rg.dominated_by(r_, clr),
               "memset(out, 0, …) dominates the return at line %d" % r_.line)
    # ------------------------------------------------------------------ C16.h compare looks at every cluster
    # start/end of a block bitmap count clusters, ext2fs_test_generic_bmap() takes block numbers: the walk has to
    # convert, or only the first 1/ratio of a bigalloc bitmap is compared
    cg = gfns.get("ext2fs_compare_generic_bmap")
    tests_ = calls_to(cg, "ext2fs_test_generic_bmap")
    rep.floor("C16.h membership tests in ext2fs_compare_generic_bmap", len(tests_), 2)
    for i, c in enumerate(tests_):
        rep.ob("C16.h", site(cg, "cluster index converted to a block number#%d" % i),
               depends_on(cg, arg(c, 1), lambda y: isinstance(y, dict) and y.get("k") == "m" and y.get("f") == "cluster_bits"),
               "argument `%s` of ext2fs_test_generic_bmap() involves ->cluster_bits" % T.pp(arg(c, 1))[:40])

    # ------------------------------------------------------------------ C16.i "was anything there" is answered for the range, not for its neighbour
    # rb_remove_extent(start, count) returns whether a bit of [start, start + count) was set - that is what
    # unmark()/unmark_range() hand back.  An extent that merely begins where the range ends is not touched: on the way
    # to every `retval = 1`, each comparison of an end (start + count) with a beginning admits no path on which the
    # two are equal.
    rre = prog.fn("rb_remove_extent", RB)
    hits_ = [n for n in rre.events("S") if T.path(n.ev["lhs"]) == "retval" and T.const(n.ev.get("rhs")) == 1]
    rep.floor("C16.i `retval = 1` in rb_remove_extent", len(hits_), 2)
    n_cmp = 0
    for i, n in enumerate(hits_):
        for t, a_ in control_lits(rre, n):
            a0 = T.strip(a_)
            if t is None or not (isinstance(a0, dict) and a0.get("k") == "b" and a0.get("o") in ("<", "<=", ">", ">=")):
                continue
            fl_, fr_ = linear_form(a0["l"], rre), linear_form(a0["r"], rre)
            if fl_ is None or fr_ is None:
                continue
            ks = [sorted(str(k) for k in f_ if k != 1) for f_ in (fl_, fr_)]
            # an end against a beginning: two terms on one side, one on the other
            if sorted(len(k) for k in ks) != [1, 2] or fl_.get(1, 0) or fr_.get(1, 0):
                continue
            n_cmp += 1
            holds_at_equality = a0["o"] in ("<=", ">=")
            rep.ob("C16.i", site(rre, "an extent touching the range from outside does not count#%d.%d" % (i, n_cmp)), holds_at_equality != t,
                   "`%s` taken %s on the way to `retval = 1` (line %d) excludes the case that the two are equal" % (T.pp(a_)[:50], t, n.line))
    rep.floor("C16.i end-against-beginning comparisons in front of `retval = 1`", n_cmp, 3)

    # ------------------------------------------------------------------ C16.j the read cursor and its successor move together
    # rb_test_bit() answers "clear" for any bit between the end of bp->rcursor and the start of bp->rcursor_next
    # without walking the tree: the pair brackets a gap.  A routine that moves the cursor to another extent settles
    # the successor on every path before it returns (sets or clears it); a stale successor makes set bits that lie
    # between the new cursor and the old successor read as clear.
    n_cur = 0
    for f in prog.fns_in_file(RB):
        nxt = [n for n in f.events("S") if (T.last_field(n.ev["lhs"]) or ("", ""))[1] == "rcursor_next"]
        for n in f.events("S"):
            if (T.last_field(n.ev["lhs"]) or ("", ""))[1] != "rcursor" or T.const(n.ev.get("rhs")) == 0:
                continue
            n_cur += 1
            rep.ob("C16.j", site(f, "successor settled whenever the read cursor is moved#%d" % n_cur), bool(nxt) and f.must_pass_after(n, nxt),
                   "every path from `%s` (line %d) to the end of %s passes a store to bp->rcursor_next" % (n.text()[:30], n.line, f.name))
    rep.floor("C16.j stores that move the read cursor to an extent", n_cur, 1)

    # ------------------------------------------------------------------ C16.k the first clear bit of an empty set is where the search starts
    # ENOENT from find_first_zero means "every bit of the range is set".  A tree without extents has no bit set: the
    # routine must not answer ENOENT because the tree is empty (the bit array answers `start`).
    rfz = prog.fn("rb_find_first_zero", RB)
    bad_k = []
    for r_ in rfz.events("R"):
        if "ENOENT" in T.macros(r_.ev.get("x") or {}) or T.const(r_.ev.get("x")) == 2:
            if any(t is True and any(cc.get("fn") == "ext2fs_rb_empty_root" for cc in T.calls(a_)) for t, a_ in control_lits(rfz, r_)):
                bad_k.append(r_.line)
    rep.ob("C16.k", site(rfz, "an empty tree is not reported as full"), not bad_k,
           "returns of ENOENT under ext2fs_rb_empty_root(): %s" % bad_k)

    # ------------------------------------------------------------------ C16.d set_range assigns in both backends
    # the bit array copies the bytes over the range; the tree must drop what the range held before inserting
    ba = prog.fn("ba_set_bmap_range", "lib/ext2fs/blkmap64_ba.c")
    rbs = prog.fn("rb_set_bmap_range", RB)
    cp = [c for c in calls_to(ba, "memcpy") if "bitarray" in T.field_names(arg(c, 0) or {})]
    rep.ob("C16.d", site(ba, "range bytes are copied over the array"), bool(cp), "memcpy(bp->bitarray + …, in, …)")
    ins = calls_to(rbs, "rb_insert_extent")
    rem = [c for c in calls_to(rbs, "rb_remove_extent") if T.path(arg(c, 1)) == "num" or "num" in T.vars_in(arg(c, 1) or {})]
    rep.floor("C16.d insertions in rb_set_bmap_range", len(ins), 1)
    for i, c in enumerate(ins):
        rep.ob("C16.d", site(rbs, "old content of the range dropped before runs are inserted#%d" % i),
               bool(rem) and rbs.dominated_by(c, rem) and all(not control_lits(rbs, r_) for r_ in rem),
               "an unconditional rb_remove_extent(start, num) dominates rb_insert_extent")

    # ------------------------------------------------------------------ C16.c inclusive ends
    # `end` and `real_end` of a bitmap are the numbers of its *last* bits.  A loop that visits the bits one by one
    # upwards and is bounded by one of them (directly or through locals, e.g. min(new_end, real_end)) therefore
    # compares with <=; a strict < silently leaves the last bit out (compare, clear-padding, copy loops).  Twins of
    # the 32- and 64-bit layers are held to the same rule, which is how their agreement is decided.
    BFILES = ("lib/ext2fs/gen_bitmap.c", "lib/ext2fs/gen_bitmap64.c", "lib/ext2fs/blkmap64_ba.c", "lib/ext2fs/blkmap64_rb.c",
              "lib/ext2fs/bitmaps.c")

    def is_end(y):
        return y.get("k") == "m" and y.get("f") in ("end", "real_end") and "bitmap" in (y.get("r") or "")
    n_loops = 0
    for f in prog.functions():
        if f.file not in BFILES:
            continue
        for bid, b in f.blocks.items():
            t = b.get("t")
            if not t or t.get("k") not in ("for", "while", "do") or not isinstance(t.get("c"), dict):
                continue
            for x in T.walk(t["c"]):
                if not (isinstance(x, dict) and x.get("k") == "b" and x.get("o") in ("<", ">", "<=", ">=")):
                    continue
                for iv, bound, op in ((x["l"], x["r"], x["o"]),
                                      (x["r"], x["l"], {"<": ">", ">": "<", "<=": ">=", ">=": "<="}[x["o"]])):
                    ivp = T.path(iv)
                    if ivp is None or T.strip(iv).get("k") != "v" or op not in ("<", "<="):
                        continue
                    if not depends_on(f, bound, is_end):
                        continue
                    # unit-step ascending induction variable
                    steps = [n for n in f.events("S") if T.path(n.ev["lhs"]) == ivp and (
                        n.ev.get("o") == "++" or (n.ev.get("o") == "+=" and T.const(n.ev.get("rhs")) == 1))]
                    if not steps:
                        continue
                    plus1 = any(isinstance(y, dict) and y.get("k") == "b" and y.get("o") == "+" and 1 in (T.const(y.get("l")), T.const(y.get("r")))
                                for y in T.walk(bound))
                    n_loops += 1
                    rep.ob("C16.c", site(f, "bit-by-bit loop reaches the inclusive end `%s`" % T.pp(bound)[:30]), op == "<=" or plus1,
                           "`%s %s %s` with %s stepping by one: the bound is the last valid bit" % (T.pp(iv), op, T.pp(bound)[:40], ivp))
    rep.floor("C16.c unit-step loops bounded by end/real_end", n_loops, 3)


def _range_check(fn, rep, calls, sh, v):
    """the converted value is compared against bitmap->start/end before the dispatch, failing arm leaves"""
    chk = []
    for bid in fn.blocks:
        lit = fn.literal(bid)
        if not lit:
            continue
        a = lit[0]
        if v in T.vars_in(a) and ({"start", "end"} & T.field_names(a)):
            chk.append(bid)
    ok = bool(chk) and all(
        any(fn.block_end(b) in fn.reach([s]) for s in sh) if sh else True for b in chk[:1]) and \
        all(fn.dominated_by(c, [fn.block_end(b) for b in chk]) for c in calls)
    rep.ob("C16.a", site(fn, "converted value range-checked before dispatch"), ok,
           "comparison of `%s` with bitmap start/end lies between the conversion and the backend call" % v)
