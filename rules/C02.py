"""C02 — a clean e2fsck verdict implies consistency: the problem-table side.
Every inconsistency e2fsck *detects* makes `-fn` exit non-zero.  DESIGN.md §4 C02."""
import os
from vlib import tree as T
from vlib import problems, absint
from vlib.rulelib import *
from vlib.engine import Broken, line_path

EXPLANATION = (
    "TABLE rules over the initialisers of problem_table[] / pr_latch_info[] and every fix_problem() call site of e2fsck, "
    "plus path rules in fix_problem() and main(): every problem code that can reach fix_problem() has exactly one table row, "
    "the zero terminator is last (find_problem stops there), PR_AFTER_CODE and latch rows reference existing rows; per row the "
    "two bits that decide whether a declined problem leaves the fs invalid (has a prompt, PR_NO_OK) equal the reference recorded "
    "from the pinned tree; fix_problem un-marks the fs valid on a declined answer restricted only by PR_NO_OK and nobody re-marks it "
    "valid after the run started; main or-s FSCK_UNCORRECTED (4) into the exit status whenever the fs is not valid and nothing clears "
    "bit 4 afterwards.  Decides that detected problems reach the exit status; does not decide that passes 1-5 detect every "
    "inconsistency (needs the independent format oracle).")

HERE = os.path.dirname(os.path.abspath(__file__))
REF = os.path.join(HERE, "ref", "problem_bits.tsv")


def load_ref():
    ref = {}
    if not os.path.exists(REF):
        raise Broken("reference column rules/ref/problem_bits.tsv missing")
    for line in open(REF):
        line = line.rstrip("\n")
        if not line or line.startswith("#"):
            continue
        p = line.split("\t")
        ref[p[0]] = (p[1] == "1", p[2] == "1", p[3] if len(p) > 3 else "")
    return ref


def call_sites(prog):
    out = []
    for fn in prog.functions():
        if not fn.file.startswith("e2fsck/"):
            continue
        for n in calls_to(fn, "fix_problem"):
            out.append((fn, n))
    return out


def run(world, rep, tier, only=None):
    prog = world.program("e2fsck")
    rows, latch = problems.load(world)
    real = [r for r in rows if r.code]
    rep.floor("problem_table rows", len(real), 400)

    # ------------------------------------------------------------------ C02.a closure
    zero_idx = [r.index for r in rows if not r.code]
    rep.ob("C02.a", "e2fsck/problem.c:problem_table:terminator last", zero_idx == [len(rows) - 1],
           "the only zero row is the last one (find_problem() stops at code 0): zero rows at %s of %d" % (zero_idx, len(rows)))
    seen = {}
    dups = []
    for r in real:
        if r.code in seen:
            dups.append((r.name, seen[r.code]))
        seen[r.code] = r.name
    rep.ob("C02.a", "e2fsck/problem.c:problem_table:codes unique", not dups, "duplicate codes: %s" % dups[:5])
    bycode = problems.by_code(rows)
    sites = call_sites(prog)
    rep.floor("fix_problem call sites", len(sites), 380)
    unresolved = []
    n_codes = 0
    for (fn, n) in sites:
        codes, ok = problems.codes_at(fn, n, prog)
        if not ok:
            unresolved.append(n)
        for (v, nm) in codes:
            n_codes += 1
            if v not in bycode and _aborts_after(prog, fn, n):
                rep.note("C02.a: %s (0x%06x) has no problem_table row, but every path after the call at %s sets "
                         "E2F_FLAG_ABORT / does not return, so the run cannot end with a clean verdict "
                         "(message is lost: 'Unhandled error code')" % (nm, v, n.where()))
                rep.ob("C02.a", site(fn, "row-less code %s aborts the run" % (nm or hex(v))), True,
                       "no table row; the call is followed on every path by E2F_FLAG_ABORT (exit status 8)")
            elif v not in bycode:
                rep.ob("C02.a", site(fn, "code %s has a row" % (nm or hex(v))), False,
                       "problem code 0x%06x (%s) reaches fix_problem() at %s but has no row in problem_table: "
                       "fix_problem prints 'Unhandled error code' and returns 0 without un-marking the fs valid" %
                       (v, nm, n.where()))
            else:
                rep.examined()
    rep.ob("C02.a", "e2fsck:*:every code reaching fix_problem has a row", True,
           "%d (site, code) pairs resolved; %d sites with a non-constant code (listed in evidence)" %
           (n_codes, len(unresolved)))
    rep.extra["unresolved_fix_problem_sites"] = [u.where() + " " + u.text()[:60] for u in unresolved]
    rep.ob("C02.a", "e2fsck:*:unresolved code sites bounded", len(unresolved) <= 12,
           "%d call sites pass a code that is not resolvable to constants (latch question, second_code, "
           "table-driven helpers); bound confirmed by reading: 12" % len(unresolved))
    for r in real:
        if r.after_code:
            rep.ob("C02.a", "e2fsck/problem.c:problem_table:%s second_code exists" % r.name, r.second in bycode,
                   "PR_AFTER_CODE row names second_code 0x%06x" % r.second)
    lcodes = {l["latch_code"]: l for l in latch if l["latch_code"] != -1}
    for r in real:
        lm = r.latch
        if lm:
            ok = lm in lcodes
            if ok:
                l = lcodes[lm]
                ok = (l["question"] == 0 or l["question"] in bycode) and \
                     (l["end_message"] == 0 or l["end_message"] in bycode)
            rep.ob("C02.a", "e2fsck/problem.c:problem_table:%s latch row" % r.name, ok,
                   "latch 0x%x has a pr_latch_info row whose question/end_message exist" % lm)

    # ------------------------------------------------------------------ C02.b exit relevance
    ref = load_ref()
    rep.floor("reference column", len(ref), 400)
    for r in real:
        has_prompt = r.prompt != 0
        no_ok = r.no_ok
        if r.name in ref:
            rp, rn, why = ref[r.name]
            rep.ob("C02.b", "e2fsck/problem.c:problem_table:%s exit relevance" % r.name,
                   (has_prompt, no_ok) == (rp, rn),
                   "row has prompt=%s PR_NO_OK=%s; reference prompt=%s PR_NO_OK=%s %s — either bit decides whether "
                   "declining the problem leaves the fs marked invalid (exit 4 under -n)" %
                   (has_prompt, no_ok, rp, rn, ("(" + why + ")") if why else ""))
        else:
            # new code: judged structurally — used as a gate of a mutation => must prompt and must not be NO_OK
            gated = _gates_mutation(prog, sites, r.code)
            rep.ob("C02.b", "e2fsck/problem.c:problem_table:%s (new) exit relevance" % r.name,
                   (not gated) or (has_prompt and not no_ok),
                   "new problem code used as a repair gate must have a prompt and no PR_NO_OK")
    missing = [nm for nm in ref if nm not in {r.name for r in real}]
    rep.ob("C02.b", "e2fsck/problem.c:problem_table:no reference row vanished", not missing,
           "rows of the reference no longer in the table: %s" % missing[:8])
    # PR_FORCE_NO / PR_NO_NOMSG do not change validity; PR_NO_OK count is reported
    rep.extra["pr_no_ok_rows"] = sorted(r.name for r in real if r.no_ok)

    # ------------------------------------------------------------------ C02.c fix_problem and exit status
    fix_problem_rules(world, prog, rep, "C02.c")
    exit_status_rules(world, prog, rep, "C02.c")

    # ------------------------------------------------------------------ C02.d multiply-claimed blocks always invalidate
    # Every message of passes 1B-1D has no prompt; what makes `-n` (or a declined clone/delete) end with a non-zero
    # verdict is the un-mark at the end of pass 1D's per-inode loop.  Which inodes the loop may skip is part of the
    # contract: only the bad-blocks inode and the resize inode, whose shared blocks are legitimate.
    p1d = prog.fn("pass1d", "e2fsck/pass1b.c")
    um = calls_to(p1d, "ext2fs_unmark_valid")
    rep.floor("C02.d un-mark in pass1d", len(um), 1)
    ALLOWED_SKIPS = {"EXT2_BAD_INO", "EXT2_RESIZE_INO"}
    for i, u in enumerate(um):
        inobased = []
        for (bid, t, a, lp) in silent_lits(p1d, prog, u):
            if "ino" in T.vars_in(a) and not T.calls(a):
                inobased.append((t, a))
        bad = []
        for (t, a) in inobased:
            a0 = T.strip(a)
            ok = isinstance(a0, dict) and a0.get("k") == "b" and a0.get("o") == "==" and not t and \
                bool(T.macros(a) & ALLOWED_SKIPS) and not (T.macros(a) - ALLOWED_SKIPS - {"EXT2_FIRST_INODE"})
            if not ok:
                bad.append(("" if t else "!") + T.pp(a)[:50])
        rep.ob("C02.d", site(p1d, "only the bad-blocks and resize inodes are exempt from the verdict#%d" % i),
               bool(inobased) and not bad,
               "inode-number conditions under which a multiply-claimed inode does not reach the un-mark: %s; not allowed: %s" %
               ([("" if t else "!") + T.pp(a)[:40] for t, a in inobased], bad))

    # ------------------------------------------------------------------ C02.e a block number equal to the block count is out of range
    # Valid block numbers are [s_first_data_block, blocks_count).  Every range test of e2fsck compares a block number
    # with ext2fs_blocks_count() exclusively (`blk >= count` is bad, `blk < count` is good); the inclusive forms
    # belong to ends (start + len) and to counts only.  One site that is off by one lets a pointer to the block just
    # past the end through every pass.
    from vlib import width as _w
    n_cmp = 0
    for f in prog.functions():
        if not f.file.startswith("e2fsck/"):
            continue
        done = set()
        for line, ex_ in _w._exprs_of(f):
            for x in T.walk(ex_):
                if not (isinstance(x, dict) and x.get("k") == "b" and x.get("o") in ("<", "<=", ">", ">=")):
                    continue
                for side, other in (("l", "r"), ("r", "l")):
                    s_ = T.strip(x.get(side))
                    if not (isinstance(s_, dict) and s_.get("k") == "c" and s_.get("fn") == "ext2fs_blocks_count"):
                        continue
                    o = x["o"] if side == "r" else {"<": ">", ">": "<", "<=": ">=", ">=": "<="}[x["o"]]
                    oth = resolve_local(f, x.get(other))
                    key = (line, T.pp(x)[:60])
                    if key in done:
                        continue
                    done.add(key)
                    n_cmp += 1
                    txt = T.pp(oth)
                    o0 = T.strip(oth)
                    is_sum = isinstance(o0, dict) and o0.get("k") == "b" and o0.get("o") in ("+", "-", "*")
                    is_count = T.const(oth) is not None or any(w_ in txt for w_ in ("count", "num_", "_max", "len"))
                    lf_ = linear_form(oth, f, depth=2) if is_sum else None
                    last_incl = lf_ is not None and lf_.get(1, 0) == -1 and sum(1 for k_, v_ in lf_.items() if k_ != 1 and v_ == 1) >= 2
                    if last_incl:
                        # start + len - 1: the number of the last block of a range, a block number like any other
                        rep.ob("C02.e", site(f, "last block of a range compared exclusively with the block count (line %d)" % line),
                               o in (">=", "<"), "`%s`: `start + len - 1` is a block number and is bad when it is >= ext2fs_blocks_count()" % T.pp(x)[:70])
                        continue
                    if is_sum or is_count:
                        rep.examined()
                        continue
                    rep.ob("C02.e", site(f, "block number compared exclusively with the block count (line %d)" % line),
                           o in (">=", "<"), "`%s`: a block number is bad when it is >= ext2fs_blocks_count()" % T.pp(x)[:70])
    rep.floor("C02.e comparisons with ext2fs_blocks_count() in e2fsck", n_cmp, 15)

    # ------------------------------------------------------------------ C02.g the depth of an extent node is what its place in the tree says
    # e2fsck (and every other user of the extent handle) takes leaf-or-index from the level reached, not from the
    # node: a block whose header states another depth is malformed (the kernel refuses it) and must not pass.
    eg = prog.fn("ext2fs_extent_get", "lib/ext2fs/extent.c")
    reads = [n for n in calls_to(eg, "io_channel_read_blk64") if "newpath" in T.pp(arg(n, 3) or {})]
    rep.floor("C02.g read of a child node in ext2fs_extent_get", len(reads), 1)
    depth_tests = []
    for bid in eg.blocks:
        lit = eg.literal(bid)
        if lit and ("ext3_extent_header", "eh_depth") in T.fields(lit[0]) and \
                {"max_depth", "level"} <= set(T.field_names(lit[0])):
            depth_tests.append(bid)
    for i, rd in enumerate(reads):
        ok = False
        for bid in depth_tests:
            lit = eg.literal(bid)
            a0 = T.strip(lit[0])
            # mismatch edge: the atom is `eh_depth == max_depth - level` (norm_cond turns != into negated ==)
            mism = 1 if lit[1] else 0
            if isinstance(a0, dict) and a0.get("o") == "==" and eg.block_end(bid) in eg.reach(eg.after(rd)):
                tgt = eg.blocks[bid]["s"][mism]
                # on the mismatch edge the node is not accepted: following constants (`retval = …HEADER_BAD; if (retval)`),
                # no path reaches the stores that take the node into the path, and every return is non-zero
                accept = [n for n in eg.events("S") if T.last_field(n.ev["lhs"]) and T.last_field(n.ev["lhs"])[0] == "extent_path"
                          and T.last_field(n.ev["lhs"])[1] in ("left", "entries", "max_entries") and n in eg.reach(eg.after(rd))]
                ex_ = absint.Explorer(eg, prog)
                terms = ex_.run([eg.node(tgt, 0)], on_node=lambda node, env, flags, _a=accept: flags | {"acc"} if node in _a else flags)
                rets = [(node, env, fl) for (node, env, fl, st) in terms if node.ev and node.ev["e"] == "R"]
                if rets and not any("acc" in fl for (node, env, fl) in rets) and \
                        all(absint._nz(ex_.eval(node.ev.get("x"), env)) for (node, env, fl) in rets):
                    ok = True
        rep.ob("C02.g", site(eg, "child node's eh_depth compared with its level#%d" % i), ok,
               "after the child block is read, `eh_depth != max_depth - level` leads to a non-zero return without the node being accepted")

    # ------------------------------------------------------------------ C02.h a read that is meant to verify comes from the disk
    # During pass 1 of a file system with 128-byte inodes fs->read_inode points at pass1_read_inode(), which serves the
    # inode number in ctx->stashed_ino from memory - without any checksum test.  A read whose *result* is taken as
    # the checksum verdict (compared with EXT2_ET_INODE_CSUM_INVALID) must have taken the stash out of the way.
    n_h = 0
    for f in prog.fns_in_file("e2fsck/pass1.c"):
        for rd in calls_to(f, "ext2fs_read_inode_full", "ext2fs_read_inode", "ext2fs_read_inode2"):
            cid = rd.ev["x"].get("id")
            holder = [T.path(s_.ev["lhs"]) for s_ in f.events("S") if isinstance(s_.ev.get("rhs"), dict) and
                      any(c.get("id") == cid for c in T.calls(s_.ev["rhs"]))]
            verdict = False
            for bid in f.blocks:
                lit = f.literal(bid)
                if lit and "EXT2_ET_INODE_CSUM_INVALID" in T.macros(lit[0]) and \
                        (any(c.get("id") == cid for c in T.calls(lit[0])) or (set(holder) & T.vars_in(lit[0]))) and \
                        f.block_end(bid) in f.reach(f.after(rd)):
                    verdict = True
            if not verdict:
                continue
            n_h += 1
            clears = [s_ for s_ in f.events("S") if T.last_field(s_.ev["lhs"]) == ("e2fsck_struct", "stashed_ino") and
                      T.const(s_.ev.get("rhs")) == 0]
            rep.ob("C02.h", site(f, "verifying re-read bypasses the stashed inode#%d" % n_h), bool(clears) and f.dominated_by(rd, clears),
                   "`ctx->stashed_ino = 0` dominates `%s` (line %d), whose result is compared with EXT2_ET_INODE_CSUM_INVALID" %
                   (rd.text()[:40], rd.line))
    rep.floor("C02.h inode reads in pass1.c whose result is the checksum verdict", n_h, 1)

    # ------------------------------------------------------------------ C02.i every group's fixed metadata is reserved before any location is judged
    # ext2fs_check_desc() is what rejects a bitmap or inode table placed on the superblock / descriptor copies of
    # *another* group (pass 1 marks those group by group and cannot see a later group's).  It can only do so because
    # the copies of all groups are in the map before the first location is tested: the reserving loop is complete
    # - not merged with the loop that tests - when the tests begin.
    cd = prog.fn("ext2fs_check_desc", "lib/ext2fs/check_desc.c")
    res_ = calls_to(cd, "ext2fs_reserve_super_and_bgd")
    tests_ = [n for n in cd.call_nodes() if is_call(n, "ext2fs_test_block_bitmap2", "ext2fs_test_block_bitmap_range2",
                                                      "ext2fs_mark_block_bitmap2", "ext2fs_mark_block_bitmap_range2")] + \
        [cd.block_end(b) for b in cd.blocks if cd.literal(b) and
         any(cc.get("fn") in ("ext2fs_test_block_bitmap2", "ext2fs_test_block_bitmap_range2") for cc in T.calls(cd.literal(b)[0]))]
    rep.floor("C02.i reserve / test sites in ext2fs_check_desc", min(len(res_), len(tests_)), 1)
    for i, r_ in enumerate(res_):
        hb = loop_head(cd, r_)
        body = natural_loops(cd).get(hb, set()) if hb is not None else set()
        mixed = [t_ for t_ in tests_ if t_ in body]
        rep.ob("C02.i", site(cd, "all groups reserved before the first location is tested#%d" % i), hb is not None and not mixed,
               "the loop around ext2fs_reserve_super_and_bgd() contains no test of the map: %s" % [t_.line for t_ in mixed[:3]])

    # ------------------------------------------------------------------ C02.j a walk towards the root does not mistake its own trail for checked ground
    # check_directory() climbs from a directory to its parents until it meets one already known to be connected
    # (inode_done_map) and falls back to loop detection when the climb gets too long.  If the climb marks the map as it
    # goes and leaves on "was marked", a cycle of directories that hangs on nothing ends the climb at its own first
    # step, the loop detector is never reached, and the run is clean.  In the loop that climbs (the one holding the
    # switch to the loop pass), the map is only tested; it is marked after the climb.
    cdf = prog.fn("check_directory", "e2fsck/pass3.c")
    sw = [n for n in cdf.events("S") if T.path(n.ev["lhs"]) == "loop_pass" and T.const(n.ev.get("rhs")) == 1]
    rep.floor("C02.j switch to the loop pass in check_directory", len(sw), 1)
    for i, n in enumerate(sw):
        hb = loop_head(cdf, n)
        body = natural_loops(cdf).get(hb, set()) if hb is not None else set()
        marks_in = []
        for m in body:
            exprs = []
            if m.ev and m.ev["e"] == "C":
                exprs.append(m.ev["x"])
            lit = cdf.literal(m.bid) if m is cdf.block_end(m.bid) else None
            if lit:
                exprs += T.calls(lit[0])
            for cc in exprs:
                if cc.get("fn") == "ext2fs_mark_inode_bitmap2" and "inode_done_map" in T.vars_in((cc.get("a") or [{}])[0] or {}):
                    marks_in.append(m)
        tests_in = [m for m in body if cdf.literal(m.bid) and m is cdf.block_end(m.bid) and
                    any(cc.get("fn") == "ext2fs_test_inode_bitmap2" and "inode_done_map" in T.vars_in((cc.get("a") or [{}])[0] or {})
                        for cc in T.calls(cdf.literal(m.bid)[0]))]
        rep.ob("C02.j", site(cdf, "the climb tests the done map and does not mark it#%d" % i), bool(tests_in) and not marks_in,
               "loop holding `loop_pass = 1`: tests of inode_done_map: %d, marks of it: %s" % (len(tests_in), [m.line for m in marks_in]))
        after = [m for m in calls_to(cdf, "ext2fs_mark_inode_bitmap2") if "inode_done_map" in T.vars_in(arg(m, 0) or {}) and m not in body] + \
            [cdf.block_end(b) for b in cdf.blocks if cdf.literal(b) and cdf.block_end(b) not in body and
             any(cc.get("fn") == "ext2fs_mark_inode_bitmap2" and "inode_done_map" in T.vars_in((cc.get("a") or [{}])[0] or {})
                 for cc in T.calls(cdf.literal(b)[0]))]
        rep.ob("C02.j", site(cdf, "what the climb passed is marked done afterwards#%d" % i), bool(after),
               "ext2fs_mark_inode_bitmap2(inode_done_map, …) outside the climbing loop: %s" % [m.line for m in after])


def _aborts_after(prog, fn, n):
    """every path from the call to the function's exit passes ctx->flags |= E2F_FLAG_ABORT or a noreturn call"""
    ab = [x for x in fn.events("S") if T.last_field(x.ev["lhs"]) == ("e2fsck_struct", "flags")
          and store_sets_bits(x, "E2F_FLAG_ABORT")]
    through = set(ab) | prog.noreturn_nodes(fn)
    if not through:
        return False
    return fn.must_pass_after(n, through)


def _gates_mutation(prog, sites, code):
    for (fn, n) in sites:
        codes, ok = problems.codes_at(fn, n, prog)
        if any(v == code for v, _ in codes):
            # result used in a condition?
            cid = n.ev["x"].get("id")
            for b in fn.blocks:
                lit = fn.literal(b)
                if lit and any(c.get("id") == cid for c in T.calls(lit[0])):
                    return True
    return False


def fix_problem_rules(world, prog, rep, rule):
    fp = prog.fn("fix_problem", "e2fsck/problem.c")
    um = calls_to(fp, "ext2fs_unmark_valid")
    rep.ob(rule, site(fp, "declined answer un-marks valid"), bool(um), "ext2fs_unmark_valid(fs) is called in fix_problem")
    allowed = lambda t, a: (
        (not t and T.path(resolve_local(fp, a)) == "answer") or
        (not t and lit_tests_bit(a, "PR_NO_OK", "flags")) or
        (not t and _is_prompt_none(a)) or (t and T.last_field(a) == ("e2fsck_problem", "prompt")) or
        (not t and lit_tests_bit(a, "PR_FATAL", "flags")) or
        (t and T.path(a) == "ptr") or (not t and _ptr_null(a)) or
        # the lookup of the problem code in problem_table[] (find_problem, wherever its loop is written)
        ("e2fsck_problem", "e2p_code") in T.fields(a))
    for u in um:
        lits = control_lits(fp, u)
        extra = [(t, a) for (t, a) in lits if not allowed(t, a)]
        has_answer = any((not t) and T.path(a) == "answer" for t, a in lits)
        has_nook = any((not t) and lit_tests_bit(a, "PR_NO_OK", "flags") for t, a in lits)
        rep.ob(rule, site(fp, "un-mark restricted only by answer, PR_NO_OK, prompt"), has_answer and has_nook and not extra,
               "control literals of ext2fs_unmark_valid: %s; not allowed: %s" %
               ([("" if t else "!") + T.pp(a)[:40] for t, a in lits], [("" if t else "!") + T.pp(a)[:40] for t, a in extra]))
        after = fp.reach(fp.after(u))
        rem = [x for x in after if is_call(x, "ext2fs_mark_valid")]
        rep.ob(rule, site(fp, "no re-mark after un-mark"), not rem, "ext2fs_mark_valid is not reachable after the un-mark")
    # the answer for a prompting problem under E2F_OPT_NO is 0: ask() is reached with def_yn 0 — structural part:
    # def_yn is set to 0 under (options & E2F_OPT_NO) and is what ask()/preen use
    dz = [n for n in fp.events("S") if T.path(n.ev["lhs"]) == "def_yn" and T.const(n.ev.get("rhs")) == 0]
    okn = False
    for n in dz:
        # reachable through the E2F_OPT_NO-true edge
        for bid in fp.blocks:
            lit = fp.literal(bid)
            if lit and lit_tests_bit(lit[0], "E2F_OPT_NO", "options"):
                si = 0 if lit[1] else 1
                succ = fp.blocks[bid]["s"][si]
                if n in fp.reach([fp.node(succ, 0)]):
                    okn = True
    rep.ob(rule, site(fp, "-n answers no"), okn, "def_yn = 0 on the (options & E2F_OPT_NO) arm")
    # PROBLEMS_FIXED only for accepted, prompting, real fixes
    for s in [n for n in fp.events("S") if T.last_field(n.ev["lhs"]) == ("e2fsck_struct", "flags")
              and store_sets_bits(n, "E2F_FLAG_PROBLEMS_FIXED")]:
        lits = control_lits(fp, s)
        ok = any(t and T.path(a) == "answer" for t, a in lits) and \
            any((not t) and lit_tests_bit(a, "PR_NOT_A_FIX", "flags") for t, a in lits)
        rep.ob(rule, site(fp, "PROBLEMS_FIXED only for accepted fixes"), ok,
               "guards %s" % [("" if t else "!") + T.pp(a)[:40] for t, a in lits])
    # program-wide: ext2fs_mark_valid only in main before e2fsck_run
    main = prog.fn("main", "e2fsck/unix.c")
    runs = calls_to(main, "e2fsck_run")
    rep.floor("%s e2fsck_run call" % rule, len(runs), 1)
    for fn in prog.functions():
        if not (fn.file.startswith("e2fsck/")):
            continue
        for n in calls_to(fn, "ext2fs_mark_valid"):
            ok = fn is main and not any(n in main.reach(main.after(r)) for r in runs
                                        if not _via_restart(main, r, n))
            rep.ob(rule, site(fn, "mark_valid only before the run") + "#%d" % n.line if False else
                   site(fn, "mark_valid only before the run#%d" % _ord(fn, n)), fn is main and all(
                       r in main.reach(main.after(n)) for r in runs) and _not_after_run(main, runs, n),
                   "ext2fs_mark_valid at %s precedes e2fsck_run and is not reachable after it except through label restart"
                   % n.where())
    # the VALID bit is never resurrected: every store to fs->flags either can only clear bits, or-s in
    # constants without EXT2_FLAG_VALID, preserves the current VALID bit, or is a wholesale restore whose
    # save/restore window contains no call that may un-mark the fs valid
    vbit = None
    umv = prog.fn("ext2fs_unmark_valid")
    for n in umv.events("S"):
        for x in T.walk(n.ev.get("rhs") or {}):
            if x.get("m") == "EXT2_FLAG_VALID":
                vbit = x.get("c")
    if not vbit:
        raise Broken("EXT2_FLAG_VALID value not found in ext2fs_unmark_valid")
    may_unmark = prog.may(lambda f, n: is_call(n, "ext2fs_unmark_valid"))
    n_st = 0
    for fn in prog.functions():
        for n in fn.events("S"):
            if T.last_field(n.ev["lhs"]) != ("struct_ext2_filsys", "flags"):
                continue
            n_st += 1
            o = n.ev["o"]
            rhs = n.ev.get("rhs") or {}
            if o == "&=":
                rep.examined()
                continue
            if o == "|=":
                c = T.const(rhs)
                ok = (c is not None and not (c & vbit)) or fn.name == "ext2fs_mark_valid" or \
                    (c is None and "EXT2_FLAG_VALID" not in T.macros(rhs) and T.path(rhs) in ("tail_flags",))
                rep.ob(rule, site(fn, "or-ing into fs->flags leaves VALID alone#%d" % _ordn(fn, n)), ok,
                       "`%s`" % n.text()[:60])
                continue
            if o != "=":
                rep.examined()
                continue
            preserves = False
            for x in T.walk(rhs):
                bt = T.bits_test(x) if x.get("k") == "b" and x.get("o") == "&" else None
                if bt and T.last_field(bt[0]) == ("struct_ext2_filsys", "flags") and (bt[1] & vbit):
                    preserves = True
            if preserves:
                rep.ob(rule, site(fn, "restore of fs->flags keeps the current VALID bit#%d" % _ordn(fn, n)), True,
                       "`%s` takes the VALID bit from the current value" % n.text()[:70])
                continue
            # wholesale store: no un-marking call may precede it in this function
            window = []
            for c in fn.call_nodes():
                if n in fn.reach(fn.after(c)):
                    if is_call(c, "ext2fs_unmark_valid") or any(g.key in may_unmark for g in prog.callees(fn, c.ev["x"])):
                        window.append(c)
            rep.ob(rule, site(fn, "wholesale store to fs->flags cannot resurrect VALID#%d" % _ordn(fn, n)), not window,
                   "`%s` overwrites every flag; calls before it that may reach ext2fs_unmark_valid: %s" %
                   (n.text()[:50], [(w.line, w.text()[:40]) for w in window[:3]]))
    rep.floor("%s stores to fs->flags" % rule, n_st, 30)


def _ordn(fn, n):
    l = sorted([x for x in fn.events("S") if T.last_field(x.ev["lhs"]) == ("struct_ext2_filsys", "flags")],
               key=lambda x: (x.line, x.bid, x.idx))
    return l.index(n)


def _via_restart(main, r, n):
    return True


def _not_after_run(main, runs, n):
    """n is not reachable from e2fsck_run without passing label restart"""
    rb = main.label_block("restart")
    if rb is None:
        raise Broken("label restart vanished")
    for r in runs:
        rr = main.reach(main.after(r), avoid=[main.node(rb, 0)])
        if n in rr:
            return False
    return True


def _ord(fn, n):
    l = sorted(calls_to(fn, "ext2fs_mark_valid"), key=lambda x: (x.line, x.bid, x.idx))
    return l.index(n)


def _is_prompt_none(a):
    a = T.strip(a)
    return isinstance(a, dict) and a.get("k") == "b" and a.get("o") == "==" and "PROMPT_NONE" in T.macros(a) and \
        ("e2fsck_problem", "prompt") in T.fields(a)


def _is_prompt_none_neg(a):
    return False


def _ptr_null(a):
    return T.path(a) == "ptr"


def exit_status_rules(world, prog, rep, rule):
    main = prog.fn("main", "e2fsck/unix.c")
    cl = main.label_block("cleanup")
    if cl is None:
        raise Broken("label cleanup vanished")
    # K12: from cleanup to `return exit_value`, no path with ext2fs_test_valid false at the final test on which
    # bit 4 is not or-ed in; and no later store may clear bit 4
    sets4 = [n for n in main.events("S") if T.path(n.ev["lhs"]) == "exit_value" and n.ev["o"] == "|=" and
             "FSCK_UNCORRECTED" in T.macros(n.ev.get("rhs") or {})]
    rep.ob(rule, site(main, "FSCK_UNCORRECTED or-ed in"), bool(sets4), "exit_value |= FSCK_UNCORRECTED exists")
    ok_guard = False
    for s in sets4:
        lits = control_lits(main, s)
        # the store sits on the arm reached when !ext2fs_test_valid(fs) — first operand of a || : the store's
        # block must be reachable from the false edge of a test_valid literal directly
        for bid in main.blocks:
            lit = main.literal(bid)
            if lit and any(c.get("fn") == "ext2fs_test_valid" for c in T.calls(lit[0])):
                si = 1 if lit[1] else 0   # edge on which test_valid() is false
                succ = main.blocks[bid]["s"][si]
                # on that edge, every path to return passes the store (no way round)
                if succ is not None and succ >= 0:
                    r = main.reach([main.node(succ, 0)], avoid=[s] + list(prog.noreturn_nodes(main)))
                    rets = [x for x in main.events("R")]
                    region = main.reach([main.node(cl, 0)])
                    if main.block_end(bid) in region and s in main.reach([main.node(succ, 0)]):
                        if not any(x in r for x in rets):
                            ok_guard = True
    rep.ob(rule, site(main, "invalid fs always yields FSCK_UNCORRECTED"), ok_guard,
           "from the false edge of ext2fs_test_valid(fs) in the exit path every path to return passes exit_value |= FSCK_UNCORRECTED")
    for s in sets4:
        after = main.reach(main.after(s))
        bad = []
        for x in after:
            if x.ev and x.ev["e"] == "S" and T.path(x.ev["lhs"]) == "exit_value" and x is not s:
                o = x.ev["o"]
                rhs = x.ev.get("rhs")
                if o == "|=":
                    continue
                if o == "&=":
                    c = T.const(rhs)
                    if c is not None and (c & 4):
                        continue      # mask keeps bit 4
                    bad.append(x)
                elif o == "=":
                    c = T.const(rhs)
                    if c is not None and (c & 4):
                        continue
                    # `exit_value = 0`-style stores must be on a valid-fs arm
                    lits = control_lits(main, x)
                    if any(t and any(cc.get("fn") == "ext2fs_test_valid" for cc in T.calls(a)) for t, a in lits):
                        continue
                    bad.append(x)
                else:
                    bad.append(x)
        rep.ob(rule, site(main, "bit 4 survives to the return"), not bad,
               "no later store to exit_value can clear FSCK_UNCORRECTED unless the fs is valid: %s" %
               [b.where() + " " + b.text()[:40] for b in bad])
    # the verdict, once lost, is not restored: a declined problem clears EXT2_FLAG_VALID inside fix_problem(); an
    # ext2fs_mark_valid() that can run after a call from which fix_problem() is reachable - on the same handle, i.e.
    # with no re-open in between - would hand a clean exit status to a run that reported a problem and left it.
    may_unmark = prog.may(lambda f, n: is_call(n, "ext2fs_unmark_valid"))
    marks_v = calls_to(main, "ext2fs_mark_valid")
    opens = calls_to(main, "try_open_fs", "ext2fs_open2", "ext2fs_open")
    losers = [c for c in main.call_nodes()
              if c not in marks_v and any(g.key in may_unmark for g in prog.callees(main, c.ev["x"]))]
    rep.floor(rule + " calls in main from which a problem can be declined", len(losers), 5)
    r = main.reach([m for c in losers for m in main.after(c)], avoid=opens)
    # accepted form: fix_problem() records the declined problem in a context flag next to its un-mark, and main
    # re-applies the verdict under that flag after the late mark, before the passes run
    fp = prog.fn("fix_problem", "e2fsck/problem.c")
    decl = set()
    for u in calls_to(fp, "ext2fs_unmark_valid"):
        for s_ in fp.events("S"):
            if s_.bid == u.bid and T.last_field(s_.ev["lhs"]) == ("e2fsck_struct", "flags") and s_.ev.get("o") == "|=":
                decl |= {m for m in T.macros(s_.ev.get("rhs") or {}) if m.startswith("E2F_FLAG_")}
    runs = calls_to(main, "e2fsck_run")
    reapply = []
    for u in calls_to(main, "ext2fs_unmark_valid"):
        for (bid, truth, atom) in main.control_literals(u):
            if truth and any(lit_tests_bit(atom, m, "flags") for m in decl):
                reapply.append(main.block_end(bid))
    for i, mv in enumerate(sorted(marks_v, key=lambda n: n.line)):
        late = mv in r
        if late and reapply and runs and main.must_pass_after(mv, reapply, to=runs) and \
                not any(m2 in main.reach([x for b_ in reapply for x in main.after(b_)], avoid=runs) for m2 in marks_v):
            late = False        # the verdict of a declined problem is put back before the passes start
        wit = None
        if late:
            wp = main.witness_path([m for c in losers for m in main.after(c)], [mv], avoid=opens)
            wit = {"entry": "main", "lines": line_path(wp or [])}
        rep.ob(rule, site(main, "ext2fs_mark_valid only before any problem can have been declined#%d" % i), not late,
               "no call from which fix_problem()/ext2fs_unmark_valid() is reachable precedes ext2fs_mark_valid (line %d) on the same "
               "handle%s" % (mv.line, "" if not late else ": e.g. %s" %
                              sorted({T.call_names(c.ev["x"])[0] for c in losers if mv in main.reach(main.after(c), avoid=opens)
                                      and T.call_names(c.ev["x"])})[:4]), wit)
    rets = [n for n in main.events("R") if main.node(cl, 0) in main.reach_back([n])]
    ok = any(T.path(n.ev.get("x")) == "exit_value" for n in rets)
    rep.ob(rule, site(main, "exit status returned"), ok, "main returns exit_value after cleanup")
