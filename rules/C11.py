"""C11 — tune2fs conversions: coverage of checksum rewriting and agreement of the feature tables
with their handlers.  DESIGN.md §4 C11."""
from vlib import tree as T
from vlib import effects
from vlib.rulelib import *
from vlib.rulelib import _positive_macros
from vlib.engine import Broken, line_path

EXPLANATION = (
    "TABLE / call-graph / ORDER rules over misc/tune2fs.c and the library: the checksummed object classes are enumerated from "
    "the checksum fields of the on-disk record types and, for each, rewrite_metadata_checksums() must reach a function that "
    "stores the field or dirty-mark the owner whose flush routine does; inside the inode rewrite every inode kind "
    "(EA inode, directory, other) is selected by its own request bit and every whole-filesystem request sets all bits; every "
    "path in tune2fs that changes what the checksum seed is computed from (metadata_csum on/off, csum_seed off with a changed "
    "UUID, UUID change without csum_seed) requests a full rewrite, and main() performs the rewrite before closing; every "
    "FEATURE_ON/FEATURE_OFF arm of update_feature_set names a bit present in ok_features/clear_ok_features; dangerous arms are "
    "dominated by check_fsck_needed() or refuse when mounted.  Decides coverage and table agreement; not inode-size growth, "
    "journal or quota creation.")

TF = "misc/tune2fs.c"
ONDISK_FILES = ("lib/ext2fs/ext2_fs.h", "lib/ext2fs/ext3_extents.h", "lib/ext2fs/ext2_ext_attr.h")


def checksum_fields(world):
    out = []
    for name, r in world.records.items():
        if r["file"] not in ONDISK_FILES:
            continue
        for f in r["fields"]:
            n = f["n"]
            if ("checksum" in n or "csum" in n) and n not in ("s_checksum_type", "s_checksum_seed"):
                out.append((name, n))
    return sorted(set(out))


def run(world, rep, tier, only=None):
    prog = world.program("tune2fs")
    rmc = prog.fn("rewrite_metadata_checksums", TF)

    # ------------------------------------------------------------------ C11.a coverage
    fields = checksum_fields(world)
    rep.floor("C11.a checksum fields of on-disk records", len(fields), 10)
    # functions reachable from rewrite_metadata_checksums (callbacks passed by address included)
    reach = {rmc.key: None}
    stack = [rmc]
    while stack:
        f = stack.pop()
        for (n, g) in prog.callees_cs(f):
            if g.key not in reach:
                reach[g.key] = (f, n)
                stack.append(g)
    # flush routines behind the dirty marks that rewrite_metadata_checksums MUST set
    must_marks = {}
    for nm, routine in (("ext2fs_mark_super_dirty", "ext2fs_flush2"), ("ext2fs_mark_bb_dirty", "write_bitmaps"),
                        ("ext2fs_mark_ib_dirty", "write_bitmaps")):
        cs = calls_to(rmc, nm)
        if cs and rmc.dominated_by(rmc.exit_node(), cs + list(prog.noreturn_nodes(rmc)) +
                                   [n for n in rmc.events("R") if T.const(n.ev.get("x")) is None and
                                    T.path(n.ev.get("x")) == "retval"]):
            must_marks[nm] = routine
    flush_reach = set()
    for routine in set(must_marks.values()):
        if not prog.has_fn(routine):
            continue
        rf = prog.fn(routine)
        seen = {rf.key}
        st = [rf]
        while st:
            f = st.pop()
            for (n, g) in prog.callees_cs(f):
                if g.key not in seen:
                    seen.add(g.key)
                    st.append(g)
        flush_reach |= seen
    classes = {}
    fieldnames = {}
    for (rec, fld) in fields:
        fieldnames.setdefault(fld, set()).add(rec)
    for fld, recs in fieldnames.items():
        storers = set()
        for fn in prog.functions():
            if fn.name.startswith("ext2fs_swap_"):
                continue        # byte-order conversion, not a checksum computation
            for n in fn.events("S"):
                lf = T.last_field(n.ev["lhs"])
                if lf and lf[1] == fld and lf[0] in recs:
                    storers.add(fn.key)
        classes[("|".join(sorted(recs)), fld)] = storers
    for (rec, fld), storers in sorted(classes.items()):
        if not storers:
            rep.note("C11.a: field %s.%s has no storer in the tune2fs program (not written by e2fsprogs' tune2fs)" % (rec, fld))
            rep.examined()
            continue
        direct = [k for k in storers if k in reach]
        viaflush = [k for k in storers if k in flush_reach]
        rep.ob("C11.a", "%s:rewrite_metadata_checksums:route to %s.%s" % (TF, rec, fld), bool(direct or viaflush),
               "storers %s; reached directly: %s; through a must-set dirty mark (%s): %s" %
               (sorted(k[1] for k in storers), sorted(k[1] for k in direct), sorted(must_marks), sorted(k[1] for k in viaflush)))
    # the orphan file's checksum is stored through its tail: make sure a class for it exists
    rep.ob("C11.a", "lib/ext2fs/ext2_fs.h:ext4_orphan_block_tail:class enumerated",
           any(k[1] == "ob_checksum" for k in classes), "orphan-file block checksum is among the enumerated classes")

    # inode rewrite selects every inode kind by its own bit; full requests carry all bits
    rip = prog.fn("rewrite_inodes_pass", TF)
    kinds = {}
    for n in rip.events("S"):
        if T.path(n.ev["lhs"]) == "rewrite" and T.const(n.ev.get("rhs")) == 1:
            for (t, a) in control_lits(rip, n):
                bt = T.bits_test(a)
                if bt and t and T.path(bt[0]) == "flags":
                    for m in bt[2]:
                        kinds[m] = n
    rep.ob("C11.a", site(rip, "every inode kind selectable"), set(kinds) == {"REWRITE_EA_FL", "REWRITE_DIR_FL", "REWRITE_NONDIR_FL"},
           "rewrite = 1 arms are selected by %s" % sorted(kinds))
    allbits = 0
    for fn in prog.fns_in_file(TF):
        for x in fn.nodes():
            for tr in ([x.ev.get("rhs")] if x.ev and x.ev["e"] == "S" else []):
                for y in T.walk(tr or {}):
                    if y.get("om") == "REWRITE_ALL" or y.get("m") == "REWRITE_ALL":
                        pass
    # value of REWRITE_ALL = or of the three bits (constants from the stores)
    vals = {}
    for fn in prog.fns_in_file(TF):
        for b in fn.blocks:
            lit = fn.literal(b)
            if lit:
                bt = T.bits_test(lit[0])
                if bt:
                    for x in T.walk(lit[0]):
                        if x.get("m") in ("REWRITE_EA_FL", "REWRITE_DIR_FL", "REWRITE_NONDIR_FL"):
                            vals[x["m"]] = x.get("c")
    full = 0
    for v in vals.values():
        full |= (v or 0)
    rep.ob("C11.a", "%s:*:request bits known" % TF, len(vals) == 3, "REWRITE_* bits: %s" % vals)

    # ------------------------------------------------------------------ C11.b seed changes request a full rewrite
    n_rw = 0
    for fn in prog.fns_in_file(TF):
        for n in fn.events("S"):
            if T.path(n.ev["lhs"]) != "rewrite_checksums":
                continue
            n_rw += 1
            c = T.const(n.ev.get("rhs"))
            lits = [(t, resolve_local(fn, a)) for t, a in control_lits(fn, n)]
            seedy = _seed_context(fn, n, lits)
            if seedy:
                rep.ob("C11.b", site(fn, "full rewrite requested: %s#%d" % (seedy, _ordrw(fn, n))),
                       n.ev["o"] == "=" and c is not None and full and (c & full) == full,
                       "`%s` in the %s arm must request every inode kind (value %s, all bits %s)" %
                       (n.text()[:50], seedy, c, full))
            else:
                rep.examined()
    rep.floor("C11.b stores to rewrite_checksums", n_rw, 5)
    # each seed-changing event has a rewrite request on its path
    ufs = prog.fn("update_feature_set", TF)
    for what, macro, on in (("metadata_csum enabled", "EXT4_FEATURE_RO_COMPAT_METADATA_CSUM", True),
                            ("metadata_csum disabled", "EXT4_FEATURE_RO_COMPAT_METADATA_CSUM", False)):
        arms = _feature_arms(ufs, macro, on)
        rep.ob("C11.b", site(ufs, "%s arm exists" % what), bool(arms), "FEATURE_%s(…%s) arm found" % ("ON" if on else "OFF", macro))
        for (bid, si) in arms[:1]:
            succ = ufs.blocks[bid]["s"][si]
            sets = [n for n in ufs.events("S") if T.path(n.ev["lhs"]) == "rewrite_checksums"]
            exits = [n for n in ufs.events("R") if T.const(n.ev.get("x")) not in (None, 0)]
            # every path through the arm either returns an error / exits or sets rewrite_checksums
            arm_nodes = ufs.reach([ufs.node(succ, 0)], avoid=set(sets) | prog.noreturn_nodes(ufs) | set(exits))
            # leaving the arm = reaching a node that is also reachable when the arm is not taken
            other = ufs.blocks[bid]["s"][1 - si]
            outside = ufs.reach([ufs.node(other, 0)])
            leak = [x for x in arm_nodes if x in outside]
            rep.ob("C11.b", site(ufs, "%s requests a rewrite" % what), not leak,
                   "no path through the arm rejoins the main flow without setting rewrite_checksums")
    main = prog.fn("main", TF)
    rw = calls_to(main, "rewrite_metadata_checksums")
    rep.floor("C11.b rewrite call in main", len(rw), 1)
    rcerr = [n for n in main.events("S") if T.path(n.ev["lhs"]) == "rc" and (T.const(n.ev.get("rhs")) or 0) != 0]

    def requested(nn, si, m):
        lit = main.literal(nn.bid)
        if lit and T.path(lit[0]) == "rewrite_checksums":
            truth = lit[1] if si == 0 else (not lit[1])
            return truth
        if lit and T.path(lit[0]) in ("rc", "retval"):
            truth = lit[1] if si == 0 else (not lit[1])
            return not truth          # error exits are not part of the obligation
        a0 = T.strip(lit[0]) if lit else None
        if isinstance(a0, dict) and a0.get("k") == "b" and a0.get("o") == "=" and T.path(a0.get("l")) in ("rc", "retval"):
            truth = lit[1] if si == 0 else (not lit[1])
            return not truth
        return True
    requests = [n for n in main.events("S") if T.path(n.ev["lhs"]) == "rewrite_checksums"] + \
        calls_to(main, "update_feature_set")
    closes = calls_to(main, "ext2fs_close_free", "ext2fs_close")
    for i, q in enumerate(requests):
        through = set(rw) | set(rcerr) | prog.noreturn_nodes(main)
        # failure returns of update_feature_set leave through `rc = 1` as well
        starts = [m for m in main.after(q) if m not in through]
        r = main.reach(starts, avoid=through, edge_ok=requested)
        # reaching a close without the rewrite = request lost
        lost = [c for c in closes if c in r]
        wit = None
        if lost:
            pth = main.witness_path(starts, lost, avoid=through, edge_ok=requested)
            wit = line_path(pth) if pth else None
        rep.ob("C11.b", site(main, "request #%d reaches the rewrite" % i), not lost,
               "with rewrite_checksums set, no path from `%s` to the close skips rewrite_metadata_checksums() "
               "(error exits through rc != 0 excepted)" % q.text()[:40], wit)
    for r in rw:
        rep.ob("C11.b", site(main, "rewrite precedes close"), any(c in main.reach(main.after(r)) for c in closes),
               "the handle is closed after the rewrite")
        rep.ob("C11.b", site(main, "rewrite receives the request bits"), T.path(arg(r, 1)) == "rewrite_checksums",
               "second argument is %s" % T.pp(arg(r, 1)))
    rmi = prog.fn("rewrite_inodes", TF)
    passes = calls_to(rmi, "rewrite_inodes_pass")
    ea = [p for p in passes if "REWRITE_EA_FL" in T.macros(arg(p, 1) or {})]
    rest = [p for p in passes if p not in ea]
    rep.ob("C11.b", site(rmi, "EA inodes first, then the rest with the caller's bits"),
           bool(ea) and bool(rest) and all(T.path(arg(p, 1)) == "flags" for p in rest) and
           all(all(_hurd_lit(a) or ((not t) and T.path(a) == "retval") for t, a in control_lits(rmi, p)) for p in rest),
           "second pass runs with flags, restricted by nothing but the HURD early return: %s" %
           [[T.pp(a)[:30] for t, a in control_lits(rmi, p)] for p in rest])
    for p in calls_to(rmc, "rewrite_inodes"):
        rep.ob("C11.b", site(rmc, "request bits handed to rewrite_inodes"), T.path(arg(p, 1)) == "flags",
               "rewrite_inodes(fs, %s)" % T.pp(arg(p, 1)))

    # ------------------------------------------------------------------ C11.c masks agree with handlers
    ok_on, ok_off = _mask(world, prog, "ok_features"), _mask(world, prog, "clear_ok_features")
    arms = _all_feature_arms(ufs)
    rep.floor("C11.c feature arms", len(arms), 25)
    for (kind, typ, bit, names, entry) in arms:
        if kind == "ON":
            ok = typ in ok_on and (ok_on[typ] & bit) == bit
        elif kind == "OFF":
            ok = typ in ok_off and (ok_off[typ] & bit) == bit
        else:
            ok = typ in ok_on and typ in ok_off and ((ok_on[typ] | ok_off[typ]) & bit) == bit
        rep.ob("C11.c", site(ufs, "FEATURE_%s(%s) allowed by the mask" % (kind, "|".join(sorted(names)))), ok,
               "bit 0x%x of feature word %s is in %s" % (bit, typ, "ok_features" if kind == "ON" else "clear_ok_features"))
    # converse: clearable features with on-disk state have a handler
    STATEFUL = {"EXT3_FEATURE_COMPAT_HAS_JOURNAL", "EXT4_FEATURE_INCOMPAT_MMP", "EXT4_FEATURE_RO_COMPAT_QUOTA",
                "EXT4_FEATURE_RO_COMPAT_PROJECT", "EXT4_FEATURE_COMPAT_ORPHAN_FILE", "EXT4_FEATURE_INCOMPAT_CSUM_SEED",
                "EXT4_FEATURE_RO_COMPAT_METADATA_CSUM", "EXT4_FEATURE_RO_COMPAT_GDT_CSUM", "EXT4_FEATURE_RO_COMPAT_HUGE_FILE",
                "EXT2_FEATURE_COMPAT_DIR_INDEX", "EXT4_FEATURE_INCOMPAT_FLEX_BG", "EXT2_FEATURE_COMPAT_RESIZE_INODE",
                "EXT4_FEATURE_INCOMPAT_CASEFOLD", "EXT2_FEATURE_INCOMPAT_FILETYPE", "EXT2_FEATURE_RO_COMPAT_LARGE_FILE",
                "EXT4_FEATURE_INCOMPAT_64BIT"}
    off_names = set()
    for (kind, typ, bit, names, entry) in arms:
        if kind in ("OFF", "CHANGED"):
            off_names |= names
    clr_names = _mask_names(world, prog, "clear_ok_features")
    for nm in sorted(STATEFUL & clr_names):
        rep.ob("C11.c", site(ufs, "clearable feature %s has a handler" % nm), nm in off_names,
               "%s is in clear_ok_features and has on-disk state: a FEATURE_OFF/FEATURE_CHANGED arm must convert it or request fsck" % nm)

    # every bit the masks allow has a handler arm or is a listed flag-only feature
    CLEAR_FLAG_ONLY = {
        "EXT4_FEATURE_COMPAT_FAST_COMMIT": "journal fast-commit area simply stops being used",
        "EXT4_FEATURE_RO_COMPAT_DIR_NLINK": "marker only: set by the kernel when a directory exceeds 65000 links",
        "EXT4_FEATURE_RO_COMPAT_EXTRA_ISIZE": "marker only",
        "EXT4_FEATURE_RO_COMPAT_READONLY": "marker only (image is read-only)",
    }
    SET_FLAG_ONLY = {
        "EXT2_FEATURE_RO_COMPAT_LARGE_FILE": "marker; set by the kernel/e2fsck when a large file exists",
        "EXT3_FEATURE_INCOMPAT_EXTENTS": "new files use extents; existing block-mapped files stay valid",
        "EXT4_FEATURE_COMPAT_FAST_COMMIT": "fast-commit area is set up by mke2fs/journal code; flag enables its use",
        "EXT4_FEATURE_COMPAT_STABLE_INODES": "marker restricting resize2fs / UUID changes",
        "EXT4_FEATURE_INCOMPAT_EA_INODE": "permits large xattrs in inodes; nothing to convert",
        "EXT4_FEATURE_INCOMPAT_FLEX_BG": "s_log_groups_per_flex is set in the same arm as uninit_bg handling / marker for allocation",
        "EXT4_FEATURE_INCOMPAT_LARGEDIR": "permits 3-level htree / >2GB dirs; nothing to convert",
        "EXT4_FEATURE_RO_COMPAT_DIR_NLINK": "marker only",
        "EXT4_FEATURE_RO_COMPAT_EXTRA_ISIZE": "marker only",
        "EXT4_FEATURE_RO_COMPAT_HUGE_FILE": "permits huge files; nothing to convert when setting",
        "EXT4_FEATURE_RO_COMPAT_READONLY": "marker only",
        "EXT4_FEATURE_RO_COMPAT_VERITY": "permits verity files; nothing to convert",
    }
    on_names = set()
    for (kind, typ, bit, names, entry) in arms:
        if kind in ("ON", "CHANGED"):
            on_names |= names
    for nm in sorted(clr_names):
        if "_FEATURE_" not in nm:
            continue
        rep.ob("C11.c", site(ufs, "clearable %s handled or flag-only" % nm), nm in off_names or nm in CLEAR_FLAG_ONLY,
               "clear_ok_features allows clearing %s: %s" % (nm, "handler arm" if nm in off_names else
                                                             CLEAR_FLAG_ONLY.get(nm, "NO FEATURE_OFF/FEATURE_CHANGED ARM AND NOT LISTED AS FLAG-ONLY")))
    for nm in sorted(_mask_names(world, prog, "ok_features")):
        if "_FEATURE_" not in nm:
            continue
        rep.ob("C11.c", site(ufs, "settable %s handled or flag-only" % nm), nm in on_names or nm in SET_FLAG_ONLY,
               "ok_features allows setting %s: %s" % (nm, "handler arm" if nm in on_names else
                                                      SET_FLAG_ONLY.get(nm, "NO FEATURE_ON/FEATURE_CHANGED ARM AND NOT LISTED AS FLAG-ONLY")))

    # ------------------------------------------------------------------ C11.d dangerous operations demand a checked fs
    cfn = calls_to(ufs, "check_fsck_needed")
    for n in [x for x in ufs.events("S") if T.path(x.ev["lhs"]) == "rewrite_checksums" and x.ev["o"] == "="]:
        through = cfn
        ok = ufs.dominated_by(n, through)
        rep.ob("C11.d", site(ufs, "rewrite request preceded by check_fsck_needed#%d" % _ordrw(ufs, n)), ok,
               "`%s` is dominated by a check_fsck_needed() call" % n.text()[:40])
    for n in [x for x in main.events("S") if T.path(x.ev["lhs"]) == "rewrite_checksums" and x.ev["o"] == "="]:
        if _seed_context(main, n, [(t, resolve_local(main, a)) for t, a in control_lits(main, n)]) == "inode size changed":
            rep.examined()      # guarded by the not-mounted test and done by resize_inode itself
            continue
        ok = main.dominated_by(n, calls_to(main, "check_fsck_needed"))
        rep.ob("C11.d", site(main, "rewrite request preceded by check_fsck_needed#%d" % _ordrw(main, n)), ok,
               "`%s` is dominated by a check_fsck_needed() call" % n.text()[:40])
    rq = prog.fn("request_fsck_afterwards", TF)
    clr = [n for n in rq.events("S") if T.last_field(n.ev["lhs"]) == ("ext2_super_block", "s_state")
           and store_clears_bits(n, "EXT2_VALID_FS")]
    rep.ob("C11.d", site(rq, "fsck request clears EXT2_VALID_FS"), bool(clr),
           "request_fsck_afterwards() makes the next e2fsck run a full check")

    # ------------------------------------------------------------------ C11.e = C20.a
    try:
        from rules import C20
        if hasattr(C20, "tune2fs_backups"):
            C20.tune2fs_backups(world, rep, "C11.e")
    except ImportError:
        pass

    # ------------------------------------------------------------------ C11.f inode-size growth: no stale copy is written back
    # tune2fs -I moves blocks out of the way of the growing inode tables.  The per-inode block walk re-points
    # i_block[] / the extent root and writes the inode itself (from its own copy).  Writing the copy taken
    # *before* the walk afterwards would put the old block numbers back: after the walk, an inode write must be
    # preceded by a fresh read.
    isf = prog.fn("inode_scan_and_fix", TF)
    walks = calls_to(isf, "ext2fs_block_iterate3", "ext2fs_block_iterate2", "ext2fs_block_iterate")
    writes = calls_to(isf, "ext2fs_write_inode", "ext2fs_write_inode_full", "ext2fs_write_new_inode")
    reads = calls_to(isf, "ext2fs_get_next_inode", "ext2fs_get_next_inode_full", "ext2fs_read_inode", "ext2fs_read_inode_full",
                     "ext2fs_read_inode2")
    rep.floor("C11.f block walk / inode write / inode read in inode_scan_and_fix", min(len(walks), len(writes), len(reads)), 1)
    for i, wk in enumerate(walks):
        r = isf.reach(isf.after(wk), avoid=reads)
        stale = [w_ for w_ in writes if w_ in r]
        wit = None
        if stale:
            wp = isf.witness_path(isf.after(wk), stale, avoid=reads)
            wit = {"entry": "inode_scan_and_fix", "lines": line_path(wp or [])}
        rep.ob("C11.f", site(isf, "no inode copy from before the block walk is written after it#%d" % i), not stale,
               "every path from ext2fs_block_iterate3() to an inode write passes a fresh inode read: stale writes at lines %s" %
               [w_.line for w_ in stale], wit)

    # ------------------------------------------------------------------ C11.i switching dir_index off deals with the index flags
    # Directories keep EXT2_INDEX_FL when only the feature bit is cleared, and e2fsck rejects that.  Turning the
    # feature off must lead to the directory rewrite (REWRITE_DIR_FL) or to a request for e2fsck - with and without
    # metadata_csum.
    ufs = prog.fn("update_feature_set", TF)
    deal = [n for n in ufs.events("S") if T.path(n.ev["lhs"]) == "rewrite_checksums" and "REWRITE_DIR_FL" in T.macros(n.ev.get("rhs") or {})] + \
        calls_to(ufs, "request_fsck_afterwards", "request_dir_fsck_afterwards")
    cover = set()
    for d_ in deal:
        lits = control_lits(ufs, d_)
        if not any("EXT2_FEATURE_COMPAT_DIR_INDEX" in T.macros(a) for t, a in lits):
            continue
        pol = [t for t, a in lits if any(c.get("fn") == "ext2fs_has_feature_metadata_csum" for c in T.calls(a))]
        cover.add(pol[0] if pol else None)
    rep.floor("C11.i reactions to dir_index being switched off", len(cover), 1)
    rep.ob("C11.i", site(ufs, "^dir_index leads to the directory rewrite or to a request for e2fsck, with and without metadata_csum"),
           None in cover or {True, False} <= cover,
           "reactions under a test of EXT2_FEATURE_COMPAT_DIR_INDEX exist for metadata_csum = %s" % sorted(map(str, cover)))

    # ------------------------------------------------------------------ C11.h a full index node is recognised before its limit is lowered
    # Enabling metadata_csum takes the room of one dx_entry at the end of every htree index block for the checksum.
    # A node that is completely full (count == limit, as e2fsck -D packs them) cannot give it up: rewrite_dir_block()
    # must see that - with the limit the node came with - and ask for the directory to be rebuilt.  Lowering the
    # limit first makes the test miss and the tail is written over the last entry.
    rdb = prog.fn("rewrite_dir_block", TF)
    full_tests = [rdb.block_end(b) for b in rdb.blocks if rdb.literal(b) and
                  {("ext2_dx_countlimit", "count"), ("ext2_dx_countlimit", "limit")} <= set(T.fields(rdb.literal(b)[0]))]
    lim_stores = [n for n in rdb.events("S") if T.last_field(n.ev["lhs"]) == ("ext2_dx_countlimit", "limit")]
    rep.floor("C11.h fullness test / limit stores in rewrite_dir_block", min(len(full_tests), len(lim_stores)), 1)
    for i, ft_ in enumerate(full_tests):
        early = [s_ for s_ in lim_stores if ft_ in rdb.reach(rdb.after(s_))]
        rep.ob("C11.h", site(rdb, "count == limit tested on the limit the node came with#%d" % i), not early,
               "no store into dcl->limit reaches the fullness test: %s" % [(s_.line, s_.text()[:30]) for s_ in early])

    # ------------------------------------------------------------------ C11.g dropping the UNINIT group flags materialises both bitmaps
    # While uninit_bg/metadata_csum is on, the on-disk bitmap blocks of UNINIT groups are never written and never
    # read.  Code that drops those flags makes the on-disk blocks authoritative, so both in-memory bitmaps must be
    # marked dirty (and therefore written at close) on the way.
    drops = []
    for f in prog.fns_in_file(TF):
        for n in f.events("S"):
            if T.last_field(n.ev["lhs"]) == ("ext2_group_desc", "bg_flags") and \
                    ((n.ev.get("o") == "=" and T.const(n.ev.get("rhs")) == 0) or
                     (n.ev.get("o") == "&=" and {"EXT2_BG_INODE_UNINIT", "EXT2_BG_BLOCK_UNINIT"} & set(T.macros(n.ev.get("rhs") or {})))):
                drops.append((f, n))
        for n in calls_to(f, "ext2fs_bg_flags_zap"):
            drops.append((f, n))
        for n in calls_to(f, "ext2fs_bg_flags_clear"):
            if {"EXT2_BG_INODE_UNINIT", "EXT2_BG_BLOCK_UNINIT"} & set(T.macros(arg(n, 2) or {})):
                drops.append((f, n))
    rep.floor("C11.g sites in tune2fs.c that drop the UNINIT group flags", len(drops), 1)
    for i, (f, n) in enumerate(drops):
        for mk, what in (("ext2fs_mark_ib_dirty", "inode"), ("ext2fs_mark_bb_dirty", "block")):
            ms = calls_to(f, mk)
            ok = bool(ms) and (f.dominated_by(n, ms) or f.must_pass_after(n, ms))
            rep.ob("C11.g", site(f, "%s bitmap marked dirty where UNINIT flags are dropped#%d" % (what, i)), ok,
                   "`%s` (line %d) lies behind, or is always followed by, %s()" % (n.text()[:30], n.line, mk))

    # ------------------------------------------------------------------ C11.j the journal's clusters are given back once each
    # A block walk visits every block; with bigalloc several of them share a cluster.  A callback that releases what it
    # visits changes the summary counters through ext2fs_block_alloc_stats*() only (which counts clusters) and does so
    # behind a test that lets only one block of a cluster through (the bitmap, or a comparison of cluster numbers).
    COUNTERS = ("ext2fs_free_blocks_count_add", "ext2fs_bg_free_blocks_count_set", "ext2fs_free_blocks_count_set")
    n_cb = 0
    for f in prog.fns_in_file(TF):
        for w_ in calls_to(f, "ext2fs_block_iterate3", "ext2fs_block_iterate2"):
            for a in w_.ev["x"].get("a", []):
                a0 = T.strip(a)
                if not (isinstance(a0, dict) and a0.get("k") == "fn"):
                    continue
                for cb in prog.lookup(a0["n"], f):
                    rel = calls_to(cb, "ext2fs_block_alloc_stats2", "ext2fs_block_alloc_stats") + \
                        [n for n in calls_to(cb, "ext2fs_unmark_block_bitmap2") if "block_map" in T.field_names(arg(n, 0) or {})]
                    if not rel:
                        continue
                    n_cb += 1
                    byhand = calls_to(cb, *COUNTERS)
                    rep.ob("C11.j", site(cb, "summary counters changed through the accounting routine only"), not byhand,
                           "no direct %s in a releasing block-walk callback: %s" % ("/".join(COUNTERS[:2]), [n.line for n in byhand]))
                    for i, r_ in enumerate(rel):
                        once = any(t is not None and (any(cc.get("fn") in ("ext2fs_test_block_bitmap2", "ext2fs_fast_test_block_bitmap2")
                                                          for cc in T.calls(a_)) or
                                                      any("cluster" in (v or "").lower() for v in T.vars_in(a_)) or
                                                      {"EXT2FS_B2C", "EXT2FS_CLUSTER_MASK", "EXT2FS_CLUSTER_RATIO"} & T.macros(a_))
                                   for t, a_ in control_lits(cb, r_))
                        rep.ob("C11.j", site(cb, "a cluster is released with one of its blocks only#%d" % i), once,
                               "`%s` lies behind a test of the bitmap / of the cluster number" % r_.text()[:40])
    rep.floor("C11.j releasing block-walk callbacks in tune2fs.c", n_cb, 1)

    # ------------------------------------------------------------------ C11.k no orphan file without a journal
    # The kernel and e2fsck accept an orphan file only on a file system with a journal.  The journal is taken away only
    # when the orphan_file feature is off (or goes in the same command), and an orphan file is created only behind a
    # test of the journal feature - also when it is asked for through -E orphan_file_size.
    def feat_lit(a_, name):
        return any(cc.get("fn") == name for cc in T.calls(a_))
    ufs = prog.fn("update_feature_set", TF)
    rmj = calls_to(ufs, "remove_journal_inode", "remove_journal_device")
    cre = [(f, n) for f in prog.fns_in_file(TF) for n in calls_to(f, "ext2fs_create_orphan_file")]
    rep.floor("C11.k journal removal / orphan file creation sites", min(len(rmj), len(cre)), 1)
    for i, n in enumerate(rmj):
        ok = any(t is False and feat_lit(a_, "ext2fs_has_feature_orphan_file") for t, a_ in control_lits(ufs, n))
        rep.ob("C11.k", site(ufs, "journal removed only without orphan_file#%d" % i), ok,
               "`%s` lies on the `!ext2fs_has_feature_orphan_file()` side of a test" % n.text()[:30])
    for i, (f, n) in enumerate(cre):
        ok = any(t is True and feat_lit(a_, "ext2fs_has_feature_journal") for t, a_ in control_lits(f, n))
        rep.ob("C11.k", site(f, "orphan file created only with a journal#%d" % i), ok,
               "ext2fs_create_orphan_file() lies on the `ext2fs_has_feature_journal()` side of a test")

    # ------------------------------------------------------------------ C11.l a request for e2fsck stands
    # request_fsck_afterwards() clears EXT2_VALID_FS and tells the user to run e2fsck; no later step of the same run
    # may mark the file system valid again without looking at that request.
    sets_valid = [(f, n) for f in prog.fns_in_file(TF) for n in f.events("S")
                  if T.last_field(n.ev["lhs"]) == ("ext2_super_block", "s_state") and store_sets_bits(n, "EXT2_VALID_FS")]
    rep.floor("C11.l stores setting EXT2_VALID_FS in tune2fs.c", len(sets_valid), 1)
    for i, (f, n) in enumerate(sets_valid):
        ok = any(t is not None and "fsck_requested" in T.vars_in(a_) for t, a_ in control_lits(f, n))
        rep.ob("C11.l", site(f, "file system marked valid only when no check was asked for#%d" % i), ok,
               "`%s` (line %d) lies behind a test of fsck_requested" % (n.text()[:40], n.line))

    # ------------------------------------------------------------------ C11.m inode tables grow inside the file system
    # get_move_bitmaps() claims the blocks behind each group's inode table for the larger table.  The end of that range
    # is compared with the size of the file system before any block of it is marked (the last group may be too small).
    gmb = prog.fn("get_move_bitmaps", TF)
    mk = [n for n in calls_to(gmb, "ext2fs_mark_block_bitmap2")]
    rep.floor("C11.m marks in get_move_bitmaps", len(mk), 2)
    lim = [gmb.block_end(b) for b in gmb.blocks if gmb.literal(b) and
           any(cc.get("fn") == "ext2fs_blocks_count" for cc in T.calls(gmb.literal(b)[0]))]
    for i, n in enumerate(mk):
        rep.ob("C11.m", site(gmb, "range claimed for the larger table lies inside the file system#%d" % i),
               bool(lim) and gmb.dominated_by(n, lim),
               "a comparison with ext2fs_blocks_count() dominates `%s`" % n.text()[:40])

    # ------------------------------------------------------------------ C11.n the user taken off a shared journal is this file system
    # remove_journal_device() closes up the journal's list of users over the entry that goes.  The index it starts
    # from comes out of a comparison of that entry with this file system's UUID (not: always the first one).
    rjd = prog.fn("remove_journal_device", TF)
    shifts = [n for n in calls_to(rjd, "memcpy", "memmove") if "s_users" in T.field_names(arg(n, 0) or {})]
    rep.floor("C11.n closing-up copy in remove_journal_device", len(shifts), 1)
    for i, n in enumerate(shifts):
        iv = T.vars_in(arg(n, 0)) - {"jsb"}
        cmp_ = []
        for b in rjd.blocks:
            lit = rjd.literal(b)
            if not lit:
                continue
            for cc in T.calls(lit[0]):
                if cc.get("fn") in ("memcmp", "uuid_compare") and any("s_uuid" in T.field_names(x) for x in cc.get("a", [])) and \
                        any("s_users" in T.field_names(x) and (T.vars_in(x) & iv) for x in cc.get("a", [])):
                    cmp_.append(rjd.block_end(b))
        resets = [m for m in rjd.events("S") if T.path(m.ev["lhs"]) in iv and T.const(m.ev.get("rhs")) is not None]
        ok = any(n in rjd.reach(rjd.after(c), avoid=resets) for c in cmp_)
        rep.ob("C11.n", site(rjd, "list closed up from the entry that matches this file system's UUID#%d" % i), ok,
               "a comparison of s_users[%s] with fs->super->s_uuid reaches `%s` without %s being reset: %d comparison(s)" %
               ("/".join(sorted(iv)), n.text()[:30], "/".join(sorted(iv)), len(cmp_)))

    # ------------------------------------------------------------------ C11.o switching the quota feature off disables every quota type
    # e2p_edit_feature2() has cleared the feature bit already; what removes the quota inodes is quota_enable[] set to
    # QOPT_DISABLE for every type.  Nothing but the FEATURE_OFF test itself may stand in front of that - in particular
    # not Q_flag, which other arms of the same function (project) set as well.
    qd = [n for n in ufs.events("S") if "QOPT_DISABLE" in T.macros(n.ev.get("rhs") or {}) and "quota_enable" in T.vars_in(n.ev["lhs"])
          and any(t is True and "EXT4_FEATURE_RO_COMPAT_QUOTA" in T.macros(a_) and "old_features" in T.vars_in(a_)
                  for t, a_ in control_lits(ufs, n))]       # FEATURE_OFF(quota): the old set had the bit
    rep.floor("C11.o stores of QOPT_DISABLE in update_feature_set", len(qd), 1)
    for i, n in enumerate(qd):
        extra = [T.pp(a_)[:30] for t, a_ in control_lits(ufs, n) + restrict_lits(ufs, n) if t is not None and "Q_flag" in T.vars_in(a_)]
        rep.ob("C11.o", site(ufs, "every quota type disabled whatever -Q or other arms said#%d" % i), not extra,
               "`%s` is not guarded by Q_flag: %s" % (n.text()[:40], extra))

    # ------------------------------------------------------------------ C11.p "-O none" clears nothing that could not be cleared by name
    # e2p_edit_feature2() refuses `^feature` for a feature outside clear_ok_array - tune2fs cannot convert the file
    # system to live without extents, 64bit, ....  The words "none"/"clear" zero all three feature words: that too is
    # preceded by a look at clear_ok_array on every path.
    ef2 = prog.fn("e2p_edit_feature2", "lib/e2p/feature.c")
    zero = [n for n in ef2.events("S") if T.const(n.ev.get("rhs")) == 0 and n.ev.get("o") == "=" and "compat_array" in T.vars_in(n.ev["lhs"])]
    looks = [n for n in ef2.events("S") if "clear_ok_array" in T.vars_in(n.ev.get("rhs") or {}) and
             T.path(n.ev["lhs"]) != "clear_ok_array"] + \
        [ef2.block_end(b) for b in ef2.blocks if ef2.literal(b) and "clear_ok_array" in T.vars_in(ef2.literal(b)[0])]
    # only the looks that belong to the none/clear branch: what is reachable from the matching side of the comparison
    # with those words without going round the token loop
    words = []
    for b_ in ef2.blocks:
        lit = ef2.literal(b_)
        if lit and any(cc.get("fn") in ("strcasecmp", "strcmp") and
                       any(isinstance(T.strip(x), dict) and T.strip(x).get("k") == "s" and T.strip(x).get("v") in ("none", "clear")
                           for x in cc.get("a", [])) for cc in T.calls(lit[0])):
            words.append(ef2.block_end(b_))
    region = set()
    for w_ in words:
        hb_ = loop_head(ef2, w_)
        stop_ = [ef2.node(hb_, 0)] if hb_ is not None else []
        region |= set(ef2.reach([m for (m, si) in ef2.succ(w_) if m not in words], avoid=stop_ + words))
    # the side on which neither word matched also lies in that set: keep what can still reach a zeroing store
    region = {n for n in region if any(z in ef2.reach([n], avoid=[ef2.node(loop_head(ef2, words[0]), 0)] if words and loop_head(ef2, words[0]) is not None else []) for z in zero)} if words else set()
    looks = [n for n in looks if n in region]
    rep.floor("C11.p stores that zero the feature words in e2p_edit_feature2", len(zero), 3)
    uses_table = lambda y: isinstance(y, dict) and "clear_ok_array" in T.vars_in(y)
    for i, z in enumerate(zero):
        # either a look dominates the store, or the store lies behind the test of a verdict (rc) that the branch sets
        # under a condition made from clear_ok_array (the look sits in a loop over the three words, which a
        # path-insensitive reading may skip)
        verdict = False
        for t, a_ in control_lits(ef2, z):
            v_ = T.path(a_)
            if t is None or v_ is None:
                continue
            for st in ef2.events("S"):
                if st in region and T.path(st.ev["lhs"]) == v_ and T.const(st.ev.get("rhs")) not in (None, 0) and \
                        any(t2 is not None and (uses_table(a2) or depends_on(ef2, a2, uses_table)) for t2, a2 in control_lits(ef2, st)):
                    verdict = True
        rep.ob("C11.p", site(ef2, "feature word zeroed only after clear_ok_array was consulted#%d" % i),
               bool(looks) and (ef2.dominated_by(z, looks) or verdict),
               "`%s` lies behind a use of clear_ok_array inside the none/clear branch (dominating look, or the test of a verdict set from one)" % z.text()[:30])

    # ------------------------------------------------------------------ C11.q a quota leaf leaves the free list when its last slot is taken
    # find_free_dqentry() (the writer behind tune2fs -O quota / -Q) puts a new record into a leaf from the list of
    # leaves with free slots and takes the leaf off that list when the record fills it.  "Fills it" is: entries
    # before + 1 == capacity; decided one record late, the next record is sent to a full leaf and lands in the block
    # behind it.  The test that leads to remove_free_dqentry() holds at that equality.
    qp = world.program("tune2fs", plain=True)
    ffd = qp.fn("find_free_dqentry", "lib/support/quotaio_tree.c")
    rm_ = calls_to(ffd, "remove_free_dqentry")
    rep.floor("C11.q removal from the free list in find_free_dqentry", len(rm_), 1)
    n_q = 0
    for b in sorted(ffd.blocks):
        lit = ffd.literal(b)
        a0 = T.strip(lit[0]) if lit else None
        if not (isinstance(a0, dict) and a0.get("k") == "b" and a0.get("o") in ("<", "<=", ">", ">=", "==", "!=")):
            continue
        l_, r_, o_ = a0["l"], a0["r"], a0["o"]
        if any(cc.get("fn") == "qtree_dqstr_in_blk" for cc in T.calls(l_)):
            l_, r_, o_ = r_, l_, {"<": ">", "<=": ">=", ">": "<", ">=": "<=", "==": "==", "!=": "!="}[o_]
        if not any(cc.get("fn") == "qtree_dqstr_in_blk" for cc in T.calls(r_)):
            continue
        lf = linear_form(l_, ffd, depth=2)
        ent = [k for k in (lf or {}) if k != 1 and "dqdh_entries" in str(k)]
        if lf is None or len(ent) != 1 or lf[ent[0]] != 1:
            continue
        n_q += 1
        c_ = lf.get(1, 0) - 1            # (entries + c) - capacity  at  entries + 1 == capacity
        holds = {">=": c_ >= 0, ">": c_ > 0, "==": c_ == 0, "<=": c_ <= 0, "<": c_ < 0, "!=": c_ != 0}[o_]
        end_ = ffd.block_end(b)
        taken = [m for (m, si) in ffd.succ(end_) if ((si == 0) == lit[1]) == holds]
        r = ffd.reach(taken, avoid=[end_])
        rep.ob("C11.q", site(ffd, "a leaf that the new record fills leaves the free list#%d" % n_q), any(x in r or x in taken for x in rm_),
               "`%s`: with entries + 1 equal to the capacity the test is %s and remove_free_dqentry() is reached" % (T.pp(a0)[:60], holds))
    rep.floor("C11.q capacity tests in find_free_dqentry", n_q, 1)


def _hurd_lit(a):
    return "EXT2_OS_HURD" in T.macros(a)


def _benign_main_lit(t, a):
    p = T.path(a)
    return p in ("retval", "rc", "fs") or bool(T.calls(a)) or True if False else p in ("retval", "rc")


def _ordrw(fn, n):
    l = sorted([x for x in fn.events("S") if T.path(x.ev["lhs"]) == "rewrite_checksums"],
               key=lambda x: (x.line, x.bid, x.idx))
    return l.index(n)


def _bits_on(atom, rootname=None, field=None):
    """atom is `X[T] & M`: -> (type name, mask value, mask macro names) when X is old_features / s_feature_compat"""
    bt = T.bits_test(atom)
    if not bt:
        return None
    x, k, ms = bt
    x0 = T.strip(x)
    if not (isinstance(x0, dict) and x0.get("k") == "x"):
        return None
    base = x0.get("b")
    ok = (rootname and T.path(base) == rootname) or (field and field in T.field_names(base))
    if not ok:
        return None
    ti = T.strip(x0.get("i"))
    typ = ti.get("m") or ti.get("om") or str(ti.get("c"))
    names = {m for m in ms if "_FEATURE_" in m and not m.startswith("E2P_")}
    return (typ, k, names)


def _all_feature_arms(ufs):
    """[(kind, type, bit, names, (block, succ index) of the arm entry)]"""
    out = []
    for bid in ufs.blocks:
        lit = ufs.literal(bid)
        if not lit:
            continue
        o = _bits_on(lit[0], rootname="old_features")
        if not o:
            # FEATURE_CHANGED: M & (old[T] ^ new[T])
            bt = T.bits_test(lit[0])
            if bt:
                x0 = T.strip(bt[0])
                if isinstance(x0, dict) and x0.get("k") == "b" and x0.get("o") == "^" and \
                        "old_features" in T.vars_in(x0) and "s_feature_compat" in T.field_names(x0):
                    typ = None
                    for y in T.walk(x0):
                        if y.get("k") == "x":
                            ti = T.strip(y.get("i"))
                            typ = ti.get("m") or ti.get("om") or str(ti.get("c"))
                    names = {m for m in bt[2] if "_FEATURE_" in m and not m.startswith("E2P_")}
                    si = 0 if lit[1] else 1
                    out.append(("CHANGED", typ, bt[1], names, (bid, si)))
            continue
        b2 = ufs.blocks[bid]["s"][0]
        if b2 is None or b2 < 0:
            continue
        lit2 = ufs.literal(b2)
        if not lit2:
            continue
        nw = _bits_on(lit2[0], field="s_feature_compat")
        if not nw or nw[1] != o[1] or nw[0] != o[0]:
            continue
        if (lit[1], lit2[1]) == (False, True):
            kind = "ON"
        elif (lit[1], lit2[1]) == (True, False):
            kind = "OFF"
        else:
            continue
        out.append((kind, o[0], o[1], o[2], (b2, 0)))
    return out


def _feature_arms(ufs, macro, on):
    want = "ON" if on else "OFF"
    return [a[4] for a in _all_feature_arms(ufs) if a[0] == want and macro in a[3]]


def _arm_of(ufs, node, arms):
    """the feature arm (kind, names) a node lies in: reachable from the arm's entry but not from its other edge"""
    res = []
    for (kind, typ, bit, names, (bid, si)) in arms:
        succ = ufs.blocks[bid]["s"][si]
        oth = ufs.blocks[bid]["s"][1 - si]
        if succ is None or succ < 0 or oth is None or oth < 0:
            continue
        if node in ufs.reach([ufs.node(succ, 0)], avoid=[ufs.node(oth, 0)]) and \
                node not in ufs.reach([ufs.node(oth, 0)]):
            res.append((kind, names))
    return res


def _seed_context(fn, n, lits):
    """the store sits in an arm that changes what checksums are computed from"""
    if fn.name == "update_feature_set":
        for (kind, names) in _arm_of(fn, n, _all_feature_arms(fn)):
            if "EXT4_FEATURE_RO_COMPAT_METADATA_CSUM" in names:
                return "metadata_csum " + kind.lower()
    for (t, a) in lits:
        if ("ext2_super_block", "s_checksum_seed") in T.fields(a):
            return "csum_seed differs from uuid seed"
        for c in T.calls(a):
            if c.get("fn") == "ext2fs_has_feature_csum_seed" and not t and fn.name == "main":
                return "UUID change without csum_seed"
    if fn.name == "main" and any(is_call(x, "resize_inode") and n in fn.reach(fn.after(x)) for x in fn.call_nodes()):
        return "inode size changed"
    return None


def _mask(world, prog, name):
    g = [x for x in world.globals_named(name, prog) if x["file"] == TF]
    if len(g) != 1 or g[0]["init"].get("k") != "arr":
        raise Broken("%s[] not found in tune2fs.c" % name)
    out = {}
    for i, e in enumerate(g[0]["init"]["e"]):
        out[i] = T.const(e) or 0
    names = {0: "E2P_FEATURE_COMPAT", 1: "E2P_FEATURE_INCOMPAT", 2: "E2P_FEATURE_RO_INCOMPAT"}
    res = {}
    for i, v in out.items():
        res[names.get(i, str(i))] = v
        res[str(i)] = v
    return res


def _mask_names(world, prog, name):
    g = [x for x in world.globals_named(name, prog) if x["file"] == TF]
    out = set()
    for e in g[0]["init"]["e"]:
        out |= T.macros(e)
    return out
