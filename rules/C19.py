"""C19 — e2image images preserve all metadata and never touch the source: coverage of the metadata
discovery, shape of the writers' walks, bounds of the qcow2 reader.  DESIGN.md §8.6 C19."""
from vlib import tree as T
from vlib import absint, width
from vlib.rulelib import *
from vlib.engine import Broken, line_path

EXPLANATION = (
    "Exhaustiveness/GUARD/PURITY rules over misc/e2image.c and lib/ext2fs/qcow2.c: every block-location accessor of the "
    "group descriptor (enumerated from blknum.c), the primary superblock, its descriptor blocks and the MMP block is marked "
    "in the metadata map over all groups, restricted by nothing but the UNINIT flags / a zero location / the MMP feature; for "
    "every in-use inode the xattr block is marked; directories, symlinks, the journal, every quota type (enumerated from "
    "enum quota_type) and the orphan file have all their blocks marked by a callback that marks unconditionally; every other "
    "inode is walked whenever it has any mapping root - the extents flag and each of the indirect roots "
    "i_block[IND], [DIND], [TIND] (index sets evaluated through one helper and constant loop bounds) - and its callback "
    "marks every mapping block (blockcnt < 0) whatever else holds; the walks include metadata blocks (no DATA_ONLY flag); "
    "both writers scan block numbers up to ext2fs_blocks_count and copy exactly the marked ones; the source is opened "
    "without EXT2_FLAG_RW; the qcow2-to-raw reader bounds table offsets by the size of the qcow2 file (not of the file "
    "system) and extends the output only when it is shorter than the file system; no 32-bit complement mask on 64-bit "
    "offsets.  Decides that no metadata class is left out of an image on any file system; not the qcow2 L1/L2/refcount "
    "arithmetic.")

E2I = "misc/e2image.c"
QC = "lib/ext2fs/qcow2.c"


def _marks(fn):
    return [n for n in calls_to(fn, "ext2fs_mark_block_bitmap2", "ext2fs_mark_block_bitmap_range2")
            if T.path(arg(n, 0)) == "meta_block_map"]


def _calls_in(e):
    return {c.get("fn") for c in T.calls(e) if c.get("fn")}


_depends_on = depends_on


def iblock_indices(prog, fn, atoms, depth=1):
    """constant i_block[] indices tested by the given condition atoms, following calls to functions of
    the same file one level and evaluating constant for-loop ranges"""
    out = set()

    def scan_fn(g):
        res = set()
        subs = []
        for line, e in width._exprs_of(g):
            for x in T.walk(e):
                if isinstance(x, dict) and x.get("k") == "x" and T.last_field(x.get("b")) and \
                        T.last_field(x["b"])[1] == "i_block":
                    subs.append(x)
        for x in subs:
            c = T.const(x.get("i"))
            if c is not None:
                res.add(c)
                continue
            iv = T.path(x.get("i"))
            if not iv:
                continue
            # induction variable: `iv = C0` ... loop condition `iv < C1` / `iv <= C1`
            inits = [T.const(n.ev.get("rhs")) for n in g.events("S") if T.path(n.ev["lhs"]) == iv and n.ev.get("o") == "="]
            inits = [c for c in inits if c is not None]
            bounds = []
            for bid, b in g.blocks.items():
                t = b.get("t")
                if not t or not isinstance(t.get("c"), dict):
                    continue
                c0 = T.strip(t["c"])
                if isinstance(c0, dict) and c0.get("k") == "b" and c0.get("o") in ("<", "<=") and T.path(c0["l"]) == iv:
                    k = T.const(c0["r"])
                    if k is not None:
                        bounds.append(k if c0["o"] == "<=" else k - 1)
            if inits and bounds:
                res |= set(range(min(inits), max(bounds) + 1))
        return res

    for a in atoms:
        for x in T.walk(a):
            if isinstance(x, dict) and x.get("k") == "x" and T.last_field(x.get("b")) and T.last_field(x["b"])[1] == "i_block":
                c = T.const(x.get("i"))
                if c is not None:
                    out.add(c)
        if depth > 0:
            for c in T.calls(a):
                if c.get("fn"):
                    for g in prog.lookup(c["fn"], fn):
                        if g.file == fn.file:
                            out |= scan_fn(g)
    return out


def run(world, rep, tier, only=None):
    prog = world.program("e2image")
    ef = {f.name: f for f in prog.fns_in_file(E2I)}
    for need in ("mark_table_blocks", "write_raw_image_file", "process_dir_block", "process_file_block",
                 "output_meta_data_blocks", "output_qcow2_meta_data_blocks", "main"):
        if need not in ef:
            raise Broken("%s:%s not found" % (E2I, need))
    mt, wr = ef["mark_table_blocks"], ef["write_raw_image_file"]

    # ------------------------------------------------------------------ C19.a table classes
    # classes enumerated from the source: block-location accessors of the group descriptor
    locs = sorted(f.name for f in prog.fns_in_file("lib/ext2fs/blknum.c")
                  if f.name.startswith("ext2fs_") and f.name.endswith("_loc") and len(f.raw["params"]) == 2)
    rep.floor("C19.a group-descriptor location accessors in blknum.c", len(locs), 3)
    tmarks = _marks(mt)
    rep.floor("C19.a marks in mark_table_blocks", len(tmarks), 5)
    ALLOWED_TABLE_GUARDS = ("EXT2_BG_INODE_UNINIT", "EXT2_BG_BLOCK_UNINIT", "EXT4_FEATURE_INCOMPAT_MMP")

    def table_guard_ok(a):
        a0 = T.strip(a)
        ms = T.macros(a)
        names = _calls_in(a)
        if any(m in ms for m in ALLOWED_TABLE_GUARDS):
            return True
        if names & set(locs) or "ext2fs_has_feature_mmp" in names:
            return True      # `location != 0`
        if "output_is_blk" in T.vars_in(a) or "ext2fs_has_group_desc_csum" in names:
            return True      # widening conditions of the unused-itable shortcut
        fl = T.field_names(a)
        if fl & {"group_desc_count", "desc_blocks", "inode_blocks_per_group"}:
            return True      # loop bounds
        if T.vars_in(a) and isinstance(a0, dict) and a0.get("k") == "b" and a0.get("o") in ("<", "<="):
            return True      # `j < end`
        return False

    for loc in locs:
        ms = [n for n in tmarks if _depends_on(mt, arg(n, 1), lambda y, _l=loc: y.get("k") == "c" and y.get("fn") == _l)]
        rep.ob("C19.a", site(mt, "%s marked" % loc), bool(ms), "ext2fs_mark_block_bitmap2(meta_block_map, … %s(fs, i) …)" % loc)
        for n in ms:
            lits = _silent(mt, prog, n, loops=True)
            extra = [(t, a) for (t, a) in lits if not table_guard_ok(a)]
            in_group_loop = any("group_desc_count" in T.field_names(a) for t, a in lits)
            rep.ob("C19.a", site(mt, "%s marked for every group, restricted only by UNINIT / zero location" % loc),
                   not extra and in_group_loop,
                   "inside the loop over fs->group_desc_count; extra conditions: %s" %
                   [("" if t else "!") + T.pp(a)[:50] for t, a in extra])
    for what, pred in (("primary superblock (s_first_data_block)", lambda y: y.get("k") == "m" and y.get("f") == "s_first_data_block"),
                       ("primary descriptor blocks", lambda y: y.get("k") == "c" and y.get("fn") == "ext2fs_descriptor_block_loc2"),
                       ("MMP block", lambda y: y.get("k") == "m" and y.get("f") == "s_mmp_block")):
        ms = [n for n in tmarks if _depends_on(mt, arg(n, 1), pred)]
        rep.ob("C19.a", site(mt, "%s marked" % what), bool(ms), "mark present")
        for n in ms:
            extra = [(t, a) for (t, a) in _silent(mt, prog, n) if not table_guard_ok(a)]
            rep.ob("C19.a", site(mt, "%s restricted by nothing else" % what), not extra,
                   "extra conditions: %s" % [("" if t else "!") + T.pp(a)[:50] for t, a in extra])
    calls_mt = calls_to(wr, "mark_table_blocks")
    rep.ob("C19.a", site(wr, "table blocks marked on every run"), bool(calls_mt) and not _silent(wr, prog, calls_mt[0]),
           "write_raw_image_file calls mark_table_blocks unconditionally")

    # ------------------------------------------------------------------ C19.b per-inode classes
    wmarks = _marks(wr)
    acl = [n for n in wmarks if "ext2fs_file_acl_block" in _calls_in(arg(n, 1))]
    rep.ob("C19.b", site(wr, "xattr block marked"), bool(acl), "mark(meta_block_map, ext2fs_file_acl_block(fs, &inode))")

    def inode_loop_guard_ok(a):
        names = _calls_in(a)
        fl = T.field_names(a)
        return bool(names & {"ext2fs_file_acl_block"}) or bool(fl & {"i_links_count", "s_last_orphan", "i_dtime"}) or T.path(a) in ("ino", "retval") or \
            "retval" in T.vars_in(a) or "ino" in T.vars_in(a) and not fl or isinstance(T.strip(a), dict) and T.const(a) is not None
    for n in acl:
        extra = [(t, a) for (t, a) in _silent(wr, prog, n) if not inode_loop_guard_ok(a)]
        rep.ob("C19.b", site(wr, "xattr block of every in-use inode"), not extra,
               "restricted only by i_links_count / a non-zero i_file_acl: extra %s" %
               [("" if t else "!") + T.pp(a)[:50] for t, a in extra])
    its = calls_to(wr, "ext2fs_block_iterate3", "ext2fs_block_iterate2", "ext2fs_block_iterate")
    # an inode without links is not dead while it is on the orphan list (e2fsck releases its blocks through its mapping
    # blocks): where the link count decides whether an inode is looked at, the orphan list (s_last_orphan / the i_dtime
    # link of the list) is part of the same decision
    for i, n in enumerate(acl + its):
        fl_ = set()
        for t, a in _silent(wr, prog, n):
            fl_ |= T.field_names(a)
        rep.ob("C19.b", site(wr, "unlinked inodes are passed over only off the orphan list#%d" % i),
               "i_links_count" not in fl_ or bool(fl_ & {"s_last_orphan", "i_dtime"}),
               "conditions on the way to `%s` read %s" % (n.text()[:30], sorted(fl_ & {"i_links_count", "s_last_orphan", "i_dtime"})))
    def cb(c, name):
        return any(isinstance(T.strip(a), dict) and T.strip(a).get("k") == "fn" and T.strip(a).get("n") == name
                   for a in c.ev["x"].get("a", []))
    dir_it = [c for c in its if cb(c, "process_dir_block")]
    file_it = [c for c in its if cb(c, "process_file_block")]
    rep.floor("C19.b block walks in write_raw_image_file", min(len(dir_it), len(file_it)), 1)
    for c in its:
        fl = T.const(arg(c, 2))
        ms = T.macros(arg(c, 2) or {})
        rep.ob("C19.b", site(wr, "walk#%d visits mapping blocks" % its.index(c)),
               "BLOCK_FLAG_DATA_ONLY" not in ms and (fl is None or not (fl & (named_const(prog, "BLOCK_FLAG_DATA_ONLY") or 4))),
               "ext2fs_block_iterate3 flags `%s` do not contain BLOCK_FLAG_DATA_ONLY" % T.pp(arg(c, 2))[:40])
    # the all-blocks classes: the alternatives of the condition that selects process_dir_block
    for c in dir_it:
        # the || chain selecting this walk: literals of the blocks from which the call is the true-successor
        alts = _or_alternatives(wr, c)
        names = set()
        for a in alts:
            ms = T.macros(a)
            fl = T.field_names(a)
            if "LINUX_S_ISDIR" in ms or "LINUX_S_IFDIR" in ms:
                names.add("directory")
            if "LINUX_S_ISLNK" in ms or "LINUX_S_IFLNK" in ms:
                names.add("symlink")
            if "s_journal_inum" in fl:
                names.add("journal")
            if "s_orphan_file_inum" in fl:
                names.add("orphan file")
            for q in T.calls(a):
                if q.get("fn") == "quota_type2inum":
                    names.add("quota:%s" % (T.pp(q["a"][0]) if q.get("a") else "?"))
        want = {"directory", "symlink", "journal", "orphan file"}
        rep.ob("C19.b", site(wr, "all blocks of directories, symlinks, journal and orphan file are imaged"), want <= names,
               "alternatives selecting the mark-everything walk: %s" % sorted(names))
        nq = len([x for x in names if x.startswith("quota:")])
        maxq = named_const(prog, "MAXQUOTAS")
        rep.ob("C19.b", site(wr, "every quota type's file is imaged"), maxq is not None and nq >= maxq,
               "%d quota_type2inum alternatives, MAXQUOTAS = %s" % (nq, maxq))
    # the mapping-root test in front of the file walk
    for c in file_it:
        alts = _or_alternatives(wr, c)
        # the conditions deciding whether this inode is walked: the literals of the inode loop's body from which
        # the walk is still reachable, on the side of the all-blocks classes' else arm (a helper the test was
        # moved into is part of this function, or followed one level)
        hb = loop_head(wr, c)
        body = wr.reach([wr.node(wr.blocks[hb]["s"][0], 0)], avoid=[wr.block_end(hb)]) if hb is not None else set(wr.nodes())
        back = wr.reach_back([c])
        dir_side = set()
        for d_ in dir_it:
            dir_side |= wr.reach_back([d_]) - back
        region_atoms = list(alts)
        for bid in wr.blocks:
            end = wr.block_end(bid)
            lit = wr.literal(bid)
            if lit and end in body and end in back and end not in dir_side:
                region_atoms.append(lit[0])
        # also the stores feeding a result variable of an absorbed helper (`$ret = inode->i_block[i] != 0`)
        for n in wr.events("S"):
            if n in body and n in back and isinstance(n.ev.get("rhs"), dict):
                region_atoms.append(n.ev["rhs"])
        idx = iblock_indices(prog, wr, region_atoms) | _induction_indices(wr, region_atoms)
        ext = any("EXT4_EXTENTS_FL" in T.macros(a) for a in region_atoms) or any(
            "EXT4_EXTENTS_FL" in T.macros(e) for a in region_atoms for cc in T.calls(a) if cc.get("fn")
            for g in prog.lookup(cc["fn"], wr) if g.file == E2I for _l, e in width._exprs_of(g))
        ind = {named_const(prog, "EXT2_IND_BLOCK"), named_const(prog, "EXT2_DIND_BLOCK"), named_const(prog, "EXT2_TIND_BLOCK")}
        if None in ind:
            raise Broken("indirect root indices not found as constants")
        rep.ob("C19.b", site(wr, "an inode with any indirect root is walked"), ind <= idx,
               "i_block indices tested before skipping the walk: %s; roots: %s" % (sorted(idx), sorted(ind)))
        rep.ob("C19.b", site(wr, "an extent-mapped inode is walked"), ext, "EXT4_EXTENTS_FL is one of the alternatives")
        allowed = []
        for (t, a) in _silent(wr, prog, c):
            if any(a is x for x in alts) or inode_loop_guard_ok(a) or "ext2fs_inode_has_valid_blocks2" in _calls_in(a):
                continue
            ms = T.macros(a)
            if t is False and (("LINUX_S_ISDIR" in ms) or ("LINUX_S_ISLNK" in ms) or "quota_type2inum" in _calls_in(a) or
                               T.field_names(a) & {"s_journal_inum", "s_orphan_file_inum"}):
                continue        # the else-side of the all-blocks classes
            allowed.append((t, a))
        rep.ob("C19.b", site(wr, "file walk restricted by nothing else"), not allowed,
               "extra conditions: %s" % [("" if t else "!") + T.pp(a)[:50] for t, a in allowed])

    # ------------------------------------------------------------------ C19.c the callbacks
    pd, pf = ef["process_dir_block"], ef["process_file_block"]
    dm = _marks(pd)
    rep.ob("C19.c", site(pd, "marks every block it is shown"), bool(dm) and any(not _silent(pd, prog, n) for n in dm),
           "an unconditional mark(meta_block_map, *block_nr)")
    fm = _marks(pf)
    rep.floor("C19.c mark in process_file_block", len(fm), 1)
    neg_edges = {}
    for bid in pf.blocks:
        lit = pf.literal(bid)
        if not lit:
            continue
        a = T.strip(lit[0])
        if isinstance(a, dict) and a.get("k") == "b" and a.get("o") in ("<", "<=", ">=", ">") and T.path(a["l"]) == "blockcnt" \
                and T.const(a["r"]) == 0:
            # truth of (blockcnt < 0) on succ 0
            neg_when_atom_true = a["o"] in ("<",)
            if a["o"] in ("<", ">="):
                neg_edges[pf.block_end(bid)] = (0 if (lit[1] == neg_when_atom_true) else 1)
    rep.ob("C19.c", site(pf, "mapping blocks are recognised by a negative block count"), bool(neg_edges), "blockcnt < 0 is tested")

    def neg_only(n, si, m, _e=neg_edges):
        return not (n in _e and si != _e[n])
    r = pf.reach([pf.entry_node()], avoid=fm, edge_ok=neg_only)
    rep.ob("C19.c", site(pf, "every mapping block is marked whatever else holds"), pf.exit_node() not in r,
           "with blockcnt < 0 no path reaches the return without mark(meta_block_map, *block_nr)")

    # ------------------------------------------------------------------ C19.d writers copy exactly the marked blocks, over the whole fs
    for fn in (ef["output_meta_data_blocks"], ef["output_qcow2_meta_data_blocks"]):
        tests = [bid for bid in fn.blocks if fn.literal(bid) and any(
            c.get("fn") == "ext2fs_test_block_bitmap2" and T.path(c["a"][0]) == "meta_block_map" for c in T.calls(fn.literal(bid)[0]))]
        rep.floor("C19.d metadata-map tests in %s" % fn.name, len(tests), 1)
        reads = calls_to(fn, "io_channel_read_blk64")
        for i, rd in enumerate(reads):
            lits = _silent(fn, prog, rd, loops=True)
            ok = any(t and any(c.get("fn") == "ext2fs_test_block_bitmap2" for c in T.calls(a)) for t, a in lits)
            bound = any(lp and _depends_on(fn, a, lambda y: y.get("k") == "c" and y.get("fn") == "ext2fs_blocks_count")
                        for (bid, t, a, lp) in silent_lits(fn, prog, rd))
            rep.ob("C19.d", site(fn, "copies the marked blocks#%d" % i), ok, "the source read is conditional on the metadata map")
            rep.ob("C19.d", site(fn, "scans the whole file system#%d" % i), bound,
                   "the scan loop is bounded by ext2fs_blocks_count(fs->super) (64-bit)")
            extra = [(t, a) for (t, a) in _silent(fn, prog, rd) if not (
                any(c.get("fn") in ("ext2fs_test_block_bitmap2", "ext2fs_blocks_count") for c in T.calls(a))
                or "s_first_data_block" in T.field_names(a))]
            rep.ob("C19.d", site(fn, "no marked block is skipped#%d" % i), not extra,
                   "extra conditions on the copy: %s" % [("" if t else "!") + T.pp(a)[:50] for t, a in extra])

    # ------------------------------------------------------------------ C19.e the source is opened read-only
    mn = ef["main"]
    opens = calls_to(mn, "ext2fs_open2", "ext2fs_open")
    rep.floor("C19.e open of the source in e2image main", len(opens), 1)
    rw = [n for n in mn.events("S") if "EXT2_FLAG_RW" in T.macros(n.ev.get("rhs") or {})]
    rw += [c for c in opens if any("EXT2_FLAG_RW" in T.macros(a) for a in c.ev["x"].get("a", []))]
    rep.ob("C19.e", site(mn, "source opened without EXT2_FLAG_RW"), not rw,
           "no store or argument in main introduces EXT2_FLAG_RW: %s" % [n.line for n in rw])

    # ------------------------------------------------------------------ C19.f qcow2 -> raw reader
    lib = prog
    q = lib.fn("qcow2_write_raw_image", QC)
    l2 = calls_to(q, "qcow2_read_l2_table")
    rep.floor("C19.f L2 table reads in qcow2_write_raw_image", len(l2), 1)
    for i, c in enumerate(l2):
        offv = T.path(arg(c, 1))
        lits = control_lits(q, c)
        uppers = []
        for (t, a) in lits:
            a0 = T.strip(a)
            if isinstance(a0, dict) and a0.get("k") == "b" and a0.get("o") in ("<", "<=", ">", ">=") and offv in (T.path(a0["l"]), T.path(a0["r"])):
                other = a0["r"] if T.path(a0["l"]) == offv else a0["l"]
                if T.const(other) is None:
                    uppers.append(other)
        def is_file_size(e):
            return _depends_on(q, e, lambda y: y.get("k") == "c" and y.get("fn") in ("ext2fs_llseek", "lseek", "lseek64", "fstat", "fstat64", "ext2fs_fstat")
                               and (any("SEEK_END" in T.macros(a) for a in y.get("a", [])) or y.get("fn", "").startswith(("fstat", "ext2fs_fstat"))))
        def is_fs_size(e):
            return _depends_on(q, e, lambda y: y.get("k") == "m" and y.get("f") in ("image_size", "size"))
        bad = [T.pp(u)[:40] for u in uppers if is_fs_size(u) and not is_file_size(u)]
        rep.ob("C19.f", site(q, "table offsets are bounded by the qcow2 file, not by the file-system size#%d" % i), not bad,
               "upper bounds on `%s` (a position in the qcow2 file): %s" % (offv, [T.pp(u)[:40] for u in uppers]))
    # the size-fixing write at image_size - 1 must not be unconditional
    seeks = [c for c in calls_to(q, "ext2fs_llseek") if T.path(arg(c, 0)) == "raw_fd" and
             "image_size" in T.field_names(arg(c, 1) or {})]
    for i, c in enumerate(seeks):
        lits = control_lits(q, c)
        ok = any("image_size" in T.field_names(a) for t, a in lits)
        rep.ob("C19.f", site(q, "output extended only when shorter than the file system#%d" % i), ok,
               "the seek to image_size - 1 (followed by a one-byte write) is conditional on a comparison with image_size")
    rep.floor("C19.f size-fixing seek in qcow2_write_raw_image", len(seeks), 1)
    copies = calls_to(q, "qcow2_copy_data")
    rep.floor("C19.f cluster copies", len(copies), 1)
    for i, c in enumerate(copies):
        lits = _silent(q, prog, c)
        extra = [(t, a) for (t, a) in lits if not (set(T.vars_in(a)) & {"offset"})]
        rep.ob("C19.f", site(q, "every mapped cluster is copied#%d" % i), not extra,
               "extra conditions on the copy: %s" % [("" if t else "!") + T.pp(a)[:50] for t, a in extra])

    # ------------------------------------------------------------------ C19.g zero blocks are skipped only on a target known to be empty
    # The raw writer may leave an all-zero metadata block as a hole instead of writing it, but raw targets are opened
    # without O_TRUNC: on a file that already has content the old bytes would stay where the zeros belong.  The flag
    # that enables the shortcut is set only when the target did not exist before.
    zs = [n for n in mn.events("S") if store_sets_bits(n, "E2IMAGE_CHECK_ZERO_FLAG")]
    rep.floor("C19.g stores of E2IMAGE_CHECK_ZERO_FLAG in main", len(zs), 1)
    for i, n in enumerate(zs):
        lits = control_lits(mn, n)
        fresh = any(t and any(cc.get("fn") == "access" and "F_OK" in T.macros(cc["a"][1]) for cc in T.calls(a)) for t, a in lits) or \
            any("O_TRUNC" in T.macros(a) or "O_EXCL" in T.macros(a) for t, a in lits if t)
        rep.ob("C19.g", site(mn, "zero-block skipping only for a target that did not exist#%d" % i), fresh,
               "flags |= E2IMAGE_CHECK_ZERO_FLAG under access(image_fn, F_OK) != 0: guards %s" %
               [("" if t else "!") + T.pp(a)[:40] for t, a in lits][-3:])

    # the qcow2-to-raw reader writes only the clusters the qcow2 image holds (all-zero metadata blocks have no entry):
    # it, too, needs an empty output.  Where the output is opened, O_TRUNC is added for this mode as well - one of
    # the alternatives leading to the store tests E2IMAGE_IS_QCOW2_FLAG.
    conv = calls_to(mn, "qcow2_write_raw_image")
    # the open that yields the descriptor handed to the conversion, and where O_TRUNC gets into its flags
    fdv = {T.path(arg(c, 1)) for c in conv} - {None}
    opens_ = [n for n in mn.events("S") if T.path(n.ev["lhs"]) in fdv and
              any(cc.get("fn") in ("ext2fs_open_file", "open", "open64") for cc in T.calls(n.ev.get("rhs") or {}))]
    fl_vars, tr = set(), []
    for n in opens_:
        for cc in T.calls(n.ev.get("rhs") or {}):
            if cc.get("fn") in ("ext2fs_open_file", "open", "open64") and len(cc.get("a", [])) > 1:
                fl_vars |= T.vars_in(cc["a"][1])
                if "O_TRUNC" in T.macros(cc["a"][1]):
                    tr.append(n)
    tr += [n for n in mn.events("S") if "O_TRUNC" in T.macros(n.ev.get("rhs") or {}) and T.path(n.ev["lhs"]) in fl_vars]
    rep.floor("C19.g conversion call / O_TRUNC store in main", min(len(conv), len(tr)), 1)
    qc = lambda y: isinstance(y, dict) and "E2IMAGE_IS_QCOW2_FLAG" in T.macros(y)
    alt = []
    for n in tr:
        conds = [a for t, a in control_lits(mn, n) + restrict_lits(mn, n) if t is not None]
        # ... and the conditions of conditional expressions the constant sits in (`c ? flags : flags | O_TRUNC`)
        for key in ("x", "rhs"):
            e = n.ev.get(key)
            if isinstance(e, dict):
                for y in T.walk(e):
                    if isinstance(y, dict) and y.get("k") == "?" and ("O_TRUNC" in T.macros(y.get("t") or {}) or "O_TRUNC" in T.macros(y.get("f") or {})):
                        conds.append(y.get("c0"))
        def tests_bit(a, d=2):
            # the condition itself - through locals assigned once (`keep = … && !(flags & IS_QCOW2)`) - names the bit;
            # going through every store to `flags` would make any test of `flags` count
            if qc(a):
                return True
            if d <= 0:
                return False
            for y in T.walk(a):
                if isinstance(y, dict) and y.get("k") == "v" and y.get("s") == "l":
                    r_ = resolve_local(mn, y)
                    if r_ is not y and tests_bit(r_, d - 1):
                        return True
            return False
        alt += [T.pp(a)[:40] for a in conds if isinstance(a, dict) and tests_bit(a)]
    rep.ob("C19.g", site(mn, "qcow2-to-raw conversion starts from an empty file"), bool(alt),
           "`o_flags |= O_TRUNC` is reached for a qcow2 source: alternatives testing E2IMAGE_IS_QCOW2_FLAG: %s" % alt[:2])

    # ------------------------------------------------------------------ C19.h recycled buffers are cleared over their whole written length
    # L2 tables, the refcount block and the header buffer are written to the image as whole clusters/blocks and then
    # reused; a clear that is shorter than the write leaves entries of the previous use in the next cluster written.
    e2fns = [f for f in prog.functions() if f.file == E2I]
    agree = buffer_clear_agreement(e2fns, {"generic_write": (1, 2)})
    rep.floor("C19.h cleared-and-written buffers in e2image.c", len(agree), 3)
    for i, (f, n, key, sh, acc) in enumerate(agree):
        rep.ob("C19.h", site(f, "clear of %s covers what is written#%d" % ("/".join(key[-2:]), i)), sh in acc,
               "memset length %s; the buffer is written/allocated with %s" % (sh, acc))

    # ------------------------------------------------------------------ C19.i a partial transfer is continued with what is left
    # write() may take fewer bytes than it was given.  The copy loops go on from where it stopped: the pointer moves
    # by the count returned, so the length of the next call has to shrink with it - the original length again
    # would hand write() bytes beyond the buffer and put them into the image after the cluster.
    ptr = partial_transfer_retries(prog.functions())
    rep.floor("C19.i loops continuing a partial read/write", len(ptr), 2)
    for i, (f, n, pv, cnt, ok) in enumerate(ptr):
        rep.ob("C19.i", site(f, "continued transfer asks for the remaining count#%d" % i), ok,
               "`%s` (line %d): %s advances by the result, and so does what the count `%s` is made of" %
               (n.text()[:40], n.line, pv, T.pp(cnt)[:20]))

    # ------------------------------------------------------------------ C19.j a pending hole is never forgotten
    # The raw writer skips zero blocks by counting them (`sparse`) and seeks over the bulk of a long run now and then.
    # After the last block `if (sparse)` is what extends the image to its full size when it ends in a hole.  The counter
    # therefore stays positive as long as the file position lies behind a hole: where it is reduced by a constant K,
    # the guard in front guarantees more than K (`sparse > K`; `sparse >= K` would let it reach 0 behind a hole that
    # is an exact multiple of K, and the image would end short).
    om = ef["output_meta_data_blocks"]
    tail_tests = [b for b in om.blocks if om.literal(b) and T.path(om.literal(b)[0]) is not None and
                  loop_head(om, om.block_end(b)) is None]
    n_red = 0
    for n in om.events("S"):
        v = T.path(n.ev["lhs"])
        k_ = T.const(n.ev.get("rhs"))
        if n.ev.get("o") != "-=" or k_ is None or v is None or not any(T.path(om.literal(b)[0]) == v for b in tail_tests):
            continue
        n_red += 1
        ok = False
        for t, a_ in control_lits(om, n):
            a0 = T.strip(a_)
            if t is None or not (isinstance(a0, dict) and a0.get("k") == "b" and a0.get("o") in ("<", "<=", ">", ">=")):
                continue
            l_, r_, o_ = a0["l"], a0["r"], a0["o"]
            if T.path(r_) == v:
                l_, r_, o_ = r_, l_, {"<": ">", "<=": ">=", ">": "<", ">=": "<="}[o_]
            c_ = T.const(r_)
            if T.path(l_) != v or c_ is None:
                continue
            if not t:
                o_ = {"<": ">=", "<=": ">", ">": "<=", ">=": "<"}[o_]
            if (o_ == ">" and c_ >= k_) or (o_ == ">=" and c_ > k_):
                ok = True
        rep.ob("C19.j", site(om, "%s stays positive when it is reduced#%d" % (v, n_red)), ok,
               "`%s` (line %d) lies behind a test that guarantees %s > %d" % (n.text()[:30], n.line, v, k_))
    rep.floor("C19.j reductions of the pending-hole counter in output_meta_data_blocks", n_red, 1)

    # ------------------------------------------------------------------ C19.k a cluster reserved for an L2 table is not handed to a refcount block
    # When add_l2_item() reports that the next L2 table needs a cluster, the writer reserves the cluster at `offset` for
    # it and refcounts it.  If that refcount starts a new refcount block, the block has to go *behind* the reserved
    # cluster: the update_refcount() call that follows add_l2_item() is given a refcount-block position different from
    # the cluster it counts (offset + cluster_size), unlike the call for a data cluster not yet written.
    oq = ef["output_qcow2_meta_data_blocks"]
    l2 = [oq.block_end(b) for b in oq.blocks if oq.literal(b) and
          any(cc.get("fn") == "add_l2_item" for cc in T.calls(resolve_local(oq, oq.literal(b)[0])))]     # or its saved result
    rep.floor("C19.k add_l2_item test in output_qcow2_meta_data_blocks", len(l2), 1)
    ur = []
    for n in oq.nodes():
        lit = oq.literal(n.bid) if n is oq.block_end(n.bid) else None
        cs_ = ([n.ev["x"]] if n.ev and n.ev["e"] == "C" else []) + (T.calls(lit[0]) if lit else [])
        for cc in cs_:
            if cc.get("fn") == "update_refcount" and len(cc.get("a", [])) >= 4:
                ur.append((n, cc))
    for e_ in l2:
        lit = oq.literal(e_.bid)
        inside = [m for (m, si) in oq.succ(e_) if (si == 0) == lit[1]]
        hb_ = loop_head(oq, e_)
        r = oq.reach(inside, avoid=l2 + ([oq.node(hb_, 0)] if hb_ is not None else []))       # this turn of the loop only
        # the nearest one on the way (breadth first; an absorbed helper's nodes carry the helper's line numbers)
        urn = {id(n): (n, cc) for (n, cc) in ur}
        first, seen_, frontier = [], set(), list(inside)
        stop_ = set(l2) | ({oq.node(hb_, 0)} if hb_ is not None else set())
        while frontier and not first:
            nxt = []
            for m in frontier:
                if id(m) in seen_ or m in stop_:
                    continue
                seen_.add(id(m))
                if id(m) in urn:
                    first = [urn[id(m)]]
                    break
                nxt += [x for (x, si) in oq.succ(m)]
            frontier = nxt
        for (n, cc) in first:
            same = T.pp(cc["a"][2]) == T.pp(cc["a"][3])
            rep.ob("C19.k", site(oq, "refcount block for the reserved L2 cluster placed behind it"), not same,
                   "update_refcount(fd, img, %s, %s) after add_l2_item(): the position of a new refcount block differs from the cluster counted" %
                   (T.pp(cc["a"][2])[:20], T.pp(cc["a"][3])[:30]))

    # ------------------------------------------------------------------ C19.w offset width
    fns = [f for f in prog.functions() if f.file in (E2I, QC, "lib/ext2fs/imager.c")]
    hits, n_and = width.zx_masks(fns)
    rep.floor("C19.w mask operations examined", n_and, 10)
    rep.ob("C19.w", "misc/e2image.c,lib/ext2fs/qcow2.c:*:no 32-bit complement mask on a 64-bit offset", not hits,
           "%d `&` operations examined; hits: %s" % (n_and, [(f.file, f.name, l, t[:50]) for f, l, z, t in hits]))


def _induction_indices(fn, atoms):
    """i_block[iv] tests inside fn itself: the index range of the induction variable (constant init and bound)"""
    res = set()
    for a in atoms:
        for x in T.walk(a):
            if not (isinstance(x, dict) and x.get("k") == "x" and T.last_field(x.get("b")) and T.last_field(x["b"])[1] == "i_block"):
                continue
            if T.const(x.get("i")) is not None:
                continue
            iv = T.path(x.get("i"))
            if not iv:
                continue
            inits = [T.const(n.ev.get("rhs")) for n in fn.events("S") if T.path(n.ev["lhs"]) == iv and n.ev.get("o") == "="]
            inits = [k for k in inits if k is not None]
            bounds = []
            for bid, b in fn.blocks.items():
                t = b.get("t")
                if not t or not isinstance(t.get("c"), dict):
                    continue
                c0 = T.strip(t["c"])
                if isinstance(c0, dict) and c0.get("k") == "b" and c0.get("o") in ("<", "<=") and T.path(c0["l"]) == iv:
                    k = T.const(c0["r"])
                    if k is not None:
                        bounds.append(k if c0["o"] == "<=" else k - 1)
            if inits and bounds:
                res |= set(range(min(inits), max(bounds) + 1))
    return res


def _silent(fn, prog, node, loops=False):
    return [(t, a) for (bid, t, a, lp) in silent_lits(fn, prog, node) if loops or not lp]


def _or_alternatives(fn, call):
    """atoms of the `a || b || …` chain whose true edges lead (without another test) to the call:
    every block literal from whose taken edge the call is reached on all paths"""
    out = []
    for bid in fn.blocks:
        lit = fn.literal(bid)
        if not lit:
            continue
        end = fn.block_end(bid)
        atom, pos = lit
        si = 0 if pos else 1          # the edge on which the atom is true
        starts = [m for (m, i) in fn.succ(end) if i == si]
        if not starts:
            continue
        # from that edge the call is reached before any other branch decides
        cur = starts[0]
        steps = 0
        hit = False
        while cur is not None and steps < 40:
            if cur is call:
                hit = True
                break
            nxt = fn.succ(cur)
            if len(nxt) != 1:
                break
            cur = nxt[0][0]
            steps += 1
        if hit:
            out.append(atom)
    return out


