"""C10 — directory operations keep the namespace exact: iterator-callback discipline, link-count limits,
release pairing on removal, mkdir ordering and roll-back.  DESIGN.md §8.6 C10."""
from vlib import tree as T
from vlib import absint
from vlib.engine import Broken, line_path
from vlib.rulelib import *

EXPLANATION = (
    "Typestate/ORDER/PAIRING rules over lib/ext2fs/{link,unlink,mkdir}.c, debugfs/debugfs.c, misc/create_inode.c and the "
    "directory-iterator callbacks of the whole tree: a callback that changed a directory entry reports DIRENT_CHANGED on "
    "every non-error return (otherwise the block is not written back); a callback that merges an entry into its predecessor "
    "is run with DIRENT_FLAG_INCLUDE_EMPTY, so that the predecessor it remembers is the physical one; every increment of an "
    "inode's link count is limited by EXT2_LINK_MAX / the dir_nlink rule; ext2fs_mkdir writes the new inode and directory "
    "block before the name is linked into the parent, bumps the parent's count only after the link succeeded, refuses an "
    "over-full parent before anything is allocated, and rolls the block/inode accounting back on every failure after it; "
    "debugfs removal marks the inode deleted, releases its data blocks, its extended-attribute block and the inode itself on "
    "every path, rmdir refuses a non-empty directory before anything is touched and lowers the parent's count; every site "
    "that hashes directory names passes a hash version adjusted for the superblock's unsigned-hash flag; ext2fs_link "
    "and ext2fs_unlink report the callback's error and 'not found'.  Decides the bookkeeping on every path for every "
    "history; not hash order, leaf splitting or rec_len arithmetic.")

DIRENT_RECS = ("ext2_dir_entry", "ext2_dir_entry_2")
DIRENT_SETTERS = ("ext2fs_set_rec_len", "ext2fs_dirent_set_name_len", "ext2fs_dirent_set_file_type")


def _dirent_store(n):
    if not n.ev or n.ev["e"] != "S":
        return False
    lf = T.last_field(n.ev["lhs"])
    return lf is not None and lf[0] in DIRENT_RECS and lf[1] in ("inode", "rec_len", "name_len", "name")


def _dirent_vars(fn):
    """parameters / locals of type struct ext2_dir_entry *"""
    out = set()
    for p in fn.raw["params"]:
        if "ext2_dir_entry" in p["t"]:
            out.add(p["n"])
    for l in fn.raw.get("locals", []):
        if "ext2_dir_entry" in l.get("t", ""):
            out.add(l["n"])
    return out


def callbacks_of(prog, names=("ext2fs_dir_iterate", "ext2fs_dir_iterate2", "ext2fs_dblist_dir_iterate")):
    """{callback fn: [(caller fn, call node, flags arg)]}"""
    out = {}
    for f in prog.functions():
        for c in calls_to(f, *names):
            for a in c.ev["x"].get("a", []):
                a0 = T.strip(a)
                while isinstance(a0, dict) and a0.get("k") in ("u", "cast"):
                    a0 = T.strip(a0.get("e"))
                if isinstance(a0, dict) and a0.get("k") == "fn":
                    for g in prog.lookup(a0["n"], f):
                        out.setdefault(g.key, (g, []))[1].append((f, c))
    return out


ITER_FLAGS_ARG = {"ext2fs_dir_iterate": 2, "ext2fs_dir_iterate2": 2, "ext2fs_dblist_dir_iterate": 1}


def empty_entry_sites(prog):
    """[(caller, call, callback, why, ok, flags-arg)] for every directory iteration whose callback depends on being
    shown unused (inode 0) entries:
      (a) it merges an entry into the predecessor it remembered from the previous call, or
      (b) it can report DIRENT_CHANGED for an entry whose inode is 0 (it does work before its `!dirent->inode` test -
          e.g. forcing every block of a renumbered directory to be rewritten with a new checksum seed)."""
    out = []
    changed = named_const(prog, "DIRENT_CHANGED") or 1
    for key, (g, sites_) in sorted(callbacks_of(prog, tuple(ITER_FLAGS_ARG)).items()):
        dv = _dirent_vars(g)
        why = None
        keeps = [n for n in g.events("S") if T.path(n.ev.get("rhs")) in dv and T.strip(n.ev["lhs"]).get("k") == "m"
                 and T.last_field(n.ev["lhs"])[0] not in DIRENT_RECS]
        if keeps:
            kept_fields = {T.last_field(n.ev["lhs"])[1] for n in keeps}
            loads = [n for n in g.events("S") if T.strip(n.ev["lhs"]).get("k") == "v" and
                     any(f_ in T.field_names(n.ev.get("rhs") or {}) for f_ in kept_fields)]
            prev_vars = {T.path(n.ev["lhs"]) for n in loads}
            if [n for n in g.nodes() if _dirent_store(n) and (T.path(n.ev["lhs"]) or "").split("->")[0] in prev_vars]:
                why = "merges an entry into the remembered predecessor (`%s`)" % sorted(prev_vars)
        if why is None:
            # (b): with every test of dirent->inode taken on its zero side, can a return carry DIRENT_CHANGED?
            zero = {}
            for bid in g.blocks:
                lit = g.literal(bid)
                if lit and T.last_field(lit[0]) and T.last_field(lit[0])[0] in DIRENT_RECS and T.last_field(lit[0])[1] == "inode" \
                        and (T.path(lit[0]) or "").split("->")[0] in dv:
                    zero[g.block_end(bid)] = lit[1]
            if zero:
                def inode_zero(n, si, m, _z=zero):
                    return not (n in _z and ((si == 0) == _z[n]))
                ex = absint.Explorer(g, prog)
                terms = ex.run([g.entry_node()], edge_ok=inode_zero)
                for (node, env, fl, st) in terms:
                    if node.ev and node.ev["e"] == "R" and node.ev.get("x") is not None:
                        x = node.ev["x"]
                        v = ex.eval(x, env)
                        if "DIRENT_CHANGED" in T.macros(x) or (isinstance(v, tuple) and v[1] & changed) or \
                                (v in ("NZ", "T") and T.strip(x).get("k") == "v" and any(
                                    "DIRENT_CHANGED" in T.macros(n.ev.get("rhs") or {}) for n in g.events("S")
                                    if T.path(n.ev["lhs"]) == T.path(x))):
                            why = "can report DIRENT_CHANGED for an entry whose inode is 0"
                            break
        if why is None:
            continue
        for (f, c) in sites_:
            nm = [k for k in T.call_names(c.ev["x"]) if k in ITER_FLAGS_ARG]
            fl = arg(c, ITER_FLAGS_ARG[nm[0]]) if nm else None
            out.append((f, c, g, why, "DIRENT_FLAG_INCLUDE_EMPTY" in T.macros(fl or {}), fl))
    return out


def accounting_rollback(prog, fn, callee):
    """-> (#+1 calls, #-1 calls, traces of error returns that passed a +1 and no -1, #successful returns that passed a -1)"""
    acct = [c for c in calls_to(fn, callee) if T.const(arg(c, 2)) == 1]
    un = [c for c in calls_to(fn, callee) if T.const(arg(c, 2)) == -1]
    ex = absint.Explorer(fn, prog)

    def seen2(node, env, flags):
        if node in acct:
            return flags | {"acct"}
        if node in un:
            return flags | {"undone"}
        return flags
    terms = ex.run([fn.entry_node()], on_node=seen2)
    leak = [ex.trace(st)[-6:] for (node, env, fl, st) in terms if node.ev and node.ev["e"] == "R" and "acct" in fl and
            "undone" not in fl and absint._nz(ex.eval(node.ev.get("x"), env))]
    kept = [1 for (node, env, fl, st) in terms if node.ev and node.ev["e"] == "R" and "undone" in fl and
            absint._z(ex.eval(node.ev.get("x"), env))]
    return len(acct), len(un), leak, len(kept)


def run(world, rep, tier, only=None):
    dbg = world.program("debugfs")
    efs = world.program("e2fsck")
    changed = named_const(dbg, "DIRENT_CHANGED")
    if changed is None:
        raise Broken("DIRENT_CHANGED not found")

    # ------------------------------------------------------------------ C10.a a changed entry is reported as changed
    seen_cb = set()
    n_mod = 0
    for prog in (dbg, efs, world.program("mke2fs"), world.program("resize2fs"), world.program("tune2fs")):
        for key, (g, sites_) in sorted(callbacks_of(prog).items()):
            if (g.file, g.name) in seen_cb:
                continue
            seen_cb.add((g.file, g.name))
            dv = _dirent_vars(g)
            mods = [n for n in g.nodes() if _dirent_store(n)]
            mods += [c for c in calls_to(g, *DIRENT_SETTERS)]
            mods += [c for c in calls_to(g, "strncpy", "memcpy", "strcpy") if "name" in T.field_names(arg(c, 0) or {}) and
                     (T.path(arg(c, 0)) or "").split("->")[0] in dv]
            if not mods:
                rep.examined()
                continue
            n_mod += 1
            ex = absint.Explorer(g, prog)

            def seen(node, env, flags, _m=mods):
                return flags | {"modified"} if node in _m else flags
            terms = ex.run([g.entry_node()], on_node=seen)
            bad = []
            for (node, env, fl, st) in terms:
                if not (node.ev and node.ev["e"] == "R") or "modified" not in fl:
                    continue
                x = node.ev.get("x")
                if x is None:
                    continue
                v = ex.eval(x, env)
                if "DIRENT_CHANGED" in T.macros(x) or (isinstance(v, tuple) and v[1] & changed):
                    continue
                # error return: the private struct's error field is known non-zero on this path
                if any(k.endswith("->err") and absint._nz(val) for k, val in env.items()) or \
                        any(k in ("retval", "err") and absint._nz(val) for k, val in env.items()):
                    continue
                bad.append(ex.trace(st)[-6:])
            rep.ob("C10.a", site(g, "a modified entry is reported with DIRENT_CHANGED"), not bad,
                   "%d modification site(s); non-error returns after a modification without DIRENT_CHANGED: %s" %
                   (len(mods), bad[:2]), {"entry": g.name, "paths": bad[:2]} if bad else None)
    rep.floor("C10.a directory-iterator callbacks that modify entries", n_mod, 3)

    # ------------------------------------------------------------------ C10.b callbacks that need unused entries get them
    n_prev = 0
    seen_b = set()
    for prog in (dbg, efs, world.program("resize2fs"), world.program("tune2fs"), world.program("mke2fs")):
        for (f, c, g, why, ok, fl) in empty_entry_sites(prog):
            k = (f.file, f.name, g.name)
            if k in seen_b:
                continue
            seen_b.add(k)
            n_prev += 1
            rep.ob("C10.b", site(f, "%s runs over unused entries too" % g.name), ok,
                   "%s %s, so the iteration flags `%s` must contain DIRENT_FLAG_INCLUDE_EMPTY" % (g.name, why, T.pp(fl)[:40]))
    rep.floor("C10.b callbacks that need unused entries", n_prev, 2)

    # ------------------------------------------------------------------ C10.c link counts are limited
    n_inc = 0
    FILES = ("lib/ext2fs/", "misc/create_inode.c", "debugfs/debugfs.c")
    for prog in (dbg, world.program("mke2fs")):
        for f in prog.functions():
            if not f.file.startswith(FILES) or (f.file, f.name, "c") in seen_cb:
                continue
            incs = [n for n in f.events("S") if T.last_field(n.ev["lhs"]) and T.last_field(n.ev["lhs"])[1] == "i_links_count"
                    and (n.ev.get("o") in ("++", "+=") or (n.ev.get("o") == "=" and "i_links_count" in
                                                          T.field_names(n.ev.get("rhs") or {}) and "+" in T.pp(n.ev.get("rhs"))))]
            if not incs or (f.file, f.name, "c") in seen_cb:
                continue
            seen_cb.add((f.file, f.name, "c"))
            for i, n in enumerate(incs):
                n_inc += 1
                # a comparison of the same inode's count with EXT2_LINK_MAX decides whether the increment runs
                root = (T.path(n.ev["lhs"]) or "").rsplit("->", 1)[0]
                lim = []
                for bid in f.blocks:
                    lit = f.literal(bid)
                    if lit and "EXT2_LINK_MAX" in T.macros(lit[0]) and "i_links_count" in T.field_names(lit[0]):
                        lim.append(f.block_end(bid))
                ok = bool(lim) and f.dominated_by(n, lim)
                rep.ob("C10.c", site(f, "link count increment is limited#%d" % i), ok,
                       "`%s` is preceded on every path by a test of i_links_count against EXT2_LINK_MAX" % n.text()[:40])
    rep.floor("C10.c link count increments in the library and tools", n_inc, 2)

    # ------------------------------------------------------------------ C10.d mkdir ordering and roll-back
    mk = dbg.fn("ext2fs_mkdir", "lib/ext2fs/mkdir.c")
    link = calls_to(mk, "ext2fs_link")
    wi = calls_to(mk, "ext2fs_write_new_inode")
    wb = calls_to(mk, "ext2fs_write_dir_block4", "ext2fs_write_dir_block3", "ext2fs_inline_data_init")
    rep.floor("C10.d link/write calls in ext2fs_mkdir", min(len(link), len(wi), len(wb)), 1)
    for i, l in enumerate(link):
        rep.ob("C10.d", site(mk, "inode written before the name appears#%d" % i), mk.dominated_by(l, wi),
               "ext2fs_write_new_inode dominates ext2fs_link")
        rep.ob("C10.d", site(mk, "directory content written before the name appears#%d" % i), mk.dominated_by(l, wb),
               "the '.'/'..' block (or inline body) is written before ext2fs_link")
        bad = failure_returns(mk, dbg, l)
        rep.ob("C10.d", site(mk, "failed link is returned#%d" % i), not bad, "%s" % [(b[0].line, b[1]) for b in bad[:2]])
    pinc = [n for n in mk.events("S") if T.last_field(n.ev["lhs"]) and T.last_field(n.ev["lhs"])[1] == "i_links_count" and
            "parent" in (T.path(n.ev["lhs"]) or "")]
    rep.floor("C10.d parent link count update in ext2fs_mkdir", len(pinc), 1)
    for i, n in enumerate(pinc):
        rep.ob("C10.d", site(mk, "parent's count changes only after the link succeeded#%d" % i),
               all(l in mk.reach_back([n]) for l in link) and not any(n in mk.reach(mk.after(l)) and False for l in link),
               "ext2fs_link precedes the parent's link-count update")
    pw = [c for c in calls_to(mk, "ext2fs_write_inode") if "parent" in " ".join(T.pp(a) for a in c.ev["x"].get("a", []))]
    rep.ob("C10.d", site(mk, "parent inode written back"), bool(pw) and all(not failure_returns(mk, dbg, c) for c in pw),
           "ext2fs_write_inode(fs, parent, &parent_inode) and its failure is returned")
    # refusal of an over-full parent happens before any accounting
    acct = [c for c in calls_to(mk, "ext2fs_block_alloc_stats2", "ext2fs_inode_alloc_stats2") if T.const(arg(c, 2)) == 1]
    unacct = [c for c in calls_to(mk, "ext2fs_block_alloc_stats2", "ext2fs_inode_alloc_stats2") if T.const(arg(c, 2)) == -1]
    rep.floor("C10.d accounting calls in ext2fs_mkdir", min(len(acct), len(unacct)), 2)
    refus = [n for n in mk.events("S") if T.path(n.ev["lhs"]) == "retval" and "EMLINK" in T.macros(n.ev.get("rhs") or {})]
    rep.ob("C10.d", site(mk, "over-full parent refused before anything is accounted"), bool(refus) and all(
        not any(a in mk.reach_back([r]) for a in acct) for r in refus),
        "retval = EMLINK is not preceded by block/inode accounting")
    # roll-back: an error return after the accounting has passed the inverse accounting
    # (path-sensitive on constants: a clean-up keyed on a flag or a bit mask is followed through its values)
    for (cfn, cfile) in (("ext2fs_mkdir", "lib/ext2fs/mkdir.c"), ("ext2fs_symlink", "lib/ext2fs/symlink.c")):
        cf = dbg.fn(cfn, cfile)
        for callee, what in (("ext2fs_inode_alloc_stats2", "inode"), ("ext2fs_block_alloc_stats2", "block")):
            n_a, n_u, leak, kept = accounting_rollback(dbg, cf, callee)
            rep.floor("C10.d %s accounting and its inverse in %s" % (what, cfn), min(n_a, n_u), 1)
            rep.ob("C10.d", site(cf, "%s accounting rolled back on every failure after it" % what), not leak,
                   "error returns after %s(+1) without %s(-1): %s" % (callee, callee, leak[:2]))
            rep.ob("C10.d", site(cf, "%s accounting kept on success" % what), not kept, "no successful return passes the roll-back")

    # ------------------------------------------------------------------ C10.h a new object's block is accounted before its name is linked
    # (shared with C09.h) linking a name can split an htree leaf or grow the directory, which allocates from the same
    # bitmap: the block already written for the new directory / symlink must be marked in use by then
    from rules import C09
    C09.search_mark_rule(dbg, rep, "C10.h", only_files=("lib/ext2fs/mkdir.c", "lib/ext2fs/symlink.c"), floor=2)

    # ------------------------------------------------------------------ C10.e removal releases everything
    kf = dbg.fn("kill_file_by_inode", "debugfs/debugfs.c")
    ifree = [c for c in calls_to(kf, "ext2fs_inode_alloc_stats2") if T.const(arg(c, 2)) == -1]
    rep.floor("C10.e inode release in kill_file_by_inode", len(ifree), 1)
    may_free_blocks = dbg.may(lambda f, n: is_call(n, "ext2fs_block_alloc_stats2") and T.const(arg(n, 2)) == -1)
    def frees_blocks(f, c):
        return is_call(c, "ext2fs_punch") or (
            is_call(c, "ext2fs_block_iterate3", "ext2fs_block_iterate2") and any(
                isinstance(T.strip(a), dict) and T.strip(a).get("k") == "fn" and
                any(g.key in may_free_blocks for g in dbg.lookup(T.strip(a)["n"], f)) for a in c.ev["x"].get("a", [])))
    # directly, or in a helper the walk was moved into
    blocks = [c for c in kf.call_nodes() if call_reaches(dbg, kf, c, frees_blocks)]
    xattr = [c for c in kf.call_nodes() if call_reaches(dbg, kf, c, lambda f, n: is_call(
        n, "ext2fs_free_ext_attr", "ext2fs_adjust_ea_refcount3", "ext2fs_adjust_ea_refcount2"))]
    dtime = calls_to(kf, "ext2fs_set_dtime") + [n for n in kf.events("S") if T.last_field(n.ev["lhs"]) and
                                                 T.last_field(n.ev["lhs"])[1] == "i_dtime"]
    for i, c in enumerate(ifree):
        rep.ob("C10.e", site(kf, "extended-attribute block released before the inode#%d" % i), bool(xattr) and kf.dominated_by(c, xattr),
               "ext2fs_free_ext_attr dominates ext2fs_inode_alloc_stats2(…, -1, …)")
        rep.ob("C10.e", site(kf, "inode marked deleted before it is released#%d" % i), bool(dtime) and kf.dominated_by(c, dtime),
               "dtime is set on every path to the release")
        # data blocks: released whenever the inode has any (the only permitted guard)
        hv = {}
        for bid in kf.blocks:
            lit = kf.literal(bid)
            if lit and any(cc.get("fn") == "ext2fs_inode_has_valid_blocks2" for cc in T.calls(lit[0])):
                hv[kf.block_end(bid)] = lit[1]
        def has_blocks(n, si, m, _h=hv):
            return not (n in _h and ((si == 0) != _h[n]))
        rep.ob("C10.e", site(kf, "data blocks released before the inode#%d" % i), bool(blocks) and
               kf.dominated_by(c, blocks, edge_ok=has_blocks),
               "when the inode has valid blocks, a block walk that frees them dominates the inode release")
    rd = dbg.fn("do_rmdir", "debugfs/debugfs.c")
    kills = calls_to(rd, "kill_file_by_inode")
    unl = calls_to(rd, "unlink_file_by_name")
    rep.floor("C10.e unlink/kill in do_rmdir", min(len(kills), len(unl)), 1)
    empty = {}
    for bid in rd.blocks:
        lit = rd.literal(bid)
        if lit and "empty" in T.field_names(lit[0]):
            empty[rd.block_end(bid)] = lit
    rep.ob("C10.e", site(rd, "emptiness is tested"), bool(empty), "rds.empty is tested")
    for c in kills + unl:
        rep.ob("C10.e", site(rd, "%s only after the emptiness test" % T.call_names(c.ev["x"])[0]),
               bool(empty) and rd.dominated_by(c, list(empty)), "the test of rds.empty dominates the removal")
    pdec = [n for n in rd.events("S") if T.last_field(n.ev["lhs"]) and T.last_field(n.ev["lhs"])[1] == "i_links_count" and
            n.ev.get("o") in ("--", "-=")]
    rep.ob("C10.e", site(rd, "parent's link count lowered"), bool(pdec), "inode.i_links_count-- for the parent")

    # ------------------------------------------------------------------ C10.g one hash version everywhere
    from vlib import dirhash
    hs = dirhash.sites(dbg, ("lib/ext2fs/link.c", "lib/ext2fs/lookup.c", "lib/ext2fs/namei.c", "debugfs/"))
    rep.floor("C10.g directory-hash call sites in the library and debugfs", len(hs), 3)
    for (f, c, ok, how) in hs:
        if ok is None:
            rep.examined()
            continue
        same = sorted([n for n in calls_to(f, "ext2fs_dirhash2", "ext2fs_dirhash")], key=lambda n: (n.line, n.idx))
        rep.ob("C10.g", site(f, "hash version adjusted for UNSIGNED_HASH#%d" % same.index(c)), ok,
               "ext2fs_dirhash2(%s, …): the version went through the unsigned-hash adjustment (index placement must equal "
               "the kernel's)" % how)

    # ------------------------------------------------------------------ C10.i no stale inode copy is written over a callee's update
    # ext2fs_link() / ext2fs_expand_dir() / the inline-data helpers / a block walk rewrite the on-disk inode they are
    # given (a grown htree, a new block, a converted inline directory).  A caller that then writes its own copy of
    # that inode must have read it again, or size, block count and mapping go back to the old values.
    NS_FILES = ("lib/ext2fs/mkdir.c", "lib/ext2fs/symlink.c", "lib/ext2fs/link.c", "lib/ext2fs/unlink.c", "lib/ext2fs/expanddir.c",
                "lib/ext2fs/orphan.c", "misc/create_inode.c", "misc/create_inode_libarchive.c", "misc/mk_hugefiles.c",
                "misc/fuse2fs.c", "debugfs/")
    n_i = 0
    seen_i = set()
    for pr in (dbg, world.program("mke2fs"), world.program("fuse2fs")):
        for f in pr.functions():
            if not f.file.startswith(NS_FILES) or f.key in seen_i:
                continue
            seen_i.add(f.key)
            for (m, w_, stale) in stale_inode_writes(f):
                n_i += 1
                rep.ob("C10.i", site(f, "inode written at line %d is fresh after %s" % (w_.line, T.call_names(m.ev["x"])[0])), not stale,
                       "every path from `%s` (line %d) to `%s` re-reads the inode into the written copy" %
                       (m.text()[:30], m.line, w_.text()[:40]))
    rep.floor("C10.i rewrite-then-write pairs in the namespace code", n_i, 6)

    # ------------------------------------------------------------------ C10.j creation commands resolve the path and refuse an existing name
    # ext2fs_link() and do_mknod_internal() take a *name* and the directory to put it in, and add the entry without
    # looking: the command level has to cut the path at its last '/' (a name containing one is not a valid entry) and
    # to look the name up first (or create through ext2fs_mkdir/ext2fs_symlink, which do the lookup themselves).
    may_lookup = dbg.may(lambda f, n: is_call(n, "ext2fs_lookup", "ext2fs_namei"))
    n_j = 0
    for (fname, ffile, callee) in (("do_write_internal", "misc/create_inode.c", "ext2fs_link"),
                                   ("do_mkdir_internal", "misc/create_inode.c", "ext2fs_mkdir"),
                                   ("do_symlink_internal", "misc/create_inode.c", "ext2fs_symlink"),
                                   ("do_mknod", "debugfs/debugfs.c", "do_mknod_internal")):
        f = dbg.fn(fname, ffile)
        cs = calls_to(f, callee)
        rep.floor("C10.j creating call in %s" % fname, len(cs), 1)
        split = [n for n in calls_to(f, "strrchr") if T.const(arg(n, 1)) == 47]
        looks = calls_to(f, "ext2fs_namei", "ext2fs_lookup")
        for i, c in enumerate(cs):
            n_j += 1
            rep.ob("C10.j", site(f, "path cut at its last '/' before %s#%d" % (callee, i)), bool(split) and f.dominated_by(c, split),
                   "strrchr(name, '/') dominates the creating call")
            self_looks = any(g.key in may_lookup for g in dbg.callees(f, c.ev["x"]))
            rep.ob("C10.j", site(f, "existing name refused before %s#%d" % (callee, i)),
                   self_looks or (bool(looks) and f.dominated_by(c, looks)),
                   "%s looks the name up itself: %s; a lookup dominates the call: %s" %
                   (callee, self_looks, bool(looks) and f.dominated_by(c, looks)))

    # ------------------------------------------------------------------ C10.k an index node reserves the index tail, a leaf the leaf tail
    # With metadata_csum an htree index block ends in struct ext2_dx_tail (8 bytes), a leaf in struct
    # ext2_dir_entry_tail (12 bytes).  The `limit` written into a new index node must be computed with the former:
    # one entry less than the format gives makes e2fsck and the kernel reject the node.
    n_k = 0
    for f in dbg.fns_in_file("lib/ext2fs/link.c"):
        for st in f.events("S"):
            if T.last_field(st.ev["lhs"]) != ("ext2_dx_countlimit", "limit"):
                continue
            n_k += 1
            def has_sz(nm):
                return depends_on(f, st.ev.get("rhs"), lambda y: isinstance(y, dict) and nm in str(y.get("sz", "")), depth=4)
            uses_leaf = has_sz("ext2_dir_entry_tail")
            rep.ob("C10.k", site(f, "index node limit computed with the index tail#%d" % n_k), not uses_leaf,
                   "`%s` (line %d) does not derive from sizeof(struct ext2_dir_entry_tail); derives from sizeof(struct ext2_dx_tail): %s" %
                   (st.text()[:40], st.line, has_sz("ext2_dx_tail")))
    rep.floor("C10.k stores of an index node's limit in link.c", n_k, 1)

    # ------------------------------------------------------------------ C10.m a split leaves something behind
    # dx_split_leaf() picks the first entry to move, i, by size; when the live entries of a thinned-out leaf do not
    # fill half a block the scan selects all of them (i == 0).  The old leaf is then repacked with nothing - a stale
    # copy of the lowest entry stays in it and the name is listed twice - and map[i - 1] lies in front of the array.
    # Wherever link.c indexes with `v - 1`, the value v has passed a test against 0 (or 1) on every path.
    from vlib import width as _w10
    n_m = 0
    for f in dbg.fns_in_file("lib/ext2fs/link.c"):
        for n in f.nodes():
            if not n.ev:
                continue
            for key in ("x", "lhs", "rhs"):
                e = n.ev.get(key)
                if not isinstance(e, dict):
                    continue
                for x in T.walk(e):
                    if not (isinstance(x, dict) and x.get("k") == "x"):
                        continue
                    ix = T.strip(x.get("i") or {})
                    if not (isinstance(ix, dict) and ix.get("k") == "b" and ix.get("o") == "-" and T.const(ix.get("r")) == 1):
                        continue
                    v = T.strip(ix.get("l"))
                    if not (isinstance(v, dict) and v.get("k") == "v" and v.get("s") == "l"):
                        continue
                    n_m += 1
                    tested = [a_ for t, a_ in control_lits(f, n) if t is not None and v["n"] in T.vars_in(a_) and
                              (T.path(a_) == v["n"] or any(T.const(y) in (0, 1) for y in T.walk(a_) if isinstance(y, dict)))]
                    rep.ob("C10.m", site(f, "index %s - 1 is not in front of the array#%d" % (v["n"], n_m)), bool(tested),
                           "`%s` (line %d): %s has passed a comparison with 0 or 1: %s" % (T.pp(x)[:30], n.line, v["n"], [T.pp(a_)[:20] for a_ in tested][:2]))
    rep.floor("C10.m `v - 1` subscripts in link.c", n_m, 1)

    # ------------------------------------------------------------------ C10.n an inode goes only if its name went
    # debugfs rm / rmdir resolve the path with ext2fs_namei() (which follows links and accepts a trailing slash) and
    # remove the name with a helper that resolves the directory part differently; the removal can fail.  The inode is
    # released - and its link count lowered - only behind the outcome of that removal.
    for nm in ("do_rm", "do_rmdir"):
        f = dbg.fn(nm, "debugfs/debugfs.c")
        kills = calls_to(f, "kill_file_by_inode")
        rep.floor("C10.n release of the inode in %s" % nm, len(kills), 1)
        for i, k in enumerate(kills):
            behind = any(t is not None and (any(cc.get("fn") in ("unlink_file_by_name", "ext2fs_unlink") for cc in T.calls(a_)) or
                                            depends_on(f, a_, lambda y: isinstance(y, dict) and y.get("k") == "c" and
                                                       y.get("fn") in ("unlink_file_by_name", "ext2fs_unlink")))
                         for t, a_ in control_lits(f, k))
            rep.ob("C10.n", site(f, "inode released only when the name was removed#%d" % i), behind,
                   "kill_file_by_inode() lies behind a test of the outcome of unlink_file_by_name()")

    # ------------------------------------------------------------------ C10.o the hash function remembered for a directory is the one its names are looked up with
    # dx_lookup() adjusts the hash version for the unsigned-char variant and hashes the name with it; it also stores the
    # version in the lookup info, from where dx_split_leaf() takes it to sort the entries of a leaf it splits.  Both are
    # the same value: the variable is not changed between the store and the call (either way round), or a split on an
    # unsigned-hash file system sorts names with bytes >= 0x80 by the wrong function.
    dxl = dbg.fn("dx_lookup", "lib/ext2fs/link.c") if dbg.has_fn("dx_lookup", "lib/ext2fs/link.c") else \
        world.program("debugfs", plain=True).fn("dx_lookup", "lib/ext2fs/link.c")
    keeps = [n for n in dxl.events("S") if (T.last_field(n.ev["lhs"]) or ("", ""))[1] == "hash_alg" and T.strip(n.ev["lhs"]).get("k") == "m"
             and T.path(n.ev.get("rhs")) is not None]
    hashes = calls_to(dxl, "ext2fs_dirhash2", "ext2fs_dirhash")
    rep.floor("C10.o hash version kept / used in dx_lookup", min(len(keeps), len(hashes)), 1)
    for i, k in enumerate(keeps):
        v = T.path(k.ev["rhs"])
        for j, h in enumerate(hashes):
            if T.path(arg(h, 0)) != v:
                rep.ob("C10.o", site(dxl, "lookup hash and kept version come from one variable#%d.%d" % (i, j)), False,
                       "`%s` keeps %s, ext2fs_dirhash2() is given %s" % (k.text()[:30], v, T.pp(arg(h, 0))[:20]))
                continue
            first, second = (k, h) if h in dxl.reach(dxl.after(k)) else (h, k)
            between = [n for n in dxl.events("S") if T.path(n.ev["lhs"]) == v and n in dxl.reach(dxl.after(first)) and second in dxl.reach(dxl.after(n))]
            rep.ob("C10.o", site(dxl, "lookup hash and kept version are the same value#%d.%d" % (i, j)), not between,
                   "stores to %s between `%s` and the hash call: %s" % (v, k.text()[:30], [(n.line, n.text()[:20]) for n in between]))

    # ------------------------------------------------------------------ C10.p an inline directory gives up its inline copy only when a block can be had
    # ext2fs_inline_data_expand() clears i_block and removes system.data, then builds the block form - which needs a
    # block.  Nothing puts the inline copy back when that fails: on a full file system the directory lost every name.
    # The destructive steps lie behind a successful probe of the allocator.
    ide = dbg.fn("ext2fs_inline_data_expand", "lib/ext2fs/inline_data.c")
    destroy = calls_to(ide, "ext2fs_inline_data_ea_remove")
    probe = calls_to(ide, "ext2fs_new_block2", "ext2fs_new_block3", "ext2fs_alloc_block2", "ext2fs_alloc_block3") + \
        [n for n in ide.events("S") if any(cc.get("fn") in ("ext2fs_new_block2", "ext2fs_new_block3") for cc in T.calls(n.ev.get("rhs") or {}))]
    rep.floor("C10.p removal of the inline attribute in ext2fs_inline_data_expand", len(destroy), 1)
    for i, n in enumerate(destroy):
        rep.ob("C10.p", site(ide, "inline copy given up only after a block was found#%d" % i), bool(probe) and ide.dominated_by(n, probe),
               "a call of the block allocator dominates ext2fs_inline_data_ea_remove()")

    # ------------------------------------------------------------------ C10.l a name that does not fit a directory entry is refused
    # name_len is one byte: ext2fs_link() must compare the length with EXT2_NAME_LEN before either the linear or the
    # htree insertion runs, or a 300-byte name is stored as the 44-byte name its length modulo 256 gives
    lk = dbg.fn("ext2fs_link", "lib/ext2fs/link.c")
    ins = calls_to(lk, "dx_link", "ext2fs_dir_iterate2", "ext2fs_dir_iterate")
    rep.floor("C10.l insertion calls in ext2fs_link", len(ins), 2)
    lenchk = [lk.block_end(b) for b in lk.blocks if lk.literal(b) and "EXT2_NAME_LEN" in T.macros(lk.literal(b)[0]) and
              any("strlen" in (c.get("fn") or "") for c in T.calls(lk.literal(b)[0]))]
    namep = lk.params[2] if len(lk.params) > 2 else None

    def name_given(n, si, m, _f=lk):
        lit = _f.literal(n.bid)     # (a NULL name has no length: only the paths with a name count)
        if lit and T.path(lit[0]) == namep:
            return (lit[1] if si == 0 else (not lit[1]))
        return True
    for i, c in enumerate(ins):
        rep.ob("C10.l", site(lk, "name length compared with EXT2_NAME_LEN before the insertion#%d" % i),
               bool(lenchk) and lk.dominated_by(c, lenchk, edge_ok=name_given),
               "`strlen(name) > EXT2_NAME_LEN` dominates %s" % T.call_names(c.ev["x"])[0])
    # the directory part of "/name" is the root: where a path is cut at its last '/', the part in front of it is looked
    # up as "/" when it is empty (the empty string resolves to the current directory)
    n_abs = 0
    for (fname, ffile) in (("do_write_internal", "misc/create_inode.c"), ("do_mkdir_internal", "misc/create_inode.c"),
                           ("do_symlink_internal", "misc/create_inode.c"), ("do_mknod", "debugfs/debugfs.c"),
                           ("make_link", "debugfs/debugfs.c"), ("unlink_file_by_name", "debugfs/debugfs.c")):
        f = dbg.fn(fname, ffile)
        cuts = [n for n in calls_to(f, "strrchr") if T.const(arg(n, 1)) == 47]
        cutvars = set()
        for k in cuts:
            kid = k.ev["x"].get("id")
            cutvars |= {T.path(s_.ev["lhs"]) for s_ in f.events("S") if isinstance(s_.ev.get("rhs"), dict) and
                        any(cc.get("id") == kid for cc in T.calls(s_.ev["rhs"]))}
        for c in calls_to(f, "ext2fs_namei", "string_to_inode"):
            pa = arg(c, 3) if is_call(c, "ext2fs_namei") else arg(c, 0)
            # the lookup of the directory part sits on the "a '/' was found" arm; the others look up a whole path or
            # the final name
            if not any(t and T.path(a) in cutvars for t, a in control_lits(f, c)):
                continue
            n_abs += 1
            p0 = T.strip(pa)
            rootcase = isinstance(p0, dict) and p0.get("k") == "?" and \
                any(isinstance(y, dict) and y.get("k") == "s" and y.get("v") == "/" or
                    (isinstance(y, dict) and "str" in y and y.get("str") == "/") for y in T.walk(p0))
            rep.ob("C10.j", site(f, "directory part of an absolute one-component path is the root#%d" % n_abs), rootcase,
                   "the lookup after the cut receives `%s` (\"/\" when nothing is left in front of the cut)" % T.pp(pa)[:50])
    rep.floor("C10.j lookups of the directory part after a cut", n_abs, 5)

    # ------------------------------------------------------------------ C10.f link/unlink report the outcome
    for (file, name, cb, nf) in (("lib/ext2fs/unlink.c", "ext2fs_unlink", "unlink_proc", "EXT2_ET_DIR_NO_SPACE"),
                                 ("lib/ext2fs/link.c", "ext2fs_link", "link_proc", "EXT2_ET_DIR_NO_SPACE")):
        fn = dbg.fn(name, file)
        its = calls_to(fn, "ext2fs_dir_iterate", "ext2fs_dir_iterate2")
        rep.floor("C10.f iteration in %s" % name, len(its), 1)
        for i, c in enumerate(its):
            bad = failure_returns(fn, dbg, c)
            rep.ob("C10.f", site(fn, "iteration failure is returned#%d" % i), not bad, "%s" % [(b[0].line, b[1]) for b in bad[:2]])
        done = [bid for bid in fn.blocks if fn.literal(bid) and "done" in T.field_names(fn.literal(bid)[0])]
        rets = [n for n in fn.nodes() if n.ev and n.ev["e"] == "R" and nf in T.macros(n.ev.get("x") or {})]
        rep.ob("C10.f", site(fn, "'nothing done' is an error"), bool(done) and bool(rets),
               "ls.done is tested and %s is returned when no entry was changed" % nf)
