"""C04 — journal recovery can be interrupted anywhere and re-run: write/flush ORDER rules.
Decided for both front-ends (e2fsck, debugfs).  See DESIGN.md §4 C04."""
from vlib import tree as T
from vlib.rulelib import *
from vlib.engine import Broken, line_path

EXPLANATION = (
    "Static ORDER/GUARD/WHO rules over clang CFGs of both journal front-ends: replayed blocks are "
    "flushed (sync_blockdev -> io_channel_flush, result propagated) on every path after the REPLAY "
    "pass; the journal superblock's s_start is zeroed only in *_journal_release (under reset, not "
    "read-only) and never before jbd2_journal_recover; needs_recovery is cleared only by the listed "
    "functions, each call dominated by recovery or by an accepted fix_problem; e2fsck replays once "
    "per run (E2F_FLAG_RESTARTED).  Decides the ordering clauses of C04, not the content replayed.")

FRONTENDS = [
    # program, journal.c, release fn, clear fn, run fn, ro literal (macro, field, truth when writable)
    ("e2fsck", "e2fsck/journal.c", "e2fsck_journal_release", "e2fsck_clear_recover",
     "e2fsck_run_ext3_journal", ("E2F_OPT_READONLY", "options", False)),
    ("debugfs", "debugfs/journal.c", "ext2fs_journal_release", "ext2fs_clear_recover",
     "ext2fs_run_ext3_journal", ("EXT2_FLAG_RW", "flags", True)),
]

JSB = "journal_superblock_s"


def zero_sstart_store(n):
    if not n.ev or n.ev["e"] != "S":
        return False
    lf = T.last_field(n.ev["lhs"])
    if lf != (JSB, "s_start"):
        return False
    if n.ev["o"] != "=":
        return False
    return T.const(n.ev.get("rhs")) == 0


S_START_OFF = [None]


def _const_offset(e):
    """sum of the constant addends of a pointer expression base + c1 + c2 (None if not that shape)"""
    e = T.strip(e)
    if isinstance(e, dict) and e.get("k") == "b" and e.get("o") == "+":
        l, r = _const_offset(e["l"]), T.const(e["r"])
        if r is not None and l is not None:
            return l + r
        l2, r2 = T.const(e["l"]), _const_offset(e["r"])
        if l2 is not None and r2 is not None:
            return l2 + r2
        return None
    if isinstance(e, dict) and e.get("k") in ("v", "m", "u", "x"):
        return 0
    return None


def whole_jsb_wipe(fn, n):
    """memset(journal superblock + off, 0, …) with off <= offsetof(s_start) — counts as a store
    of 0 to s_start (a wipe that starts beyond the field does not touch it)"""
    if not is_call(n, "memset"):
        return False
    a0 = resolve_local(fn, arg(n, 0))
    if T.const(arg(n, 1)) != 0:
        return False
    if not any(x.get("k") in ("v", "m") and "journal_superblock" in x.get("t", "") for x in T.walk(a0)):
        return False
    off = _const_offset(a0)
    if off is not None and S_START_OFF[0] is not None and off > S_START_OFF[0]:
        return False
    return True


def clears_recover(fn, n):
    """event that clears the needs_recovery incompat bit of a superblock"""
    if is_call(n, "ext2fs_clear_feature_journal_needs_recovery"):
        return True
    if n.ev and n.ev["e"] == "S":
        lf = T.last_field(n.ev["lhs"])
        if lf and lf[1] == "s_feature_incompat" and store_clears_bits(n, "EXT3_FEATURE_INCOMPAT_RECOVER"):
            return True
    return False


def run(world, rep, tier, only=None):
    r = world.records.get(JSB)
    if not r:
        raise Broken("record journal_superblock_s not found")
    S_START_OFF[0] = [f["off"] for f in r["fields"] if f["n"] == "s_start"][0]
    for (pname, jfile, release, clear, runfn, ro) in FRONTENDS:
        prog = world.program(pname)
        tag = pname

        # ---------------- C04.a replayed blocks durable before recovery returns
        rec = prog.fn("jbd2_journal_recover")
        replays = [n for n in calls_to(rec, "do_one_pass") if arg_has_macro(n, 2, "PASS_REPLAY")]
        rep.floor("C04.a[%s] do_one_pass(PASS_REPLAY) call sites" % tag, len(replays), 1)
        syncs = [n for n in calls_to(rec, "sync_blockdev") if arg_path_endswith(n, 0, "j_fs_dev")]
        for r in replays:
            ok = rec.must_pass_after(r, syncs)
            wit = None
            if not ok:
                p = rec.witness_path(rec.after(r), [rec.exit_node()], avoid=syncs)
                wit = line_path(p) if p else None
            rep.ob("C04.a", site(rec, "replay->sync_blockdev(j_fs_dev)[%s]" % tag), ok,
                   "every path from do_one_pass(PASS_REPLAY) to return passes sync_blockdev(journal->j_fs_dev)",
                   wit)
        for s in syncs:
            bad = failure_returns(rec, prog, s)
            rep.ob("C04.a", site(rec, "sync_blockdev result reaches return[%s]" % tag), not bad,
                   "a failed sync_blockdev makes jbd2_journal_recover return non-zero",
                   [("return at line %d value %s" % (b[0].line, b[1]), b[2]) for b in bad[:2]] or None)

        # ---------------- C04.b sync_blockdev means flush
        sb = prog.fn("sync_blockdev", jfile)
        flushes = calls_to(sb, "io_channel_flush", "struct_io_manager.flush")
        rep.floor("C04.b[%s] flush call in sync_blockdev" % tag, len(flushes), 1)
        ok = sb.dominated_by(sb.exit_node(), flushes)
        rep.ob("C04.b", site(sb, "flush on every path[%s]" % tag), ok,
               "every path through sync_blockdev calls io_channel_flush on the selected channel")
        for f in flushes:
            bad = failure_returns(sb, prog, f)
            rep.ob("C04.b", site(sb, "flush failure returned[%s]" % tag), not bad,
                   "non-zero io_channel_flush maps to a non-zero return of sync_blockdev",
                   [("return line %d value %s" % (b[0].line, b[1]), b[2]) for b in bad[:2]] or None)
        # C04.f the device a request names decides the channel: j_fs_dev -> the file system's channel, j_dev -> the journal's
        # (with an external journal the two differ; flushing the journal device instead of the file system leaves the
        # replayed blocks in the cache while the journal is already marked empty)
        n_sel = 0
        for jf in prog.fns_in_file(jfile):
            for st in jf.events("S"):
                rhs = st.ev.get("rhs")
                if not isinstance(rhs, dict) or st.ev.get("o") != "=":
                    continue
                # only the selections inside the block-device emulation (functions that take a kdev_t)
                if not any("kdev" in (p_.get("t") or "") for p_ in jf.raw.get("params", [])):
                    continue
                chans = set()
                for x in T.walk(rhs):
                    if isinstance(x, dict) and x.get("k") == "m":
                        if x.get("f") == "io" and x.get("r") == "struct_ext2_filsys":
                            chans.add("fs")
                        elif x.get("f") == "journal_io":
                            chans.add("journal")
                if not chans:
                    continue
                n_sel += 1
                if len(chans) > 1 or T.strip(rhs).get("k") != "m":
                    rep.ob("C04.f", site(jf, "channel chosen on the device the request names[%s]#%d" % (tag, n_sel)), False,
                           "`%s` (line %d) picks between the channels by something else than kdev->k_dev" % (st.text()[:50], st.line))
                    continue
                kind = sorted(chans)[0]
                lits = control_lits(jf, st)
                on_fs = [t for t, a in lits if "k_dev" in T.field_names(a) and "K_DEV_FS" in T.macros(a) and
                         isinstance(T.strip(a), dict) and T.strip(a).get("o") == "=="]
                ok = bool(on_fs) and all(t == (kind == "fs") for t in on_fs)
                rep.ob("C04.f", site(jf, "%s channel chosen on k_dev %s K_DEV_FS[%s]#%d" % (kind, "==" if kind == "fs" else "!=", tag, n_sel)), ok,
                       "`%s` (line %d) is control-dependent on `kdev->k_dev == K_DEV_FS` being %s" %
                       (st.text()[:40], st.line, kind == "fs"))
        rep.floor("C04.f[%s] channel selections in the block-device emulation" % tag, n_sel, 1)
        # slot resolution must include the unix manager; wrapping managers forward
        impls = prog.slot_names("struct_io_manager", "flush")
        rep.ob("C04.b", "struct_io_manager.flush:slot-resolution[%s]" % tag, "unix_flush" in impls,
               "flush slot resolves to %s" % sorted(impls))
        # the manager that ends at a file descriptor: C17.b's durability obligation is imported
        from rules import C17 as _c17
        _c17.flush_durability(prog, rep, "C04.b", "[%s]" % tag)
        for wname, wfile in (("undo_flush", "lib/ext2fs/undo_io.c"), ("test_flush", "lib/ext2fs/test_io.c")):
            if wname not in impls:
                continue
            w = prog.fn(wname, wfile)
            fwd = calls_to(w, "io_channel_flush", "struct_io_manager.flush")
            rep.floor("C04.b forwarders in %s" % wname, len(fwd), 1)
            # every path that returns 0 with a backing channel present forwards the flush:
            # allow only the paths that leave on the 'no backing channel' literal or a magic check
            def edge_ok(n, si, m, _w=w):
                lit = _w.literal(n.bid)
                if lit is None:
                    return True
                atom, pos = lit
                p = T.path(atom)
                if p and (p.endswith("->real") or p.endswith("->flush")):
                    truth = pos if si == 0 else (not pos)
                    return truth  # forbid the edge on which the backing channel is absent
                return True
            r = w.reach([w.entry_node()], avoid=set(fwd), edge_ok=edge_ok)
            # returns reachable without forwarding must be error returns (EXT2_CHECK_MAGIC)
            bad = []
            for n in r:
                if n.ev and n.ev["e"] == "R":
                    c = T.const(n.ev.get("x"))
                    if c == 0 or c is None:
                        # a `return retval` reached without forwarding
                        bad.append(n)
            rep.ob("C04.b", site(w, "forwards flush to backing channel"), not bad,
                   "wrapping manager's flush reaches the backing channel's flush on every successful path",
                   [n.where() for n in bad[:3]] or None)
            for f in fwd:
                badr = failure_returns(w, prog, f)
                rep.ob("C04.b", site(w, "backing flush failure returned"), not badr,
                       "error of the backing flush is returned",
                       [("return line %d value %s" % (b[0].line, b[1]), b[2]) for b in badr[:2]] or None)

        # ---------------- C04.c journal marked empty only afterwards
        allowed = {release: "the release routine, under reset and not read-only",
                   "e2fsck_journal_reset_super": "whole-record reset under accepted PR_0_JOURNAL_BAD_SUPER",
                   "ext2fs_create_journal_superblock2": "creates a brand-new journal (mkjournal.c)",
                   "write_journal_file": "creates a brand-new journal file (mkjournal.c)",
                   "journal_commit_trans": "debugfs journal *writer* (jw/jc test commands)",
                   }
        storers = []
        for fn in prog.functions():
            for n in fn.nodes():
                if zero_sstart_store(n) or (n.ev and whole_jsb_wipe(fn, n)):
                    storers.append((fn, n))
        rep.floor("C04.c[%s] s_start=0 / whole-record stores" % tag, len(storers), 1)
        for (fn, n) in storers:
            rep.ob("C04.c", site(fn, "marks journal empty[%s]" % tag), fn.name in allowed,
                   "store of 0 to journal_superblock_s.s_start (or whole-record wipe) only in listed functions: "
                   + (allowed.get(fn.name) or "NOT LISTED (%s)" % n.where()))
        rel = prog.fn(release, jfile)
        for n in [n for n in rel.nodes() if zero_sstart_store(n)]:
            lits = control_lits(rel, n)
            has_reset = any(t and T.path(a) == "reset" for (t, a) in lits)
            has_rw = any(lit_tests_bit(a, ro[0], ro[1]) and t == ro[2] for (t, a) in lits)
            no_drop = any((not t) and T.path(a) == "drop" for (t, a) in lits)
            rep.ob("C04.c", site(rel, "s_start=0 under reset && writable && !drop[%s]" % tag),
                   has_reset and has_rw and no_drop,
                   "control literals: %s" % [("" if t else "!") + T.pp(a) for (t, a) in lits])
            # the zero store must be followed by marking the sb buffer dirty (otherwise never written)
            md = calls_to(rel, "mark_buffer_dirty")
            rep.ob("C04.c", site(rel, "s_start=0 then mark_buffer_dirty[%s]" % tag),
                   rel.must_pass_after(n, md), "journal superblock buffer dirtied after the store on every path")
        # in recover_ext3_journal nothing that may empty the journal precedes jbd2_journal_recover
        may_empty = prog.may(lambda f, n: zero_sstart_store(n) or whole_jsb_wipe(f, n))
        rj = prog.fn("recover_ext3_journal", jfile)
        recs = calls_to(rj, "jbd2_journal_recover")
        rep.floor("C04.c[%s] jbd2_journal_recover call" % tag, len(recs), 1)
        bad = []
        for n in rj.call_nodes():
            if n in recs:
                continue
            gs = prog.callees(rj, n.ev["x"])
            if any(g.key in may_empty for g in gs) or zero_sstart_store(n):
                # must not be able to reach the recover call
                r = rj.reach(rj.after(n))
                if any(x in r for x in recs):
                    bad.append(n)
        rep.ob("C04.c", site(rj, "no journal-emptying call before jbd2_journal_recover[%s]" % tag), not bad,
               "calls that may zero s_start all come after recovery", [b.where() + " " + b.text() for b in bad] or None)
        # and every return of recover_ext3_journal after get_journal goes through release(reset=1, drop=0)
        rels = [n for n in calls_to(rj, release) if T.const(arg(n, 2)) == 1 and T.const(arg(n, 3)) == 0]
        rep.floor("C04.c[%s] release(reset=1,drop=0) call" % tag, len(rels), 1)
        for r in recs:
            rep.ob("C04.c", site(rj, "recover -> release(reset=1)[%s]" % tag), rj.must_pass_after(r, rels),
                   "every path from jbd2_journal_recover to return passes *_journal_release(…,1,0)")

        # ---------------- C04.d needs_recovery cleared last
        clearers = []
        for fn in prog.functions():
            if fn.name == "ext2fs_clear_feature_journal_needs_recovery":
                continue
            for n in fn.nodes():
                if n.ev and clears_recover(fn, n):
                    clearers.append((fn, n))
        allowed_clear = {
            clear: "front-end's clear_recover",
            "ext2fs_flush2": "shadow superblock used for the backups; primary restored from saved copy",
            "do_journal_run": "debugfs `jr` command, after a successful ext2fs_run_ext3_journal (checked below)",
        }
        rep.floor("C04.d[%s] needs_recovery clear sites" % tag, len(clearers), 2)
        for (fn, n) in clearers:
            rep.ob("C04.d", site(fn, "clears needs_recovery[%s]" % tag), fn.name in allowed_clear,
                   allowed_clear.get(fn.name) or "NOT LISTED: %s" % n.where())
        for (fn, n) in clearers:
            if fn.name != "do_journal_run":
                continue
            rr = calls_to(fn, "ext2fs_run_ext3_journal")
            ok = bool(rr) and fn.dominated_by(n, rr) and any(
                (not t) and T.path(resolve_local(fn, a)) in ("err", "retval") or
                ((not t) and any(c.get("fn") == "ext2fs_run_ext3_journal" for c in T.calls(resolve_local(fn, a))))
                for (t, a) in control_lits(fn, n))
            rep.ob("C04.d", site(fn, "clear only after successful run_ext3_journal[%s]" % tag), ok,
                   "needs_recovery cleared by the jr command only when ext2fs_run_ext3_journal returned 0")
        # ext2fs_flush2: s_feature_incompat re-assigned from the saved copy before the primary write
        fl = prog.fn("ext2fs_flush2")
        cl = [n for n in fl.nodes() if n.ev and clears_recover(fl, n)]
        restore = [n for n in stores(fl, "ext2_super_block", "s_feature_incompat")
                   if n.ev["o"] == "=" and T.path(n.ev.get("rhs")) == "feature_incompat"]
        wp = calls_to(fl, "write_primary_superblock")
        rep.floor("C04.d flush2 anchors", min(len(cl), len(restore), len(wp)), 1)
        for c in cl:
            for w in wp:
                r = fl.reach(fl.after(c), avoid=set(restore))
                rep.ob("C04.d", site(fl, "needs_recovery restored before primary superblock write[%s]" % tag),
                       w not in r, "no path from the shadow clear to write_primary_superblock skips the restore")
        # every call of clear_recover is dominated by recovery + reopen, or gated by fix_problem
        for fn in prog.fns_in_file(jfile):
            for n in calls_to(fn, clear):
                recn = calls_to(fn, "recover_ext3_journal")
                reopen = calls_to(fn, "ext2fs_open", "ext2fs_open2")
                if recn and fn.dominated_by(n, recn) and fn.dominated_by(n, reopen):
                    rep.ob("C04.d", site(fn, "clear_recover after recovery+reopen[%s]" % tag), True,
                           "dominated by recover_ext3_journal and the reload")
                    continue
                lits = control_lits(fn, n)
                gated = any(t and any(c.get("fn") == "fix_problem" for c in T.calls(resolve_local(fn, a)))
                            for (t, a) in lits)
                rep.ob("C04.d", site(fn, "clear_recover gated[%s]@%s" % (tag, _nth(fn, n, clear))), gated,
                       "call is control-dependent on an accepted fix_problem(): %s" %
                       [("" if t else "!") + T.pp(a)[:60] for (t, a) in lits])

    # ---------------- C04.g what was written before the replay is on stable storage before the first replayed block
    # e2fsck_run_ext3_journal() flushes a dirty superblock (needs_recovery set for a journal that has data) before it
    # replays.  If that write could still be lost while replayed blocks survive a crash, the half-replayed file system
    # no longer asks for recovery: the flush in front of the replay must not be told to skip the sync.
    pe = world.program("e2fsck")
    rj = pe.fn("e2fsck_run_ext3_journal", "e2fsck/journal.c")
    recs_ = calls_to(rj, "recover_ext3_journal")
    fl_ = [c for c in calls_to(rj, "ext2fs_flush", "ext2fs_flush2", "ext2fs_close", "ext2fs_close2")
           if any(r in rj.reach(rj.after(c)) for r in recs_)]
    rep.floor("C04.g flush in front of the replay in e2fsck_run_ext3_journal", min(len(recs_), len(fl_)), 1)
    for i, c in enumerate(fl_):
        fl = arg(c, 1) if T.call_names(c.ev["x"])[0] in ("ext2fs_flush2", "ext2fs_close2") else None
        nosync = fl is not None and ("EXT2_FLAG_FLUSH_NO_SYNC" in T.macros(fl) or
                                     ((T.const(fl) or 0) & (named_const(pe, "EXT2_FLAG_FLUSH_NO_SYNC") or 1)))
        rep.ob("C04.g", site(rj, "pre-replay flush waits for the device#%d" % i), not nosync,
               "`%s` is not given EXT2_FLAG_FLUSH_NO_SYNC" % c.text()[:50])

    # ---------------- C04.h after the replay the file system is opened again the way it was opened before
    # e2fsck_run_ext3_journal() frees the handle and opens the file system again to see what the replay wrote.  A file
    # system given as "image?offset=N" (or with any other I/O option) is only found with those options: the re-open passes
    # ctx->io_options, or every run replays, fails to re-open and exits 12 - the recovery never completes.
    reop = [n for n in rj.call_nodes() if is_call(n, "ext2fs_open", "ext2fs_open2") and any(r in rj.reach_back([n]) for r in recs_)] + \
        [n for n in rj.events("S") if any(cc.get("fn") in ("ext2fs_open", "ext2fs_open2") for cc in T.calls(n.ev.get("rhs") or {}))
         and any(r in rj.reach_back([n]) for r in recs_)]
    rep.floor("C04.h re-open after the replay", len(reop), 1)
    for i, n in enumerate(reop):
        cc = [c_ for c_ in ([n.ev["x"]] if n.ev["e"] == "C" else T.calls(n.ev.get("rhs") or {})) if c_.get("fn") in ("ext2fs_open", "ext2fs_open2")]
        ok = any(c_.get("fn") == "ext2fs_open2" and any("io_options" in T.field_names(a_) for a_ in c_.get("a", []) if isinstance(a_, dict)) for c_ in cc)
        rep.ob("C04.h", site(rj, "re-open passes the I/O options of the first open#%d" % i), ok,
               "`%s` is ext2fs_open2(…, ctx->io_options, …)" % n.text()[:50])

    # ---------------- C04.e no second replay, stale flag cleaned (e2fsck only)
    prog = world.program("e2fsck")
    main = prog.fn("main", "e2fsck/unix.c")
    runs = calls_to(main, "e2fsck_run_ext3_journal")
    rep.floor("C04.e run_ext3_journal call in main", len(runs), 1)
    for n in runs:
        ok = guarded_by_bit(main, n, "E2F_FLAG_RESTARTED", False, "flags")
        rep.ob("C04.e", site(main, "replay guarded by !E2F_FLAG_RESTARTED"), ok,
               "e2fsck_run_ext3_journal only when the run has not restarted yet")
        sets = [s for s in stores(main, "e2fsck_struct", "flags") if store_sets_bits(s, "E2F_FLAG_RESTARTED")]
        restart = main.label_block("restart")
        if restart is None:
            raise Broken("label restart vanished from e2fsck main")
        # every path from the replay back to label restart passes a store setting RESTARTED
        tgt = main.node(restart, 0)
        r = main.reach(main.after(n), avoid=set(sets))
        rep.ob("C04.e", site(main, "RESTARTED set before goto restart"), tgt not in r,
               "no path from the replay to label restart avoids setting E2F_FLAG_RESTARTED")
    chk = prog.fn("e2fsck_check_ext3_journal")
    # stale-journal arm: has_journal && !needs_recovery && s_start != 0 -> fix_problem
    found = False
    for n in calls_to(chk, "fix_problem"):
        lits = control_lits(chk, n)
        if any(t and ("journal_superblock_s", "s_start") in T.fields(a) for (t, a) in lits) and \
           any((not t) and any(c.get("fn") == "ext2fs_has_feature_journal_needs_recovery" for c in T.calls(a))
               for (t, a) in lits):
            found = True
    rep.ob("C04.e", site(chk, "stale s_start arm reaches fix_problem"), found,
           "has_journal && !needs_recovery && s_start != 0 is reported (PR_0_JOURNAL_RUN*)")


def _nth(fn, node, name):
    l = calls_to(fn, name)
    return l.index(node)
