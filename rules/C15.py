"""C15 — extended attributes read back exactly as set: agreement between the space accounting and the
writer, storage release pairing, hash and write-back discipline.  DESIGN.md §8.6 C15."""
from vlib import tree as T
from vlib import absint
from vlib.engine import Broken, line_path
from vlib.rulelib import *

EXPLANATION = (
    "SIBLING/ORDER/ERRFLOW rules over lib/ext2fs/ext_attr.c: the space accounting of ext2fs_xattr_set and the layout of "
    "ext2fs_xattrs_write derive the in-inode capacity from the same chain (i_extra_isize, else s_want_extra_isize, else "
    "the same constant) and subtract the same fixed overheads; the accounting (space_used, xattr_array_update) and the "
    "writer (write_xattrs_to_buffer) agree that an entry stored in a value inode takes no value space and otherwise use "
    "the same entry/value size macros; entries moving into the block are placed by the sorted-position search; the writer "
    "hashes every block entry and every value-inode entry (the block path asks for hashes, the inode path does not) and the "
    "reader verifies them; replacing or failing after creating a value inode drops exactly one reference on every path; "
    "xattrs_write writes in-inode entries, then the block through prep_ea_block_for_write (copy-on-write of shared blocks) "
    "and the checksumming block writer, frees a block that is no longer needed and writes the inode on every successful "
    "path; set/remove write the handle back and return the error.  Decides the agreement and pairing clauses for every "
    "attribute history; not that the sorted array itself is manipulated correctly for all sizes.")

EA = "lib/ext2fs/ext_attr.c"


def _fallback_chain(fn):
    """(reads i_extra_isize, reads s_want_extra_isize, set of constants stored into the local that took
    s_want_extra_isize under its own zero test)"""
    fields = set()
    for line, e in _exprs(fn):
        fields |= T.field_names(e)
    want_vars = {T.path(n.ev["lhs"]) for n in fn.events("S") if n.ev.get("o") == "=" and isinstance(n.ev.get("rhs"), dict)
                 and "s_want_extra_isize" in T.field_names(n.ev["rhs"]) and T.strip(n.ev["lhs"]).get("k") == "v"}
    consts = set()
    for n in fn.events("S"):
        v = T.path(n.ev["lhs"])
        if v in want_vars and n.ev.get("o") == "=":
            c = T.const(n.ev.get("rhs"))
            if c is None:
                continue
            lits = control_lits(fn, n)
            if any((not t) and T.path(a) == v for t, a in lits):     # under `v == 0`
                consts.add(c)
    return "i_extra_isize" in fields, "s_want_extra_isize" in fields, consts, want_vars


def _exprs(fn):
    from vlib import width
    return width._exprs_of(fn)


def run(world, rep, tier, only=None):
    prog = world.program("debugfs")
    ea = {f.name: f for f in prog.fns_in_file(EA)}
    for need in ("ext2fs_xattr_set", "ext2fs_xattrs_write", "write_xattrs_to_buffer", "space_used", "xattr_array_update",
                 "xattr_update_entry", "ext2fs_xattr_remove", "read_xattrs_from_buffer", "prep_ea_block_for_write"):
        if need not in ea:
            raise Broken("%s:%s not found" % (EA, need))
    xs, xw = ea["ext2fs_xattr_set"], ea["ext2fs_xattrs_write"]

    # ------------------------------------------------------------------ C15.a accounting and writer agree on the in-inode capacity
    cs, cw = _fallback_chain(xs), _fallback_chain(xw)
    rep.ob("C15.a", site(xs, "accounting starts from i_extra_isize, then s_want_extra_isize"), cs[0] and cs[1] and bool(cs[2]),
           "fallback constants %s" % sorted(cs[2]))
    rep.ob("C15.a", site(xw, "writer starts from i_extra_isize, then s_want_extra_isize"), cw[0] and cw[1] and bool(cw[2]),
           "fallback constants %s" % sorted(cw[2]))
    rep.ob("C15.a", "%s:ext2fs_xattr_set~ext2fs_xattrs_write:same fallback for an unset i_extra_isize" % EA,
           cs[2] == cw[2] and bool(cs[2]),
           "the space accounting assumes extra size %s, the writer lays out with %s (a difference lets entries and values overlap "
           "on the first write to an inode whose i_extra_isize is still 0)" % (sorted(cs[2]), sorted(cw[2])))
    # the writer must use, from then on, what it stored
    st = [n for n in xw.events("S") if T.last_field(n.ev["lhs"]) and T.last_field(n.ev["lhs"])[1] == "i_extra_isize"]
    rep.ob("C15.a", site(xw, "chosen extra size is stored in the inode"), any(T.path(n.ev.get("rhs")) in cw[3] for n in st),
           "inode->i_extra_isize = <the chosen value>")
    # fixed overheads: the writer reserves one magic word, the accounting that word plus the final null entry
    def u32_terms(fn, varname):
        k = 0
        for n in fn.events("S"):
            if (T.path(n.ev["lhs"]) or "").split("@")[0] != varname:     # also the copy inside an absorbed helper
                continue
            r = n.ev.get("rhs")
            txt = T.pp(r) if isinstance(r, dict) else ""
            if n.ev.get("o") == "-=":
                c = T.const(r)
                if c is not None and c % 4 == 0 and c <= 8:
                    k += c // 4
        return k
    rep.ob("C15.a", site(xs, "accounting reserves the magic word and the terminating null entry"), u32_terms(xs, "ibody_free") == 2,
           "ibody_free -= 2 * sizeof(__u32)")
    wbuf = calls_to(xw, "write_xattrs_to_buffer")
    rep.floor("C15.a write_xattrs_to_buffer calls in ext2fs_xattrs_write", len(wbuf), 2)

    # ------------------------------------------------------------------ C15.b accounting and writer agree on entry sizes
    wb, su, au = ea["write_xattrs_to_buffer"], ea["space_used"], ea["xattr_array_update"]
    vcopy = [n for n in calls_to(wb, "memcpy") if "value" in T.field_names(arg(n, 1) or {})]
    rep.floor("C15.b value copy in write_xattrs_to_buffer", len(vcopy), 1)
    for i, n in enumerate(vcopy):
        ok = any((not t) and "ea_ino" in T.field_names(a) for t, a in control_lits(wb, n))
        rep.ob("C15.b", site(wb, "value bytes are stored only for entries without a value inode#%d" % i), ok,
               "memcpy(end, x->value, …) under !x->ea_ino")
    for fn in (su, au):
        adds = [n for n in fn.events("S") if n.ev.get("o") == "+=" and "value_len" in T.field_names(n.ev.get("rhs") or {})
                or (n.ev.get("o") == "+=" and "value_len" in T.vars_in(n.ev.get("rhs") or {}))]
        rep.floor("C15.b value-size terms in %s" % fn.name, len(adds), 1)
        for i, n in enumerate(adds):
            lits = control_lits(fn, n)
            ok = any((not t) and ("ea_ino" in T.field_names(a) or T.path(a) == "in_inode") for t, a in lits)
            rep.ob("C15.b", site(fn, "value space counted only without a value inode#%d" % i), ok,
                   "guards: %s" % [("" if t else "!") + T.pp(a)[:40] for t, a in lits][:4])
            ms = T.macros(n.ev.get("rhs") or {})
            rep.ob("C15.b", site(fn, "value space uses the padded size#%d" % i), "EXT2_EXT_ATTR_SIZE" in ms, "macros %s" % sorted(ms))
    for fn in (su, au):
        ent = [n for n in fn.events("S") if n.ev.get("o") in ("+=", "=") and "EXT2_EXT_ATTR_LEN" in T.macros(n.ev.get("rhs") or {})]
        rep.ob("C15.b", site(fn, "entry space uses EXT2_EXT_ATTR_LEN(name length)"), bool(ent), "%d terms" % len(ent))
    nxt = [1 for line, e in _exprs(wb) if "EXT2_EXT_ATTR_NEXT" in T.macros(e)]
    rep.ob("C15.b", site(wb, "writer advances by EXT2_EXT_ATTR_NEXT"), bool(nxt), "e = EXT2_EXT_ATTR_NEXT(e)")
    # entries that go to the block are placed by the sorted-position search
    fp = calls_to(au, "xattr_find_position")
    rep.ob("C15.b", site(au, "block entries are placed in sorted position"), len(fp) >= 2,
           "%d xattr_find_position calls (move to block, new block entry)" % len(fp))
    for i, c in enumerate(fp):
        rep.ob("C15.b", site(au, "sorted search covers exactly the block part#%d" % i),
               "ibody_count" in T.field_names(arg(c, 0) or {}) and "ibody_count" in T.field_names(arg(c, 1) or {}) and
               "count" in T.field_names(arg(c, 1) or {}),
               "xattr_find_position(attrs + ibody_count, count - ibody_count, …)")

    # ------------------------------------------------------------------ C15.c hashes
    hs = calls_to(wb, "ext2fs_ext_attr_hash_entry2", "ext2fs_ext_attr_hash_entry3", "ext2fs_ext_attr_hash_entry")
    rep.floor("C15.c hash computation in write_xattrs_to_buffer", len(hs), 1)
    for i, c in enumerate(hs):
        alts = [a for (t, a) in control_lits(wb, c)]
        # `write_hash || x->ea_ino`: the call is reached from either alternative
        r_wh = _reached_when(wb, c, lambda a: T.path(a) == "write_hash")
        r_ea = _reached_when(wb, c, lambda a: "ea_ino" in T.field_names(a))
        rep.ob("C15.c", site(wb, "every block entry is hashed#%d" % i), r_wh, "with write_hash set the hash call is reached")
        rep.ob("C15.c", site(wb, "every value-inode entry is hashed#%d" % i), r_ea, "with x->ea_ino set the hash call is reached")
        bad = failure_returns(wb, prog, c)
        rep.ob("C15.c", site(wb, "hash failure is returned#%d" % i), not bad, "%s" % [(b[0].line, b[1]) for b in bad[:2]])
    for c in wbuf:
        in_block = "ext2_ext_attr_header" in T.pp(arg(c, 4) or {}) or "blocksize" in T.field_names(arg(c, 4) or {}) or \
            any("blocksize" in T.field_names(m.ev.get("rhs") or {}) for m in xw.events("S")
                if T.path(m.ev["lhs"]) == T.path(arg(c, 4)) and m.line < c.line and m.line > (wbuf[0].line if c is not wbuf[0] else 0))
    blockw = [c for c in wbuf if T.const(arg(c, 6)) not in (0, None)]
    inodew = [c for c in wbuf if T.const(arg(c, 6)) == 0]
    rep.ob("C15.c", site(xw, "the block is written with hashes, the inode body without"), len(blockw) == 1 and len(inodew) == 1,
           "write_hash arguments: %s" % [T.const(arg(c, 6)) for c in wbuf])
    rd = ea["read_xattrs_from_buffer"]
    hv = calls_to(rd, "ext2fs_ext_attr_hash_entry3", "ext2fs_ext_attr_hash_entry2")
    rep.ob("C15.c", site(rd, "reader recomputes the entry hash"), bool(hv), "%d hash calls" % len(hv))
    badhash = [n for n in rd.nodes() if n.ev and n.ev["e"] in ("R", "S") and "EXT2_ET_BAD_EA_HASH" in T.macros(n.ev.get("x") or n.ev.get("rhs") or {})]
    rep.ob("C15.c", site(rd, "a hash mismatch is an error"), bool(badhash), "EXT2_ET_BAD_EA_HASH is produced")

    # ------------------------------------------------------------------ C15.d value-inode references
    ue = ea["xattr_update_entry"]
    cr = calls_to(ue, "xattr_create_ea_inode")
    dr = calls_to(ue, "xattr_inode_dec_ref")
    rep.floor("C15.d create/dec_ref in xattr_update_entry", min(len(cr), len(dr)), 1)
    for i, c in enumerate(cr):
        bad = failure_returns(ue, prog, c)
        rep.ob("C15.d", site(ue, "failed value-inode creation is returned#%d" % i), not bad, "%s" % [(b[0].line, b[1]) for b in bad[:2]])
        # created, then a later step fails: the new inode is released before returning the error
        ex = absint.Explorer(ue, prog, source_call_id=c.ev["x"].get("id"), src_value="Z")
        newv = None
        for a in c.ev["x"].get("a", []):
            a0 = T.strip(a)
            if isinstance(a0, dict) and a0.get("k") == "u" and a0.get("o") == "&":
                newv = T.path(a0["e"])
        rel = [d for d in dr if T.path(arg(d, 1)) == newv]
        def seen(node, env, flags, _r=rel):
            return flags | {"released"} if node in _r else flags
        # after a successful creation the new inode number is non-zero: tests of it take their true side
        nz = {}
        for bid in ue.blocks:
            lit = ue.literal(bid)
            if lit and T.path(lit[0]) == newv and T.strip(lit[0]).get("k") == "v":
                nz[ue.block_end(bid)] = lit[1]
        def created(n, si, m, _e=nz):
            return not (n in _e and ((si == 0) != _e[n]))
        terms = ex.run([c], on_node=seen, edge_ok=created)
        leak = []
        for (node, env, fl, st) in terms:
            if node.ev and node.ev["e"] == "R" and absint._nz(ex.eval(node.ev.get("x"), env)) and "released" not in fl:
                leak.append(ex.trace(st)[-6:])
        rep.ob("C15.d", site(ue, "a value inode created before a later failure is released#%d" % i), not leak,
               "error returns after a successful xattr_create_ea_inode without xattr_inode_dec_ref(%s): %s" % (newv, leak[:2]))
    old = [d for d in dr if "ea_ino" in T.field_names(arg(d, 1) or {})]
    rep.ob("C15.d", site(ue, "replaced value inode is dereferenced"), bool(old) and all(
        any(t and "ea_ino" in T.field_names(a) for t, a in control_lits(ue, d)) for d in old),
        "xattr_inode_dec_ref(fs, x->ea_ino) under x->ea_ino")
    for i, d in enumerate(old):
        bad = failure_returns(ue, prog, d)
        rep.ob("C15.d", site(ue, "failure to drop the old reference is returned#%d" % i), not bad, "%s" % [(b[0].line, b[1]) for b in bad[:2]])
        stores = [n for n in ue.events("S") if T.last_field(n.ev["lhs"]) and T.last_field(n.ev["lhs"])[1] == "ea_ino"]
        rep.ob("C15.d", site(ue, "old reference dropped before the entry is overwritten#%d" % i), all(ue.dominated_by(s, [d]) or
               not any(t and "ea_ino" in T.field_names(a) for t, a in control_lits(ue, d)) for s in stores) or
               all(d in ue.reach_back([s]) for s in stores), "dec_ref precedes x->ea_ino = <new>")
    rm = ea["ext2fs_xattr_remove"]
    rdr = calls_to(rm, "xattr_inode_dec_ref")
    rep.ob("C15.d", site(rm, "removing an entry drops its value-inode reference"), bool(rdr) and all(
        any(t and "ea_ino" in T.field_names(a) for t, a in control_lits(rm, d)) for d in rdr), "dec_ref under x->ea_ino")
    dec = [n for n in rm.events("S") if T.last_field(n.ev["lhs"]) and T.last_field(n.ev["lhs"])[1] == "ibody_count"]
    rep.ob("C15.d", site(rm, "in-inode count follows the removed position"), bool(dec) and all(
        any("ibody_count" in T.field_names(a) for t, a in control_lits(rm, n)) for n in dec),
        "ibody_count-- only when the removed entry was in the inode body")

    # ------------------------------------------------------------------ C15.g the old value inode goes last
    # Replacing an attribute whose value lives in an EA inode: everything that can fail (allocating the copy of the
    # value, creating the new value inode) comes before the reference of the old value inode is dropped.  In the other
    # order a failed replace has already freed what the untouched entry still points at.
    xu = ea["xattr_update_entry"] if "xattr_update_entry" in ea else None
    if xu is None:
        raise Broken("xattr_update_entry vanished")
    decs = calls_to(xu, "xattr_inode_dec_ref")
    rep.floor("C15.g release of the old value inode in xattr_update_entry", len(decs), 1)
    for i, d_ in enumerate(decs):
        after = xu.reach(xu.after(d_))
        fallible = []
        for c in xu.call_nodes():
            if c is d_ or c not in after:
                continue
            cid = c.ev["x"].get("id")
            used = any(xu.literal(b) and (any(cc.get("id") == cid for cc in T.calls(xu.literal(b)[0])) or
                                          any(T.path(s_.ev["lhs"]) in T.vars_in(xu.literal(b)[0]) for s_ in xu.events("S")
                                              if isinstance(s_.ev.get("rhs"), dict) and any(cc.get("id") == cid for cc in T.calls(s_.ev["rhs"]))
                                              and s_ in after and xu.block_end(b) in xu.reach(xu.after(s_))))
                       for b in xu.blocks if xu.block_end(b) in after)
            if used:
                fallible.append(c)
        rep.ob("C15.g", site(xu, "nothing that can fail follows the release of the old value inode#%d" % i), not fallible,
               "calls after xattr_inode_dec_ref() whose result is tested: %s" % [(c.line, T.call_names(c.ev["x"])[0]) for c in fallible])

    # ------------------------------------------------------------------ C15.f one block, one charge
    # prep_ea_block_for_write() gives the inode a block of its own: a first block is charged to i_blocks, a copy made
    # of a shared block replaces a block the inode was already charged for
    pw_ = ea["prep_ea_block_for_write"] if "prep_ea_block_for_write" in ea else prog.fn("prep_ea_block_for_write", EA)
    adds = calls_to(pw_, "ext2fs_iblk_add_blocks")
    rep.floor("C15.f i_blocks charge in prep_ea_block_for_write", len(adds), 1)
    for i, a in enumerate(adds):
        lits = control_lits(pw_, a)
        # the charge sits on the "inode has no xattr block yet" side of the test of the current block number
        def from_acl(x):
            return depends_on(pw_, x, lambda y: y.get("k") == "c" and y.get("fn") == "ext2fs_file_acl_block", depth=1)
        ok = any((not t) and from_acl(at) for t, at in lits)
        rep.ob("C15.f", site(pw_, "i_blocks charged only for a first xattr block#%d" % i), ok,
               "ext2fs_iblk_add_blocks() runs only when ext2fs_file_acl_block() was 0: guards %s" %
               [("" if t else "!") + T.pp(at)[:30] for t, at in lits][-3:])

    # ------------------------------------------------------------------ C15.e write-back
    prep = calls_to(xw, "prep_ea_block_for_write")
    bw = calls_to(xw, "ext2fs_write_ext_attr3", "ext2fs_write_ext_attr2")
    iw = calls_to(xw, "ext2fs_write_inode_full", "ext2fs_write_inode")
    rep.floor("C15.e block/inode writers in ext2fs_xattrs_write", min(len(prep), len(bw), len(iw)), 1)
    for i, b in enumerate(bw):
        rep.ob("C15.e", site(xw, "shared block is copied before it is rewritten#%d" % i), xw.dominated_by(b, prep),
               "prep_ea_block_for_write dominates the block write")
        blockbuf = [c for c in blockw if xw.dominated_by(b, [c])]
        rep.ob("C15.e", site(xw, "block content is laid out before it is written#%d" % i), bool(blockbuf),
               "write_xattrs_to_buffer(… write_hash=1) dominates ext2fs_write_ext_attr3")
    for c in prep + bw + iw + wbuf:
        bad = failure_returns(xw, prog, c)
        rep.ob("C15.e", site(xw, "failure of %s is returned#%d" % (T.call_names(c.ev["x"])[0], _occ(xw, c))), not bad,
               "%s" % [(b_[0].line, b_[1]) for b_ in bad[:2]])
    # every successful path writes the inode
    ex = absint.Explorer(xw, prog)
    terms = ex.run([xw.entry_node()], on_node=lambda node, env, flags, _i=iw: flags | {"inode"} if node in _i else flags)
    bad = sorted({node.line for (node, env, fl, st) in terms if node.ev and node.ev["e"] == "R"
                  and absint._z(ex.eval(node.ev.get("x"), env)) and "inode" not in fl})
    rep.ob("C15.e", site(xw, "every successful path writes the inode"), not bad, "zero returns without ext2fs_write_inode_full: %s" % bad)
    fr = calls_to(xw, "ext2fs_free_ext_attr")
    rep.ob("C15.e", site(xw, "a block that is no longer needed is released"), bool(fr), "ext2fs_free_ext_attr present")
    for fn, nm in ((xs, "ext2fs_xattr_set"), (rm, "ext2fs_xattr_remove")):
        wcs = calls_to(fn, "ext2fs_xattrs_write")
        rep.ob("C15.e", site(fn, "handle written back"), bool(wcs), "ext2fs_xattrs_write called")
        for c in wcs:
            bad = failure_returns(fn, prog, c)
            rep.ob("C15.e", site(fn, "write-back failure is returned"), not bad, "%s" % [(b_[0].line, b_[1]) for b_ in bad[:2]])
    for c in calls_to(xs, "xattr_array_update"):
        bad = failure_returns(xs, prog, c)
        # the first attempt may be retried with a value inode when it reports no space: only the last one is final
    upd = calls_to(xs, "xattr_array_update")
    if upd:
        last = sorted(upd, key=lambda n: (n.line, n.idx))[-1]
        bad = failure_returns(xs, prog, last)
        rep.ob("C15.e", site(xs, "failed array update is returned"), not bad, "%s" % [(b_[0].line, b_[1]) for b_ in bad[:2]])

    # ------------------------------------------------------------------ C15.i slots beyond the count are zero
    # The array of a handle is reused: the slot at index `count` becomes the scratch entry of the next attribute added,
    # and that code releases whatever value inode the slot still names.  Removing an entry therefore clears the slot it
    # vacates on every path - also when the entry removed was the last one and nothing had to be moved.
    rmv = ea["ext2fs_xattr_remove"]
    decs_ = [n for n in rmv.events("S") if T.last_field(n.ev["lhs"]) and T.last_field(n.ev["lhs"])[1] == "count" and n.ev.get("o") in ("--", "-=")]
    clr = [n for n in calls_to(rmv, "memset", "__builtin___memset_chk") if T.const(arg(n, 1)) == 0]
    rep.floor("C15.i count decrement / slot clearing in ext2fs_xattr_remove", min(len(decs_), len(clr)), 1)
    for i, n in enumerate(decs_):
        rep.ob("C15.i", site(rmv, "vacated slot cleared whenever the count goes down#%d" % i), rmv.dominated_by(n, clr),
               "memset(…, 0, sizeof(entry)) dominates `%s`" % n.text()[:30])

    # ------------------------------------------------------------------ C15.j what the reader refuses the writer refuses
    # read_xattrs_from_buffer() rejects a value longer than a constant limit with EXT2_ET_EA_BAD_VALUE_SIZE - for the
    # whole inode: none of its attributes can be read any more, so the offending one cannot even be removed.
    # ext2fs_xattr_set() therefore refuses, up front, a length beyond that limit (a constant no larger than the reader's).
    rdx = ea["read_xattrs_from_buffer"]

    def _limits(f, pred):
        out = []
        for b in f.blocks:
            lit = f.literal(b)
            a0 = T.strip(lit[0]) if lit else None
            if isinstance(a0, dict) and a0.get("k") == "b" and a0.get("o") in ("<", "<=", ">", ">="):
                for p_, q_ in ((a0["l"], a0["r"]), (a0["r"], a0["l"])):
                    c_ = T.const(q_)
                    if c_ is not None and c_ >= 1024 and pred(p_):
                        out.append((c_, f.block_end(b)))
        return out
    rl = _limits(rdx, lambda y: "e_value_size" in T.field_names(y))
    wl = _limits(xs, lambda y: T.path(y) == "value_len")
    rep.floor("C15.j constant limit on e_value_size in read_xattrs_from_buffer", len(rl), 1)
    if rl:
        kr = min(c_ for c_, _ in rl)
        early = [c_ for c_, n_ in wl if c_ <= kr and not any(n_ in xs.reach(xs.after(a_)) for a_ in calls_to(xs, "ext2fs_get_mem", "xattr_array_update"))]
        rep.ob("C15.j", site(xs, "a value the reader would refuse is refused by set"), bool(early),
               "reader's limit %d; ext2fs_xattr_set() compares value_len with %s before it allocates or updates anything" % (kr, sorted(c_ for c_, _ in wl)))

    # ------------------------------------------------------------------ C15.k a value inode that could not be filled is taken back
    # xattr_create_ea_inode() allocates an inode and writes the value into it.  When the write fails (no space) the
    # blocks written so far and the inode on disk are given back before the error is returned; the caller only sees the
    # error and has no inode number to clean up with.
    cei = ea["xattr_create_ea_inode"] if "xattr_create_ea_inode" in ea else world.program("debugfs", plain=True).fn("xattr_create_ea_inode", EA)
    wrs = calls_to(cei, "ext2fs_file_write")
    undo = calls_to(cei, "ext2fs_punch", "ext2fs_punch2", "ext2fs_free_ext_attr", "ext2fs_block_alloc_stats2")
    rep.floor("C15.k value write in xattr_create_ea_inode", len(wrs), 1)
    for i, w_ in enumerate(wrs):
        bad = []
        for b in cei.blocks:
            lit = cei.literal(b)
            end_ = cei.block_end(b)
            if not lit or T.path(lit[0]) not in ("ret", "retval", "err") or end_ not in cei.reach(cei.after(w_)):
                continue
            # the first test of the status after the write
            if any(cei.literal(m.bid) and T.path(cei.literal(m.bid)[0]) == T.path(lit[0]) and m is cei.block_end(m.bid) and m is not end_
                   and end_ in cei.reach(cei.after(m)) for m in cei.reach(cei.after(w_))):
                continue
            fail = [m for (m, si) in cei.succ(end_) if (si == 0) == lit[1] and m not in undo]
            r = cei.reach(fail, avoid=undo) if fail else set()
            if any(x.ev and x.ev["e"] == "R" for x in r) or cei.exit_node() in r:
                bad.append(end_.line)
        # if the inode was marked in use before the write, the failing path takes the mark back as well
        marked = [c_ for c_ in calls_to(cei, "ext2fs_inode_alloc_stats2", "ext2fs_inode_alloc_stats") if cei.dominated_by(w_, [c_]) and
                  (T.const(arg(c_, 2)) or 0) > 0]
        unmark = [c_ for c_ in calls_to(cei, "ext2fs_inode_alloc_stats2", "ext2fs_inode_alloc_stats") if (T.const(arg(c_, 2)) or 0) < 0]
        if marked:
            for b in cei.blocks:
                lit = cei.literal(b)
                end_ = cei.block_end(b)
                if not lit or T.path(lit[0]) not in ("ret", "retval", "err") or end_ not in cei.reach(cei.after(w_)):
                    continue
                fail = [m for (m, si) in cei.succ(end_) if (si == 0) == lit[1] and m not in unmark]
                r = cei.reach(fail, avoid=unmark) if fail else set()
                if any(x.ev and x.ev["e"] == "R" for x in r) or cei.exit_node() in r:
                    bad.append(("inode mark kept", end_.line))
        rep.ob("C15.k", site(cei, "a failed value write is undone before the error is returned#%d" % i), bool(undo) and not bad,
               "from the failing side of the status test after ext2fs_file_write() every path to a return passes ext2fs_punch(): %s" % bad)

    # ------------------------------------------------------------------ C15.l a name that does not fit its length byte is refused
    # e_name_len is one byte.  A name part of 300 characters would be written with length 44 and read back as another
    # attribute; the array update refuses a name part longer than 255 before anything is changed.
    xau = ea["xattr_array_update"]
    nl = [xau.block_end(b) for b in xau.blocks if xau.literal(b) and T.const(T.strip(xau.literal(b)[0]).get("r") if isinstance(T.strip(xau.literal(b)[0]), dict) else None) in (255, 256)
          and depends_on(xau, xau.literal(b)[0], lambda y: isinstance(y, dict) and y.get("k") == "c" and y.get("fn") == "strlen")]
    rep.ob("C15.l", site(xau, "name part longer than 255 bytes refused"), bool(nl),
           "a comparison of strlen(name part) with 255 leads out of xattr_array_update(): %d test(s)" % len(nl))

    # ------------------------------------------------------------------ C15.m a value given as a file is the whole file
    # debugfs `ea_set -f file` reads the value with one fread().  Its limit is the longest value there can be, not the
    # block size of the file system: a 3000-byte file on a 1k file system was stored as 1024 bytes without a word.
    dsx = prog.fn("do_set_xattr", "debugfs/xattrs.c")
    frs = [n for n in dsx.events("S") if any(cc.get("fn") == "fread" for cc in T.calls(n.ev.get("rhs") or {}))] + calls_to(dsx, "fread")
    rep.floor("C15.m fread of the value file in do_set_xattr", len(frs), 1)
    for i, n in enumerate(frs):
        cc = [c_ for c_ in ([n.ev["x"]] if n.ev["e"] == "C" else T.calls(n.ev.get("rhs") or {})) if c_.get("fn") == "fread"][0]
        lim = cc["a"][2] if len(cc.get("a", [])) > 2 else None
        by_block = isinstance(lim, dict) and ("blocksize" in T.field_names(lim) or depends_on(dsx, lim, lambda y: "blocksize" in T.field_names(y)))
        rep.ob("C15.m", site(dsx, "value file not cut at the block size#%d" % i), not by_block,
               "fread(buf, 1, %s, fp): the limit does not derive from the block size" % T.pp(lim or {})[:30])

    # ------------------------------------------------------------------ C15.n an EA block that holds nothing any more is released
    # ext2fs_xattrs_write() skips the EA block when every attribute fits the inode body, and the code it skips to frees
    # a block the inode still has.  The decision to skip is made on the attribute counts alone: conjoined with "and the
    # inode has no EA block", the freeing code can never see a block, and removing the last block-resident attribute
    # leaves an empty block allocated for good.
    done = [xw.block_end(b) for b in xw.blocks if xw.literal(b) and {"ibody_count", "count"} <= T.field_names(xw.literal(b)[0])]
    rep.floor("C15.n the all-in-the-body test of ext2fs_xattrs_write", len(done), 1)
    for i, e_ in enumerate(done):
        lit = xw.literal(e_.bid)
        yes = [m for (m, si) in xw.succ(e_) if (si == 0) == lit[1]]
        tied = [m for m in yes if xw.literal(m.bid) and
                any(cc.get("fn") == "ext2fs_file_acl_block" for cc in T.calls(resolve_local(xw, xw.literal(m.bid)[0])))]
        rep.ob("C15.n", site(xw, "skipping the EA block does not depend on there being none#%d" % i), not tied,
               "the outcome `ibody_count == count` leads on without a test of ext2fs_file_acl_block(): %s" % [m.line for m in tied])

    # ------------------------------------------------------------------ C15.h a command that could not do its work says so
    # debugfs ea_set / ea_rm / ea_get end silently when all went well.  When a library call failed (the handle could
    # not be opened, the attributes not read, the value not stored) silence would read as success: on the failing
    # outcome of every test of the error variable, each path to the end of the command passes a message.
    XC = "debugfs/xattrs.c"
    n_t = 0
    for name in ("do_set_xattr", "do_rm_xattr", "do_get_xattr"):
        fn = prog.fn(name, XC)
        printers = set(calls_to(fn, *PRINTERS)) | set(calls_to(fn, "perror"))
        seq = {}
        for bid in sorted(fn.blocks):
            lit = fn.literal(bid)
            if not lit or T.path(lit[0]) != "err":
                continue
            end_ = fn.block_end(bid)
            srcs = [n for n in fn.events("S") if T.path(n.ev["lhs"]) == "err" and fn.dominated_by(end_, [n]) and
                    isinstance(n.ev.get("rhs"), dict) and T.strip(n.ev["rhs"]).get("k") == "c"]
            if not srcs:
                continue
            src = sorted(srcs, key=lambda n: (n.line, n.idx))[-1]
            n_t += 1
            fail = [m for (m, si) in fn.succ(end_) if ((si == 0) == lit[1])]
            ex = absint.Explorer(fn, prog)
            terms = ex.run(fail, env0={"err": "NZ"}, on_node=lambda node, env, fl, _p=printers: (fl | {"said"}) if node in _p else fl)
            quiet = [ex.trace(st)[-6:] for (node, env, fl, st) in terms if node is fn.exit_node() and "said" not in fl]
            seq[T.strip(src.ev["rhs"]).get("fn")] = seq.get(T.strip(src.ev["rhs"]).get("fn"), -1) + 1
            rep.ob("C15.h", site(fn, "failure of %s is reported#%d" % (T.strip(src.ev["rhs"]).get("fn"), seq[T.strip(src.ev["rhs"]).get("fn")])),
                   not quiet, "from the failing side of `if (err)` at line %d every path to the end of %s passes com_err(): %s" %
                   (end_.line, name, quiet[:1]))
    rep.floor("C15.h error tests in the xattr commands of debugfs", n_t, 8)


def _reached_when(fn, call, pred):
    """with every literal satisfying pred taken on its true side, no entry is finished (the cursor
    advanced by EXT2_EXT_ATTR_NEXT) without passing the call"""
    ends = {}
    for bid in fn.blocks:
        lit = fn.literal(bid)
        if lit and pred(lit[0]):
            ends[fn.block_end(bid)] = lit[1]
    if not ends:
        return False

    def ok(n, si, m, _e=ends):
        if n in _e:
            return (si == 0) == _e[n]
        return True
    adv = [n for n in fn.events("S") if "EXT2_EXT_ATTR_NEXT" in T.macros(n.ev.get("rhs") or {})]
    if not adv:
        return False
    r = fn.reach([fn.entry_node()], avoid=[call], edge_ok=ok)
    return not any(a in r for a in adv)


def _occ(fn, node):
    nm = T.call_names(node.ev["x"])[0] if T.call_names(node.ev["x"]) else "?"
    same = sorted([n for n in fn.call_nodes() if nm in T.call_names(n.ev["x"])], key=lambda n: (n.line, n.bid, n.idx))
    return same.index(node)
