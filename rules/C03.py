"""C03 — journal replay applies exactly the committed, unrevoked transactions: control structure
of the recovery core (both builds) and agreement of the two front-ends.  DESIGN.md §4 C03."""
from collections import Counter
from vlib import tree as T
from vlib import effects
from vlib.rulelib import *
from vlib.engine import Broken, line_path

# inserting a fresh record (not an overwrite of an existing one) and the lookup are steps of their own
REVOKE_STEPS = ("insert_revoke_hash", "find_revoke_record")

EXPLANATION = (
    "GUARD/ORDER rules over clang CFGs of e2fsck/recovery.c and revoke.c as built for e2fsck and for debugfs, plus a SIBLING "
    "rule over e2fsck/journal.c and debugfs/journal.c: filesystem-device writes of recovery happen only in PASS_REPLAY, revoke "
    "scanning only in PASS_REVOKE, end_transaction is decided only in PASS_SCAN, passes run SCAN, REVOKE, REPLAY each only if the "
    "previous one succeeded; every replay write is gated by jbd2_journal_test_revoke(…, transaction being replayed) being false "
    "and the tag checksum verifying; the revoke table keeps the newest revoking transaction (comparator argument roles) and "
    "test_revoke compares against the queried transaction; bad magic / wrong sequence / unknown block type leave the scan "
    "without replaying; the escape restore sits between copy and write; after recovery the journal is released with reset and "
    "needs_recovery cleared; the two front-ends have equal effect skeletons (device I/O calls and stores to journal state) "
    "apart from a listed set of accepted differences.  Decides the control structure; not tag arithmetic or checksum values.")


def gated(fn, node, match, need_truth, extra_ok=None):
    """node is reachable from entry only through an edge on which a literal matching `match`
    has truth `need_truth`: forbid those edges and test unreachability"""
    found = [False]

    def ok(nn, si, m):
        lit = fn.literal(nn.bid)
        mres = match(lit[0]) if lit is not None else None
        if mres:
            found[0] = True
            truth = lit[1] if si == 0 else (not lit[1])
            if mres == "neg":
                truth = not truth
            if truth == need_truth:
                return False
        if extra_ok is not None:
            return extra_ok(nn, si, m)
        return True
    r = fn.reach([fn.entry_node()], edge_ok=ok)
    return found[0] and node not in r


def is_pass_eq(macro):
    """matches the literal `pass == <macro>`; PASS_SCAN is 0, so that test is normalised to `!pass`"""
    def m(atom):
        a = T.strip(atom)
        if isinstance(a, dict) and a.get("k") == "b" and a.get("o") == "==" and macro in T.macros(a) and \
                "pass" in T.vars_in(a):
            return True
        if macro == "PASS_SCAN" and isinstance(a, dict) and a.get("k") == "v" and a.get("n") == "pass":
            return "neg"
        return None
    return m


def call_atom(name):
    def m(atom):
        a = T.strip(atom)
        return isinstance(a, dict) and a.get("k") == "c" and name in T.call_names(a)
    return m


BUILDS = [("e2fsck", "e2fsck/journal.c"), ("debugfs", "debugfs/journal.c")]


def run(world, rep, tier, only=None):
    for (pn, jfile) in BUILDS:
        prog = world.program(pn)
        tag = "[%s]" % pn
        dop = prog.fn("do_one_pass")
        # ------------------------------------------------------------------ C03.a pass discipline
        fsdev = [n for n in calls_to(dop, "__getblk", "getblk") if arg_path_endswith(n, 0, "j_fs_dev")]
        dirty = [n for n in calls_to(dop, "mark_buffer_dirty") if T.path(arg(n, 0)) == "nbh"]
        copies = [n for n in calls_to(dop, "memcpy") if (T.path(arg(n, 0)) or "").startswith("nbh")]
        rep.floor("C03.a replay events" + tag, min(len(fsdev), len(dirty), len(copies)), 1)
        for kind, nodes in (("__getblk(j_fs_dev)", fsdev), ("memcpy into nbh", copies), ("mark_buffer_dirty(nbh)", dirty)):
            for n in nodes:
                rep.ob("C03.a", site(dop, "%s only in PASS_REPLAY%s" % (kind, tag)),
                       gated(dop, n, is_pass_eq("PASS_REPLAY"), True),
                       "the filesystem-device write path is reachable only where pass == PASS_REPLAY")
        for n in calls_to(dop, "scan_revoke_records"):
            rep.ob("C03.a", site(dop, "scan_revoke_records only in PASS_REVOKE" + tag),
                   gated(dop, n, is_pass_eq("PASS_REVOKE"), True), "revoke records are collected only in the REVOKE pass")
        ends = [n for n in dop.events("S") if T.last_field(n.ev["lhs"]) == ("recovery_info", "end_transaction")]
        rep.floor("C03.a end_transaction stores" + tag, len(ends), 2)
        for i, n in enumerate(ends):
            rep.ob("C03.a", site(dop, "end_transaction decided only in PASS_SCAN#%d%s" % (i, tag)),
                   gated(dop, n, is_pass_eq("PASS_SCAN"), True), "`%s` only where pass == PASS_SCAN" % n.text()[:40])
        rec = prog.fn("jbd2_journal_recover")
        passes = {}
        for n in calls_to(rec, "do_one_pass"):
            for m in ("PASS_SCAN", "PASS_REVOKE", "PASS_REPLAY"):
                if arg_has_macro(n, 2, m):
                    passes[m] = n
        rep.ob("C03.a", site(rec, "three passes present" + tag), len(passes) == 3, "SCAN, REVOKE and REPLAY are all run: %s" % sorted(passes))
        if len(passes) == 3:
            s, v, r = passes["PASS_SCAN"], passes["PASS_REVOKE"], passes["PASS_REPLAY"]
            from vlib import absint
            ex = absint.Explorer(rec, prog)
            badp = []

            def on(node, env, flags, _s=s, _v=v, _r=r, _b=badp):
                if node is _s:
                    return flags | {"scan"}
                if node is _v:
                    if "scan" not in flags:
                        _b.append("REVOKE without SCAN")
                    return flags | {"revoke"}
                if node is _r:
                    if not ({"scan", "revoke"} <= flags):
                        _b.append("REPLAY without %s" % sorted({"scan", "revoke"} - flags))
                    return flags | {"replay"}
                return flags
            ex.run([rec.entry_node()], on_node=on)
            rep.ob("C03.a", site(rec, "pass order SCAN<REVOKE<REPLAY" + tag), not badp,
                   "on every consistent path REPLAY runs only after SCAN and REVOKE ran (path-sensitive on err): %s" % badp[:2])
            for nm, n in (("REVOKE", v), ("REPLAY", r)):
                lits = control_lits(rec, n)
                rep.ob("C03.a", site(rec, "%s only if the previous pass succeeded%s" % (nm, tag)),
                       any((not t) and T.path(a) == "err" for t, a in lits), "control-dependent on !err")

        # ------------------------------------------------------------------ C03.b revoke and checksum gate the write
        for n in dirty:
            rep.ob("C03.b", site(dop, "replay gated by !test_revoke" + tag),
                   gated(dop, n, call_atom("jbd2_journal_test_revoke"), False),
                   "mark_buffer_dirty(nbh) unreachable when jbd2_journal_test_revoke() is true")
            rep.ob("C03.b", site(dop, "replay gated by tag checksum" + tag),
                   gated(dop, n, call_atom("jbd2_block_tag_csum_verify"), True),
                   "mark_buffer_dirty(nbh) unreachable when jbd2_block_tag_csum_verify() fails")
        for n in calls_to(dop, "jbd2_journal_test_revoke"):
            a2 = arg(n, 2)
            rep.ob("C03.b", site(dop, "test_revoke asked about the transaction being replayed" + tag),
                   T.path(a2) == "next_commit_ID" and T.const(a2) is None, "third argument is %s" % T.pp(a2))
            a1 = arg(n, 1)
            src = resolve_local(dop, a1)
            rep.ob("C03.b", site(dop, "test_revoke asked about the tag's block" + tag),
                   any(c.get("fn") == "read_tag_block" for c in T.calls(src)) or T.path(a1) == "blocknr",
                   "second argument derives from read_tag_block(): %s" % T.pp(a1))
        # the block written is the block tested
        for g in fsdev:
            rep.ob("C03.b", site(dop, "written block = tested block" + tag),
                   T.pp(arg(g, 1)) == T.pp(arg(calls_to(dop, "jbd2_journal_test_revoke")[0], 1))
                   if calls_to(dop, "jbd2_journal_test_revoke") else False,
                   "__getblk(j_fs_dev, %s)" % T.pp(arg(g, 1)))
        # revoke table semantics (comparator roles)
        sr = prog.fn("jbd2_journal_set_revoke")
        upd = [n for n in sr.events("S") if T.last_field(n.ev["lhs"]) == ("jbd2_revoke_record_s", "sequence")]
        rep.floor("C03.b record->sequence update" + tag, len(upd), 1)
        for u in upd:
            ok = False
            det = []
            for (t, a) in control_lits(sr, u):
                a0 = T.strip(a)
                if isinstance(a0, dict) and a0.get("k") == "c" and a0.get("fn") in ("tid_gt", "tid_geq"):
                    x0, x1 = a0["a"][0], a0["a"][1]
                    det.append("%s%s(%s, %s)" % ("" if t else "!", a0["fn"], T.pp(x0), T.pp(x1)))
                    new_first = T.path(x0) == "sequence" and T.last_field(x1) == ("jbd2_revoke_record_s", "sequence")
                    old_first = T.path(x1) == "sequence" and T.last_field(x0) == ("jbd2_revoke_record_s", "sequence")
                    if (new_first and t) or (old_first and not t and a0["fn"] == "tid_geq"):
                        ok = True
            rep.ob("C03.b", site(sr, "revoke record keeps the newest transaction" + tag), ok,
                   "record->sequence is overwritten only when the new sequence is later: %s" % det)
            rep.ob("C03.b", site(sr, "update stores the new sequence" + tag), T.path(u.ev.get("rhs")) == "sequence",
                   "record->sequence = %s" % T.pp(u.ev.get("rhs")))
        tr = prog.fn("jbd2_journal_test_revoke")
        cmpn = [b for b in tr.blocks if tr.literal(b) and T.strip(tr.literal(b)[0]).get("fn") in ("tid_gt", "tid_geq")]
        rep.floor("C03.b comparator in test_revoke" + tag, len(cmpn), 1)
        for b in cmpn:
            atom, pos = tr.literal(b)
            a0 = T.strip(atom)
            x0, x1 = a0["a"][0], a0["a"][1]
            # `if (tid_gt(sequence, record->sequence)) return 0;` : not revoked when the queried transaction is later
            si_true = 0 if pos else 1
            succ = tr.blocks[b]["s"][si_true]
            rets = [n for n in tr.reach([tr.node(succ, 0)], avoid=[]) if n.ev and n.ev["e"] == "R"]
            first_ret = None
            for n in tr.nodes():
                if n.bid == succ and n.ev and n.ev["e"] == "R":
                    first_ret = n
            ok = T.path(x0) == "sequence" and T.last_field(x1) == ("jbd2_revoke_record_s", "sequence") and \
                first_ret is not None and T.const(first_ret.ev.get("x")) == 0 and a0["fn"] == "tid_gt"
            rep.ob("C03.b", site(tr, "a later transaction is not revoked" + tag), ok,
                   "%s(%s, %s) true -> return %s" % (a0["fn"], T.pp(x0), T.pp(x1),
                                                     T.pp(first_ret.ev.get("x")) if first_ret else "?"))
        # scan_revoke_records records the revoking transaction
        sc = prog.fn("scan_revoke_records")
        for n in calls_to(sc, "jbd2_journal_set_revoke"):
            rep.ob("C03.b", site(sc, "revokes recorded with their transaction" + tag), T.path(arg(n, 2)) == "sequence",
                   "jbd2_journal_set_revoke(journal, blocknr, %s)" % T.pp(arg(n, 2)))
        for n in calls_to(dop, "scan_revoke_records"):
            rep.ob("C03.b", site(dop, "revoke scan passes the current transaction" + tag),
                   T.path(arg(n, 2)) == "next_commit_ID", "scan_revoke_records(…, %s, …)" % T.pp(arg(n, 2)))

        # ------------------------------------------------------------------ C03.c scan stops
        def stops(bid, si, what):
            succ = dop.blocks[bid]["s"][si]
            if succ is None or succ < 0:
                return
            r = dop.reach([dop.node(succ, 0)])
            hit = [x for x in dirty + fsdev if x in r]
            rep.ob("C03.c", site(dop, "%s ends the scan%s" % (what, tag)), not hit,
                   "from the failing arm no replay event is reachable any more")
        found = set()
        for bid in dop.blocks:
            lit = dop.literal(bid)
            if not lit:
                continue
            a = T.strip(lit[0])
            if a.get("k") == "b" and a.get("o") == "==":
                if "JBD2_MAGIC_NUMBER" in T.macros(a) and ("journal_header_s", "h_magic") in T.fields(a):
                    found.add("magic")
                    stops(bid, 1 if lit[1] else 0, "bad magic")
                vs = T.vars_in(a)
                if vs == {"sequence", "next_commit_ID"}:
                    found.add("sequence")
                    stops(bid, 1 if lit[1] else 0, "wrong sequence")
        for bid, b in dop.blocks.items():
            t = b.get("t")
            if t and t.get("k") == "switch" and T.path(t.get("c")) == "blocktype":
                for si, s in enumerate(b["s"]):
                    lab = dop.blocks.get(s, {}).get("lab") if s is not None and s >= 0 else None
                    if lab and lab.get("default"):
                        found.add("default")
                        stops(bid, si, "unknown block type")
        rep.ob("C03.c", site(dop, "scan-stop tests present" + tag), found == {"magic", "sequence", "default"},
               "magic, sequence and default-arm tests found: %s" % sorted(found))
        # ------------------------------------------------------------------ C03.g the v1 running checksum starts afresh for every transaction
        # With the old-style (COMPAT_CHECKSUM) journal the scan accumulates a crc32 over the blocks of a transaction
        # and compares it at the commit block.  Whatever makes the scan accept the commit block and move on to the
        # next transaction must also reset the accumulator, or the next - intact - transaction cannot match.
        acc = [n for n in dop.events("S") if T.path(n.ev["lhs"]) == "crc32_sum" and n.ev.get("o") == "="]
        v1 = {}
        for bid in dop.blocks:
            lit = dop.literal(bid)
            if lit and any(cc.get("fn") == "jbd2_has_feature_checksum" for cc in T.calls(lit[0])):
                v1[dop.block_end(bid)] = lit[1]
        nexts = [n for n in dop.events("S") if T.path(n.ev["lhs"]) == "next_commit_ID" and n.ev.get("o") in ("++", "+=")]
        rep.floor("C03.g accumulator resets / v1 tests / transaction advance" + tag, min(len(acc), len(v1), len(nexts)), 1)
        for end_, pos in v1.items():
            si = 0 if pos else 1
            starts = [m for (m, i_) in dop.succ(end_) if i_ == si]
            joins = [m for (m, i_) in dop.succ(end_) if i_ != si]
            # only the test in the commit-block arm: the one whose arm contains a reset at all
            hb0 = loop_head(dop, end_)
            arm = dop.reach(starts, avoid=joins + ([dop.node(hb0, 0)] if hb0 is not None else []))
            if not any(a_ in arm for a_ in acc):
                rep.examined()
                continue
            # a commit block whose checksum does not match is not accepted (chksum_error records the failure),
            # nor is one seen after a failure (break): accepted = falling out of the arm to the code after it
            ce = dop.label_block("chksum_error")
            cut = [dop.node(ce, 0)] if ce is not None else []
            hb = loop_head(dop, end_)
            if hb is not None:
                cut.append(dop.node(hb, 0))     # one block of the log at a time
            r = dop.reach(starts, avoid=acc + cut + [end_])
            leak = [m for m in joins if m in r]
            rep.ob("C03.g", site(dop, "accepted v1 commit block resets the running checksum" + tag), not leak,
                   "every path through the jbd2_has_feature_checksum() arm that falls out of it (commit block accepted) stores "
                   "crc32_sum = ~0")
        # ------------------------------------------------------------------ C03.h the log is a ring: a cursor is wrapped before its next use
        # Every block number handed to jread() comes from a log cursor; after each advance of a cursor (one block or a
        # whole descriptor's worth) the cursor is folded back into [j_first, j_last) before it is read again, copied,
        # handed to a helper by address or returned through a pointer.
        nadv = 0
        for rf in [f for f in prog.functions() if f.file == dop.file]:
            for a_, c, bad in ring_cursor_uses(rf, ("jread",), 2):
                nadv += 1
                rep.ob("C03.h", site(rf, "log cursor %s wrapped after `%s`%s" % (c, a_.text()[:30], tag)), bad is None,
                       "every path from the advance at line %d to a use of %s passes `if (%s >= last) %s -= ...`%s" %
                       (a_.line, c, c, c, "" if bad is None else "; reaches %s (line %d) unwrapped" % (bad.text()[:40], bad.line)))
        rep.floor("C03.h log cursor advances" + tag, nadv, 4)
        # ------------------------------------------------------------------ C03.i only the records a revoke block declares are revoked
        # A revoke block says how much of it is in use (r_count).  What lies behind is not part of the record - the
        # writers leave zeroes or old bytes there - and a block number read from it would keep a committed,
        # unrevoked block from being replayed.  The loop that registers revoke records is bounded by r_count.
        srr = prog.fn("scan_revoke_records", dop.file)
        regs = calls_to(srr, "jbd2_journal_set_revoke")
        rep.floor("C03.i revoke registrations in scan_revoke_records" + tag, len(regs), 1)
        for i, c in enumerate(regs):
            hb = loop_head(srr, c)
            cond = (srr.blocks[hb].get("t") or {}).get("c") if hb is not None else None
            ok = isinstance(cond, dict) and depends_on(srr, cond, lambda y: "r_count" in T.field_names(y), depth=7, prog=prog)
            rep.ob("C03.i", site(srr, "record loop bounded by the block's r_count%s#%d" % (tag, i)), ok,
                   "the condition of the loop around jbd2_journal_set_revoke() `%s` derives from header->r_count" % T.pp(cond or {})[:40])
        # non-SCAN descriptor checksum failure fails the pass
        dv = [b for b in dop.blocks if dop.literal(b) and call_atom("jbd2_descriptor_block_csum_verify")(dop.literal(b)[0])]
        rep.ob("C03.c", site(dop, "descriptor checksum verified" + tag), bool(dv), "jbd2_descriptor_block_csum_verify controls a branch")
        cv = [b for b in dop.blocks if dop.literal(b) and call_atom("jbd2_commit_block_csum_verify")(dop.literal(b)[0])]
        rep.ob("C03.c", site(dop, "commit checksum verified" + tag), bool(cv), "jbd2_commit_block_csum_verify controls a branch")

        # ------------------------------------------------------------------ C03.d escape
        esc = [n for n in dop.events("S") if "JBD2_MAGIC_NUMBER" in T.macros(n.ev.get("rhs") or {}) and
               (T.path(n.ev["lhs"]) or "").startswith("nbh")]
        rep.ob("C03.d", site(dop, "escaped block restored" + tag), bool(esc), "store of JBD2_MAGIC_NUMBER into nbh->b_data exists")
        for e in esc:
            lits = control_lits(dop, e)
            rep.ob("C03.d", site(dop, "restore only for escaped tags" + tag),
                   any(t and lit_tests_bit(a, "JBD2_FLAG_ESCAPE") for t, a in lits), "under flags & JBD2_FLAG_ESCAPE")
            rep.ob("C03.d", site(dop, "restore between copy and write" + tag),
                   dop.dominated_by(e, copies) and all(d in dop.reach(dop.after(e)) for d in dirty) and
                   not any(e in dop.reach(dop.after(d), avoid=[dop.node(_loop_head(dop, d), 0)]) for d in dirty
                           if _loop_head(dop, d) is not None),
                   "after memcpy(nbh->b_data, …) and before mark_buffer_dirty(nbh)")

        # ------------------------------------------------------------------ C03.e afterwards empty
        runf = prog.fn("e2fsck_run_ext3_journal" if pn == "e2fsck" else "ext2fs_run_ext3_journal", jfile)
        clr = calls_to(runf, "e2fsck_clear_recover" if pn == "e2fsck" else "ext2fs_clear_recover")
        recs = calls_to(runf, "recover_ext3_journal")
        rep.floor("C03.e anchors" + tag, min(len(clr), len(recs)), 1)

        def reopen_ok(nn, si, m):
            lit = runf.literal(nn.bid)
            if lit and T.path(lit[0]) == "retval":
                truth = lit[1] if si == 0 else (not lit[1])
                return not truth
            return True
        for r in recs:
            through = set(clr) | prog.noreturn_nodes(runf)
            starts = [m for m in runf.after(r) if m not in through]
            rr = runf.reach(starts, avoid=through, edge_ok=reopen_ok)
            rep.ob("C03.e", site(runf, "needs_recovery cleared after recovery" + tag), runf.exit_node() not in rr,
                   "every path from recover_ext3_journal to return (reopen succeeded) passes *_clear_recover")

    # ------------------------------------------------------------------ C03.j transaction numbers are compared modulo 2^32
    # Commit IDs are 32-bit serial numbers that wrap (jbd2 starts a journal at a random one).  "Later than" is decided
    # on the 32-bit difference read as signed: the value compared with 0 in tid_gt()/tid_geq() has a 32-bit signed type
    # and is the plain difference of the two 32-bit arguments - widened operands give the ordering of integers, under
    # which everything after the wrap is "earlier" and the scan ends before the first transaction is replayed.
    W32 = ("int", "__s32", "s32", "int32_t", "signed int")
    n_tid = 0
    seen_tid = set()
    for pn in ("e2fsck", "debugfs"):
        pp_ = world.program(pn, plain=True)
        for f in pp_.functions():
            if f.name not in ("tid_gt", "tid_geq") or (f.file, f.name) in seen_tid:
                continue
            seen_tid.add((f.file, f.name))
            n_tid += 1
            types = {l_["n"]: l_.get("t", "") for l_ in f.raw.get("locals", []) + f.raw.get("params", [])}
            ok = False
            why = "no comparison with 0 found"
            for r_ in f.events("R"):
                x = T.strip(r_.ev.get("x") or {})
                if not (isinstance(x, dict) and x.get("k") == "b" and x.get("o") in (">", ">=", "<", "<=")):
                    continue
                v = T.strip(x.get("l")) if T.const(x.get("r")) == 0 else T.strip(x.get("r"))
                if not (isinstance(v, dict) and v.get("k") == "v"):
                    # written without a local, e.g. `(int)(x - y) > 0`: the width is that of the cast, which the facts
                    # carry on the unstripped node; anything not recognised is not judged
                    raw = x.get("l") if T.const(x.get("r")) == 0 else x.get("r")
                    t_ = raw.get("t", "") if isinstance(raw, dict) and raw.get("k") == "cast" else None
                    ok = t_ is None or t_.strip() in W32
                    why = "compared expression `%s` (cast to `%s`)" % (T.pp(raw)[:30], t_)
                    continue
                defs = [n for n in f.events("S") if T.path(n.ev["lhs"]) == v["n"]]
                plain = all(isinstance(T.strip(n.ev.get("rhs") or {}), dict) and T.strip(n.ev["rhs"]).get("k") == "b" and
                            T.strip(n.ev["rhs"]).get("o") == "-" and
                            all(isinstance(T.strip(T.strip(n.ev["rhs"]).get(sd)), dict) and T.strip(T.strip(n.ev["rhs"]).get(sd)).get("k") == "v"
                                and T.strip(T.strip(n.ev["rhs"]).get(sd)).get("s") == "p" for sd in ("l", "r"))
                            for n in defs) and bool(defs)
                ok = types.get(v["n"], "").strip() in W32 and plain
                why = "`%s` has type `%s`; it is the plain difference of the arguments: %s" % (v["n"], types.get(v["n"]), plain)
            rep.ob("C03.j", site(f, "32-bit serial-number comparison"), ok, why)
    rep.floor("C03.j transaction-number comparators", n_tid, 2)

    # ------------------------------------------------------------------ C03.f front-end agreement
    pe, pd = world.program("e2fsck"), world.program("debugfs")
    PAIRS = [("getblk", "getblk"), ("sync_blockdev", "sync_blockdev"), ("ll_rw_block", "ll_rw_block"),
             ("mark_buffer_dirty", "mark_buffer_dirty"), ("brelse", "brelse"), ("wait_on_buffer", "wait_on_buffer"),
             ("jbd2_journal_bmap", "jbd2_journal_bmap"),
             ("e2fsck_journal_load", "ext2fs_journal_load"), ("e2fsck_journal_release", "ext2fs_journal_release"),
             ("recover_ext3_journal", "recover_ext3_journal"), ("e2fsck_clear_recover", "ext2fs_clear_recover"),
             ("e2fsck_journal_sb_csum", "ext2fs_journal_sb_csum"), ("e2fsck_journal_sb_csum_verify", "ext2fs_journal_sb_csum_verify"),
             ("e2fsck_journal_sb_csum_set", "ext2fs_journal_sb_csum_set"),
             ("e2fsck_journal_verify_csum_type", "ext2fs_journal_verify_csum_type")]
    ACCEPT = {
        ("e2fsck_journal_load", "call:com_err"): "e2fsck prints a diagnostic, debugfs returns the code",
        ("e2fsck_journal_load", "call:_"): "message translation",
        ("e2fsck_journal_load", "call:clear_v2_journal_fields"): "e2fsck repairs V1 superblocks carrying V2 fields (asks first); debugfs does not repair",
        ("recover_ext3_journal", "call:fix_problem"): "e2fsck reports the corrupt transaction (PR_0_JNL_TXN_CORRUPT); debugfs only records s_errno",
        ("recover_ext3_journal", "call:clear_problem_context"): "problem reporting",
        ("recover_ext3_journal", "store:problem_context.ino"): "problem reporting",
        ("e2fsck_journal_release", "call:free"): "debugfs frees fs->journal_name",
        ("e2fsck_journal_release", "store:struct_ext2_filsys.journal_name"): "debugfs keeps the journal name in the fs handle",
        ("e2fsck_journal_release", "store:struct_ext2_filsys.journal_io"): "debugfs keeps the journal channel in the fs handle",
        ("e2fsck_journal_release", "store:e2fsck_struct.journal_io"): "e2fsck keeps the journal channel in its context",
        ("e2fsck_clear_recover", "call:ext2fs_get_tstamp"): "debugfs (no fsck afterwards) adjusts s_lastcheck so the next mount forces a check",
        ("e2fsck_clear_recover", "store:ext2_super_block.s_lastcheck"): "same",
        ("sync_blockdev", "store:e2fsck_struct.?"): "",
        ("ll_rw_block", "call:com_err"): "same diagnostics",
        ("getblk", "call:e2fsck_allocate_memory"): "allocator wrapper differs",
        ("getblk", "call:malloc"): "allocator differs",
        ("getblk", "call:calloc"): "allocator differs",
        ("getblk", "call:ext2fs_get_memzero"): "allocator differs",
        ("getblk", "call:memset"): "allocator differs",
        ("getblk", "store:buffer_head.b_ctx"): "buffer remembers the e2fsck context",
        ("getblk", "store:buffer_head.b_fs"): "buffer remembers the fs handle",
        ("e2fsck_journal_load", "call:fix_problem"): "e2fsck asks before it upgrades/clears a V1 superblock's V2 fields; debugfs does not repair",
        ("e2fsck_journal_load", "call:clear_problem_context"): "problem reporting",
    }
    for (en, dn) in PAIRS:
        if not pe.has_fn(en, "e2fsck/journal.c") or not pd.has_fn(dn, "debugfs/journal.c"):
            rep.ob("C03.f", "e2fsck/journal.c:%s~debugfs/journal.c:%s:both exist" % (en, dn), False, "sibling vanished")
            continue
        fe, fd = pe.fn(en, "e2fsck/journal.c"), pd.fn(dn, "debugfs/journal.c")
        se, sd = skeleton(fe), skeleton(fd)
        diff = []
        for k in sorted(set(se) | set(sd)):
            if se.get(k, 0) != sd.get(k, 0):
                diff.append((k, se.get(k, 0), sd.get(k, 0)))
        unacc = [(k, a, b) for (k, a, b) in diff if (en, k) not in ACCEPT and not k.startswith("call:jfs_debug")]
        rep.ob("C03.f", "e2fsck/journal.c:%s~debugfs/journal.c:%s:effect skeleton" % (en, dn), not unacc,
               "device-I/O calls and stores to journal state agree (%d items; accepted differences: %s); "
               "unaccepted (item, e2fsck count, debugfs count): %s" %
               (len(se), [k for (k, a, b) in diff if (en, k) in ACCEPT], unacc))
    # open mode of the external journal derives from the read-only state in both
    ge = pe.fn("e2fsck_get_journal", "e2fsck/journal.c")
    gd = pd.fn("ext2fs_get_journal", "debugfs/journal.c")
    oe = calls_to(ge, "struct_io_manager.open")
    od = calls_to(gd, "struct_io_manager.open")
    rep.ob("C03.f", "e2fsck/journal.c:e2fsck_get_journal~debugfs/journal.c:ext2fs_get_journal:external journal opened once",
           len(oe) == 1 and len(od) == 1, "both front-ends open the external journal through io_ptr->open")


RENAME = {"e2fsck_": "", "ext2fs_": ""}
STATE_RECORDS = ("journal_s", "journal_superblock_s", "ext2_super_block", "buffer_head", "kdev_s")
IO_CALLS = ("io_channel_read_blk64", "io_channel_write_blk64", "io_channel_flush", "io_channel_close",
            "io_channel_set_blksize", "struct_io_manager.open", "ll_rw_block", "mark_buffer_dirty", "mark_buffer_clean",
            "brelse", "getblk", "__getblk", "sync_blockdev", "wait_on_buffer", "jbd2_journal_bmap", "ext2fs_bmap2",
            "ext2fs_mark_super_dirty", "ext2fs_free_mem", "jbd2_chksum", "jbd2_journal_recover",
            "jbd2_journal_init_revoke", "jbd2_journal_destroy_revoke", "jbd2_journal_init_revoke_record_cache",
            "jbd2_journal_init_revoke_table_cache", "jbd2_journal_destroy_revoke_record_cache",
            "jbd2_journal_destroy_revoke_table_cache", "jbd2_has_feature_fast_commit", "jbd2_journal_get_num_fc_blks",
            "jbd2_journal_has_csum_v2or3", "jbd2_has_feature_csum2", "jbd2_has_feature_csum3", "jbd2_has_feature_checksum",
            "ext2fs_clear_feature_journal_needs_recovery", "com_err", "fix_problem", "clear_v2_journal_fields",
            "free", "ext2fs_get_tstamp", "clear_problem_context")


def _norm(name):
    for p in ("e2fsck_", "ext2fs_"):
        if name.startswith(p + "journal_") or name in (p + "get_journal", p + "clear_recover"):
            return name[len(p):]
    return name


def skeleton(fn):
    c = Counter()
    for n in fn.nodes():
        if not n.ev:
            continue
        if n.ev["e"] == "C":
            names = T.call_names(n.ev["x"])
            nm = None
            for x in names:
                if x in IO_CALLS or x.startswith("e2fsck_journal_") or x.startswith("ext2fs_journal_"):
                    nm = _norm(x)
                    break
            if nm:
                c["call:" + nm] += 1
        elif n.ev["e"] == "S":
            lf = T.last_field(n.ev["lhs"])
            if lf and lf[0] in STATE_RECORDS + ("struct_ext2_filsys", "e2fsck_struct", "problem_context"):
                c["store:%s.%s" % lf] += 1
    return c


def _loop_head(fn, node):
    best, head = None, None
    for hb, b in fn.blocks.items():
        t = b.get("t")
        if not t or t.get("k") not in ("for", "while", "do"):
            continue
        if not b.get("s") or b["s"][0] is None or b["s"][0] < 0:
            continue
        body = fn.reach([fn.node(b["s"][0], 0)], avoid=[fn.block_end(hb)])
        if node in body:
            if best is None or len(body) < best:
                best, head = len(body), hb
    return head
