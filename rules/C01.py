"""C01 — e2fsck repairs converge: the bookkeeping that turns "repair applied" into "repair on
disk and reported".  DESIGN.md §4 C01."""
from vlib import tree as T
from vlib import effects, absint, problems
from vlib.rulelib import *
from vlib.engine import Broken, line_path

EXPLANATION = (
    "ORDER/PURITY/PATH rules over e2fsck: (a) every in-place change of fs->block_map / fs->inode_map in e2fsck is followed, on "
    "every path on which the enclosing repair completes, by the matching dirty-mark before control returns to the end-of-run "
    "write-out (obligations left open by a function are passed to its call sites, callbacks to the iterator call that received "
    "them; error returns discharge); (b) fix_problem's declined-answer bookkeeping and (c) the exit-status computation are the "
    "C02.c rules; (d) the pass table runs pass 1 < 2 < 3 < 4 < 5 with pass 5 last, the pass loop honours RUN_RETURN, and main "
    "restarts when asked; (e) with the run not read-only the end-of-run sequence is bitmaps, ext2fs_flush, io_channel_flush, "
    "each failure reported by a PR_FATAL problem; (f) the answer of every prompting fix_problem() call is used; (g) the stored "
    "bitmap checksums are verified in pass 5 unless that very bitmap is dirty (it will be re-checksummed) — nothing else may "
    "skip the verification.  Decides the bookkeeping on every path; not that each repair is semantically right.")

MODB = ("ext2fs_mark_block_bitmap2", "ext2fs_unmark_block_bitmap2", "ext2fs_mark_block_bitmap_range2",
        "ext2fs_unmark_block_bitmap_range2", "ext2fs_fast_mark_block_bitmap2", "ext2fs_fast_unmark_block_bitmap2")
MODI = ("ext2fs_mark_inode_bitmap2", "ext2fs_unmark_inode_bitmap2", "ext2fs_fast_mark_inode_bitmap2",
        "ext2fs_fast_unmark_inode_bitmap2")


def mod_kind(n):
    """'B' / 'I' when the node changes the live block / inode bitmap of the fs handle"""
    if n.ev and n.ev["e"] == "C":
        if is_call(n, *MODB) and arg_path_endswith(n, 0, "block_map"):
            return "B"
        if is_call(n, *MODI) and arg_path_endswith(n, 0, "inode_map"):
            return "I"
        if is_call(n, "ext2fs_copy_bitmap"):
            p = T.path(arg(n, 1))
            if p and p.endswith("fs->block_map"):
                return "B"
            if p and p.endswith("fs->inode_map"):
                return "I"
    if n.ev and n.ev["e"] == "S" and n.ev["o"] == "=":
        lf = T.last_field(n.ev["lhs"])
        if lf == ("struct_ext2_filsys", "block_map") and T.const(n.ev.get("rhs")) != 0:
            return "B"
        if lf == ("struct_ext2_filsys", "inode_map") and T.const(n.ev.get("rhs")) != 0:
            return "I"
    return None


def run(world, rep, tier, only=None):
    prog = world.program("e2fsck")
    from rules import C02

    # ------------------------------------------------------------------ C01.a
    must_b = prog.must(lambda f, n: is_call(n, "ext2fs_mark_bb_dirty") or _sets_flag(n, "EXT2_FLAG_BB_DIRTY"))
    must_i = prog.must(lambda f, n: is_call(n, "ext2fs_mark_ib_dirty") or _sets_flag(n, "EXT2_FLAG_IB_DIRTY"))

    def marks(fn, kind):
        ms = prog.noreturn_nodes(fn).copy()
        mset = must_b if kind == "B" else must_i
        for n in fn.nodes():
            if not n.ev:
                continue
            if kind == "B" and (is_call(n, "ext2fs_mark_bb_dirty") or _sets_flag(n, "EXT2_FLAG_BB_DIRTY")):
                ms.add(n)
            elif kind == "I" and (is_call(n, "ext2fs_mark_ib_dirty") or _sets_flag(n, "EXT2_FLAG_IB_DIRTY")):
                ms.add(n)
            elif n.ev["e"] == "C":
                gs = prog.callees(fn, n.ev["x"])
                if gs and all(g.key in mset for g in gs):
                    ms.add(n)
            if n.ev["e"] == "S" and T.last_field(n.ev["lhs"]) == ("e2fsck_struct", "flags") and \
                    store_sets_bits(n, "E2F_FLAG_ABORT"):
                ms.add(n)       # the run is aborted: exit status cannot claim success
        return ms

    def open_after(fn, node, kind):
        """returns reachable from node on which no mark happened and the returned value is not a known error"""
        mk = marks(fn, kind)
        if fn.raw.get("ret") == "void":
            r = fn.reach([m for m in fn.after(node) if m not in mk], avoid=mk) if node not in mk else set()
            return [(fn.exit_node(), [])] if fn.exit_node() in r else []
        ex = absint.Explorer(fn, prog)
        ex.track = set()
        for rn in fn.events("R"):
            ex.track |= T.vars_in(rn.ev.get("x") or {})

        def on(n, env, flags):
            if n in mk:
                return None     # discharged on this path
            return flags
        terms = ex.run([node], on_node=on, skip_start_event=False) if node not in mk else []
        out = []
        for (n, env, fl, st) in terms:
            if n.ev and n.ev["e"] == "R":
                x = n.ev.get("x")
                v = ex.eval(x, env) if x is not None else None
                if x is not None and absint._nz(v) and _errcode_fn(fn):
                    continue        # error exit: the repair did not complete
                out.append((n, ex.trace(st)))
            elif n is fn.exit_node() and not fn.events("R"):
                out.append((n, ex.trace(st)))
        # void functions: reaching the exit node without a return statement
        if not out and fn.raw.get("ret") == "void":
            r = fn.reach([m for m in fn.after(node) if m not in mk], avoid=mk)
            if fn.exit_node() in r:
                out.append((fn.exit_node(), []))
        return out

    def discharge(fn, node, kind, depth=0, seen=()):
        """(ok, explanation)"""
        if fn.name == "main":
            return False, "obligation reached main unmarked"
        # the dirty flag is sticky until the bitmaps are written: a mark that dominates the change is as good
        real_marks = [m for m in marks(fn, kind) if m.ev and (is_call(m, "ext2fs_mark_bb_dirty", "ext2fs_mark_ib_dirty") or
                                                               m.ev["e"] == "S")]
        if real_marks and fn.dominated_by(node, [m for m in real_marks if not (
                m.ev["e"] == "S" and T.last_field(m.ev["lhs"]) == ("e2fsck_struct", "flags"))]) and \
                not any(is_call(x, "ext2fs_write_bitmaps", "e2fsck_write_bitmaps") for x in fn.call_nodes()):
            return True, "a dirty-mark dominates the change in %s (flag stays set until write-out)" % fn.name
        opens = open_after(fn, node, kind)
        if not opens:
            return True, "marked dirty (or fatal/error exit) on every path in %s" % fn.name
        if depth >= 4 or fn.key in seen:
            return False, "%s can return with the %s bitmap changed and not marked dirty (path %s)" % (
                fn.name, "block" if kind == "B" else "inode", opens[0][1][:12])
        sites = list(prog.callers().get(fn.key, []))
        # functions handed over as callbacks: the call that received the pointer
        for f2 in prog.functions():
            if not f2.file.startswith("e2fsck/"):
                continue
            for cn in f2.call_nodes():
                for a in cn.ev["x"].get("a", []):
                    a0 = T.strip(a)
                    if isinstance(a0, dict) and a0.get("k") == "fn" and a0["n"] == fn.name and \
                            prog.lookup(fn.name, f2) and prog.lookup(fn.name, f2)[0].key == fn.key:
                        sites.append((f2, cn))
        if fn.name == "main":
            return False, "obligation reached main unmarked"
        if not sites:
            return False, "%s leaves the bitmap unmarked and has no caller to do it" % fn.name
        why = []
        for (cf, cn) in sites:
            ok, w = discharge(cf, cn, kind, depth + 1, seen + (fn.key,))
            if not ok:
                return False, "via %s:%d: %s" % (cf.name, cn.line, w)
            why.append(cf.name)
        return True, "left to callers, each of which marks: %s" % sorted(set(why))
    n_mod = 0
    for fn in prog.functions():
        if not fn.file.startswith("e2fsck/"):
            continue
        idx = {}
        for n in fn.nodes():
            k = mod_kind(n)
            if not k:
                continue
            n_mod += 1
            i = idx.get(k, 0)
            idx[k] = i + 1
            ok, why = discharge(fn, n, k)
            rep.ob("C01.a", site(fn, "%s-bitmap change marked dirty#%d" % ("block" if k == "B" else "inode", i)), ok,
                   "`%s`: %s" % (n.text()[:50], why))
    rep.floor("C01.a bitmap modification sites in e2fsck", n_mod, 10)

    # ------------------------------------------------------------------ C01.b / C01.c shared with C02
    C02.fix_problem_rules(world, prog, rep, "C01.b")
    C02.exit_status_rules(world, prog, rep, "C01.c")

    # ------------------------------------------------------------------ C01.d restart and pass order
    g = [x for x in world.globals_named("e2fsck_passes", prog) if x["file"] == "e2fsck/e2fsck.c"]
    if len(g) != 1:
        raise Broken("e2fsck_passes[] not found")
    names = []
    for e in g[0]["init"]["e"]:
        e0 = T.strip(e)
        names.append(e0.get("n") if e0.get("k") == "fn" else None)
    want = ["e2fsck_pass1", "e2fsck_pass2", "e2fsck_pass3", "e2fsck_pass4", "e2fsck_pass5"]
    pos = [names.index(w) if w in names else -1 for w in want]
    rep.ob("C01.d", "e2fsck/e2fsck.c:e2fsck_passes:pass order", all(p >= 0 for p in pos) and pos == sorted(pos),
           "passes 1..5 appear in order: %s" % names)
    real = [n for n in names if n]
    rep.ob("C01.d", "e2fsck/e2fsck.c:e2fsck_passes:pass 5 is last", bool(real) and real[-1] == "e2fsck_pass5" and names[-1] is None,
           "summaries are recomputed after all structural repairs; table is null-terminated")
    er = prog.fn("e2fsck_run", "e2fsck/e2fsck.c")
    pc = [n for n in er.call_nodes() if not n.ev["x"].get("fn") and T.path(n.ev["x"].get("via")) == "e2fsck_pass"]
    rep.floor("C01.d pass call in e2fsck_run", len(pc), 1)
    for n in pc:
        head = _loop_head(er, n)
        ok = False
        if head is not None:
            body = er.reach([er.node(er.blocks[head]["s"][0], 0)], avoid=[er.block_end(head)])
            for bid in er.blocks:
                lit = er.literal(bid)
                if lit and lit_tests_bit(lit[0], "E2F_FLAG_RUN_RETURN", "flags") and er.block_end(bid) in body:
                    # the test dominates the pass call inside the loop body
                    def notret(nn, si, m, _b=bid):
                        if nn is er.block_end(_b):
                            l = er.literal(_b)
                            truth = l[1] if si == 0 else (not l[1])
                            return not truth
                        return True
                    if er.dominated_by(n, [er.block_end(bid)]):
                        ok = True
        rep.ob("C01.d", site(er, "RUN_RETURN tested before each pass"), ok,
               "the pass loop tests E2F_FLAG_RUN_RETURN before calling the next pass")
    main = prog.fn("main", "e2fsck/unix.c")
    runs = calls_to(main, "e2fsck_run")
    rb = main.label_block("restart")
    cl = main.label_block("cleanup")
    if rb is None or cl is None:
        raise Broken("labels restart/cleanup vanished")
    restart_lits = [b for b in main.blocks if main.literal(b) and "E2F_FLAG_RESTART" in T.macros(main.literal(b)[0])
                    and "run_result" in T.vars_in(main.literal(b)[0])]
    rep.ob("C01.d", site(main, "restart request tested"), bool(restart_lits), "run_result & E2F_FLAG_RESTART is tested")
    for b in restart_lits[:1]:
        lit = main.literal(b)
        si = 0 if lit[1] else 1
        succ = main.blocks[b]["s"][si]
        r = main.reach([main.node(succ, 0)], avoid=[main.node(rb, 0)])
        rep.ob("C01.d", site(main, "restart honoured"), main.node(cl, 0) not in r,
               "on the RESTART arm control goes back to label restart and cannot reach cleanup first")
        for rn in runs:
            rep.ob("C01.d", site(main, "restart test follows the run"), main.block_end(b) in main.reach(main.after(rn)),
                   "the test is reachable after e2fsck_run")

    # ------------------------------------------------------------------ C01.e end-of-run write-out
    region = main.reach([main.node(cl, 0)])
    wb = [n for n in region if is_call(n, "e2fsck_write_bitmaps")]
    fl = [n for n in region if is_call(n, "ext2fs_flush", "ext2fs_flush2")]
    iof = [n for n in region if is_call(n, "io_channel_flush", "struct_io_manager.flush")]
    cls = [n for n in region if is_call(n, "ext2fs_close_free", "ext2fs_close")]
    rep.floor("C01.e write-out anchors", min(len(wb), len(fl), len(iof), len(cls)), 1)
    rep.ob("C01.e", site(main, "bitmaps, flush, io flush, close in this order"),
           all(f in main.reach(main.after(w)) for w in wb for f in fl) and
           all(i in main.reach(main.after(f)) for f in fl for i in iof) and
           all(c in main.reach(main.after(i)) for i in iof for c in cls) and
           not any(w in main.reach(main.after(i)) for w in wb for i in iof),
           "e2fsck_write_bitmaps < ext2fs_flush < io_channel_flush < ext2fs_close_free")

    def rw(nn, si, m):
        lit = main.literal(nn.bid)
        if lit and main.block_end(nn.bid) in region:
            truth = lit[1] if si == 0 else (not lit[1])
            if lit_tests_bit(lit[0], "E2F_OPT_READONLY", "options"):
                return not truth
            if lit_tests_bit(lit[0], "E2F_OPT_UNSHARE_BLOCKS", "options"):
                return not truth
        return True
    for kind, nodes in (("bitmaps written", wb), ("io channel flushed", iof)):
        r = main.reach([main.node(cl, 0)], avoid=set(nodes) | prog.noreturn_nodes(main), edge_ok=rw)
        rep.ob("C01.e", site(main, "%s on every writable exit path" % kind), not any(c in r for c in cls),
               "with the run not read-only, no path from cleanup to the close skips it")
    rows, _l = problems.load(world)
    bycode = problems.by_code(rows)
    for nm in ("PR_6_FLUSH_FILESYSTEM", "PR_6_IO_FLUSH", "PR_6_SET_BG_CHECKSUM"):
        r = [x for x in rows if x.name == nm]
        rep.ob("C01.e", "e2fsck/problem.c:problem_table:%s is fatal" % nm, bool(r) and r[0].fatal,
               "a failed end-of-run write aborts the run with an error status")
    for f in fl + iof:
        # the result flows to pctx.errcode and a fix_problem with a fatal row
        st = [n for n in main.events("S") if any(c.get("id") == f.ev["x"].get("id") for c in T.calls(n.ev.get("rhs") or {}))]
        fps = [n for n in region if is_call(n, "fix_problem") and n in main.reach(main.after(f))]
        okf = bool(st) and any(any(bycode.get(v) and bycode[v].fatal for v, _ in problems.codes_at(main, x, prog)[0]) for x in fps)
        rep.ob("C01.e", site(main, "%s failure is fatal" % T.call_names(f.ev["x"])[0]), okf,
               "result stored and followed by a fix_problem() whose row has PR_FATAL")
    wbf = prog.fn("e2fsck_write_bitmaps")
    w2 = calls_to(wbf, "ext2fs_write_bitmaps")
    for n in w2:
        bad = absint.return_values_after_failure(wbf, prog, n) if wbf.raw.get("ret") != "void" else []
        fat = [x for x in wbf.reach(wbf.after(n)) if x in prog.noreturn_nodes(wbf)]
        rep.ob("C01.e", site(wbf, "bitmap write failure is fatal"), bool(fat), "fatal_error() on the failure arm")

    # ------------------------------------------------------------------ C01.f answers are acted on
    EXEMPT_UNUSED = {
        # informational / status problems whose answer cannot matter (PROMPT_NONE rows are skipped automatically)
    }
    n_sites = 0
    unused = []
    for fn in prog.functions():
        if not fn.file.startswith("e2fsck/"):
            continue
        for n in calls_to(fn, "fix_problem"):
            codes, ok = problems.codes_at(fn, n, prog)
            if not ok or not codes:
                rep.examined()
                continue
            rws = [bycode.get(v) for v, _ in codes]
            if any(r is None for r in rws):
                rep.examined()
                continue
            if all(r.prompt == 0 or r.fatal for r in rws):
                rep.examined()      # message only / fatal: nothing to act on
                continue
            n_sites += 1
            used = _result_used(fn, n)
            if not used:
                unused.append((fn, n, sorted(nm for _, nm in codes)))
    rep.floor("C01.f prompting fix_problem sites", n_sites, 200)
    KNOWN_UNUSED = {
        "PR_0_JOURNAL_RECOVERY_CLEAR": "status message preceding the real question (PR_0_JOURNAL_RUN*)",
        "PR_1_RELOC_TO_ALLOCATE": "informational step of the relocation dialogue",
        "PR_1B_DUP_BLOCK_HEADER": "header line", "PR_1B_DUP_BLOCK_END": "end of list",
        "PR_6_WRITE_QUOTAS": "error report (PROMPT_NULL) after a failed quota write; nothing further to do",
    }
    for (fn, n, cn) in unused:
        ok = all(c in KNOWN_UNUSED for c in cn) or _unused_is_benign(fn, n, bycode, prog)
        rep.ob("C01.f", site(fn, "answer of fix_problem(%s) is used#%d" % ("/".join(cn), _occ(fn, n))), ok,
               "the call's result is discarded at %s: a 'yes' would count as a fix with nothing fixed (%s)" %
               (n.where(), "; ".join(KNOWN_UNUSED.get(c, "NOT LISTED") for c in cn)))
    rep.ob("C01.f", "e2fsck:*:prompting answers used", True, "%d prompting call sites examined, %d discard the answer" % (n_sites, len(unused)))

    # ------------------------------------------------------------------ C01.i inode release routines consider the xattr block
    inode_release_rules(world, prog, rep, "C01.i")

    # ------------------------------------------------------------------ C01.h removing the orphan file releases its inode
    orphan_removal_rules(world, rep, "C01.h")

    # ------------------------------------------------------------------ C01.j one hash version for every name of a rebuilt directory
    # pass 3A files the entries of a rebuilt htree by hash; pass 2 of the next run verifies them with the version
    # adjusted for the superblock's unsigned-hash flag.  Every hashing site of e2fsck must apply that adjustment.
    from vlib import dirhash
    hs = dirhash.sites(prog, ("e2fsck/",))
    rep.floor("C01.j directory-hash call sites in e2fsck", len(hs), 3)
    for (f, c, ok, how) in hs:
        if ok is None:
            rep.examined()
            continue
        rep.ob("C01.j", site(f, "hash version adjusted for UNSIGNED_HASH#%d" % _occ_call(f, c)), ok,
               "ext2fs_dirhash2(%s, …): the version went through `+= 3 under s_flags & EXT2_FLAGS_UNSIGNED_HASH`" % how)

    # ------------------------------------------------------------------ C01.k positions in the refcount list do not survive a collapse
    # pass 1 keeps the outstanding references of shared xattr blocks in a sorted array; refcount_collapse() drops
    # entries and shrinks `count`, so an index derived from `count` before it is stale afterwards (a lost entry makes
    # pass 1 clone or clear a block that was fine and the next run disagree).
    erf = world.program("e2fsck", plain=True).fns_in_file("e2fsck/ea_refcount.c")     # functions as written
    shr = {g.name for g in erf if any(T.last_field(n.ev["lhs"]) == ("ea_refcount", "count") and n.ev.get("o") in ("=", "--", "-=")
                                      for n in g.events("S"))}
    nk = 0
    for f in erf:
        for c in calls_to(f, *sorted(shr)) if shr else []:
            nk += 1
            st = stale_after_call(f, c, "count")
            rep.ob("C01.k", site(f, "no index computed from count is used after %s#%d" % (T.call_names(c.ev["x"])[0], _occ_call(f, c))),
                   not st, "locals read from ->count before the call and used after it: %s" %
                   [(v, m.line) for v, m in st][:3])
    rep.floor("C01.k calls that shrink the refcount list", nk, 2)

    # ------------------------------------------------------------------ C01.l a block walk that rewrote the inode is followed by a re-read
    # check_blocks() keeps working on its copy of the inode after ext2fs_block_iterate3(); when the callback made the
    # walk rewrite the on-disk inode (BLOCK_CHANGED) that copy is stale and a later e2fsck_write_inode() would put
    # the bad mapping back - the next run finds it again.  Protocol: the callback raises pb->inode_modified wherever
    # it reports BLOCK_CHANGED, and check_blocks re-reads the inode under that flag right after the walk.
    cb_ = prog.fn("check_blocks", "e2fsck/pass1.c")
    walks_ = calls_to(cb_, "ext2fs_block_iterate3")
    rep.floor("C01.l block walk in check_blocks", len(walks_), 1)
    for wk in walks_:
        cbs = [T.strip(a)["n"] for a in wk.ev["x"].get("a", []) if isinstance(T.strip(a), dict) and T.strip(a).get("k") == "fn"]
        rereads = [n for n in calls_to(cb_, "e2fsck_read_inode", "e2fsck_read_inode_full")
                   if any(t and T.last_field(a) and T.last_field(a)[1] == "inode_modified" for t, a in control_lits(cb_, n))]
        wr = [n for n in calls_to(cb_, "e2fsck_write_inode", "e2fsck_write_inode_full")]
        # under inode_modified the re-read stands between the walk and every later write
        def modified_edge(n, si, m):
            lit = cb_.literal(n.bid)
            if lit and T.last_field(lit[0]) and T.last_field(lit[0])[1] == "inode_modified":
                truth = lit[1] if si == 0 else (not lit[1])
                return truth
            return True
        r = cb_.reach(cb_.after(wk), avoid=rereads, edge_ok=modified_edge)
        rep.ob("C01.l", site(cb_, "inode re-read after a walk that modified it"), bool(rereads) and not any(w_ in r for w_ in wr),
               "with pb.inode_modified set, every path from the walk to e2fsck_write_inode passes e2fsck_read_inode")
        for cbn in cbs:
            g = prog.fn(cbn, "e2fsck/pass1.c")
            intro = [n for n in g.nodes() if n.ev and n.ev["e"] in ("S", "R") and
                     "BLOCK_CHANGED" in T.macros((n.ev.get("rhs") if n.ev["e"] == "S" else n.ev.get("x")) or {})]
            flag = [n for n in g.events("S") if T.last_field(n.ev["lhs"]) and T.last_field(n.ev["lhs"])[1] == "inode_modified"]
            rep.floor("C01.l BLOCK_CHANGED sites in %s" % cbn, len(intro), 1)
            for i, n in enumerate(intro):
                ok = bool(flag) and (g.dominated_by(n, flag) or g.must_pass_after(n, flag))
                rep.ob("C01.l", site(g, "BLOCK_CHANGED raises inode_modified#%d" % i), ok,
                       "`%s` (line %d) lies behind or is always followed by `inode_modified = 1`" % (n.text()[:30], n.line))

    # ------------------------------------------------------------------ C01.m what e2fsck repaired in a group descriptor reaches the disk
    # (shared with C20.c) e2fsck runs with EXT2_FLAG_MASTER_SB_ONLY; the flush at the end must still write every
    # *primary* descriptor block - with meta_bg each meta group has its own - whatever that flag says.
    from rules import C20
    C20.flush2_writer_rules(world, prog, rep, "C01.m")

    # ------------------------------------------------------------------ C01.n cloning a block in pass 1b leaves nothing for the next run
    # clone_file_block() copies a multiply-claimed block to a new place.  (i) It is also handed the inode's EA block
    # (block count BLOCK_COUNT_EXTATTR), whose checksum covers the number of the block it is stored in: that copy is
    # written by the routine that computes the checksum, and the raw device write is not reached for it.  (ii) The
    # claim the inode had on the old block is given up by deferred_dec_badcount(); after the walk over the mapped
    # blocks and after the EA block was moved, every path to the end of clone_file() passes it - otherwise the
    # other claimant is cloned as well and the old block stays marked with no owner.
    p1b = {f.name: f for f in prog.fns_in_file("e2fsck/pass1b.c")}
    cfb, cfl = p1b["clone_file_block"], p1b["clone_file"]
    ea_lit = lambda a: "BLOCK_COUNT_EXTATTR" in T.macros(a) or (T.const(T.strip(a).get("r") if isinstance(T.strip(a), dict) else None) == -5)
    raw = calls_to(cfb, "io_channel_write_blk64", "io_channel_write_blk")
    cs_w = calls_to(cfb, "ext2fs_write_ext_attr3", "ext2fs_write_ext_attr2", "ext2fs_write_ext_attr")
    direct = [c for c in calls_to(cfl, "clone_file_block")]
    rep.floor("C01.n raw block writes in clone_file_block / EA call in clone_file", min(len(raw), len(direct)), 1)
    for i, w_ in enumerate(raw):
        off_ea = any((not t) and ea_lit(a) for t, a in control_lits(cfb, w_) if t is not None)
        rep.ob("C01.n", site(cfb, "EA block is not copied by the raw device write#%d" % i), off_ea and bool(cs_w) and
               all(any(t and ea_lit(a) for t, a in control_lits(cfb, c) if t is not None) for c in cs_w),
               "io_channel_write_blk64() lies on the `blockcnt != BLOCK_COUNT_EXTATTR` side: %s; ext2fs_write_ext_attr3() "
               "(checksum from the new block number) on the other: %d call(s)" % (off_ea, len(cs_w)))
    dd = calls_to(cfl, "deferred_dec_badcount")
    walks1b = calls_to(cfl, "ext2fs_block_iterate3")
    for i, c in enumerate(walks1b):
        rep.ob("C01.n", site(cfl, "claim on the last cloned block given up after the walk#%d" % i), bool(dd) and cfl.must_pass_after(c, dd),
               "deferred_dec_badcount() follows ext2fs_block_iterate3(…, clone_file_block, …) on every path")
    moved = [n for n in calls_to(cfl, "ext2fs_file_acl_block_set") if any(t and any(cc.get("fn") == "clone_file_block" for cc in T.calls(a))
                                                                           for t, a in control_lits(cfl, n) if t is not None)]
    rep.floor("C01.n stores of the cloned EA block in clone_file", len(moved), 1)
    for i, n in enumerate(sorted(moved, key=lambda x: x.line)[:1]):
        rep.ob("C01.n", site(cfl, "claim on the old EA block given up after it was cloned"), bool(dd) and cfl.must_pass_after(n, dd),
               "every path from `ext2fs_file_acl_block_set(…, new_blk)` to the end of clone_file() passes deferred_dec_badcount()")

    # ------------------------------------------------------------------ C01.o what is charged to i_blocks was allocated
    # ext2fs_iblk_add_blocks() charges whole clusters.  A counter that ends up as its argument (a field of the context
    # handed to a block-walk callback) goes up only where a cluster was taken from the allocator: a block that lies in
    # a cluster the inode already owns costs nothing, and counting it makes the next run report a wrong i_blocks.
    ALLOCATORS = ("ext2fs_new_block2", "ext2fs_new_block3", "ext2fs_new_range", "ext2fs_alloc_block3", "ext2fs_alloc_block2",
                  "e2fsck_allocate_block", "ext2fs_new_block")
    n_ctr = 0
    for f in prog.functions():
        if not f.file.startswith("e2fsck/"):
            continue
        for c in calls_to(f, "ext2fs_iblk_add_blocks"):
            lf = T.last_field(T.strip(arg(c, 2)) or {}) if isinstance(arg(c, 2), dict) else None
            if not lf:
                continue
            for g in prog.functions():
                if not g.file.startswith("e2fsck/"):
                    continue
                for n in g.events("S"):
                    if T.last_field(n.ev["lhs"]) == lf and n.ev.get("o") in ("++", "+="):
                        n_ctr += 1
                        al = calls_to(g, *ALLOCATORS)
                        rep.ob("C01.o", site(g, "%s counts allocated clusters only#%d" % (lf[1], n_ctr)), bool(al) and g.dominated_by(n, al),
                               "`%s` (line %d), later handed to ext2fs_iblk_add_blocks() in %s, lies behind a call of the allocator" %
                               (n.text()[:30], n.line, f.name))
    rep.floor("C01.o counters handed to ext2fs_iblk_add_blocks", n_ctr, 1)

    # ------------------------------------------------------------------ C01.p a rebuilt extent tree holds no extent longer than its kind allows
    # Pass 1E collects a file's mapping into a list (merging what is contiguous) and writes it back with
    # ext2fs_extent_insert(), which rejects a length above EXT_INIT_MAX_LEN - or above EXT_UNINIT_MAX_LEN, one less, for
    # an unwritten extent.  By then the old tree is freed: a rejected insert leaves the inode without its mapping and a
    # run that reports success.  On the way to the insert every extent's length has been compared with the maximum of
    # *its* kind (the list is cut into pieces there, or never allowed to grow beyond it).
    ex_fns = {f.name: f for f in prog.fns_in_file("e2fsck/extents.c")}
    rer = ex_fns["rewrite_extent_replay"]
    ins_e = calls_to(rer, "ext2fs_extent_insert")
    rep.floor("C01.p insertions in rewrite_extent_replay", len(ins_e), 1)

    def len_tests(f, macro):
        return [f.block_end(b) for b in f.blocks if f.literal(b) and macro in T.macros(f.literal(b)[0]) and
                ("e_len" in T.field_names(f.literal(b)[0]) or "e_len" in T.field_names(resolve_local(f, f.literal(b)[0])) or
                 depends_on(f, f.literal(b)[0], lambda y: "e_len" in T.field_names(y)))]
    for kind, macro in (("unwritten", "EXT_UNINIT_MAX_LEN"), ("written", "EXT_INIT_MAX_LEN")):
        at_write = [t_ for t_ in len_tests(rer, macro) if any(c in rer.reach(rer.after(t_)) for c in ins_e)]
        at_merge = all(len_tests(ex_fns[g], macro) for g in ("load_extents", "find_blocks") if g in ex_fns)
        rep.ob("C01.p", site(rer, "length of an %s extent compared with its maximum before the insert" % kind), bool(at_write) or at_merge,
               "%s is compared with e_len on the way to ext2fs_extent_insert() (%d test(s)), or in both collecting routines: %s" %
               (macro, len(at_write), at_merge))

    # ------------------------------------------------------------------ C01.q an old /lost+found that was a directory always restarts the check
    # e2fsck_get_lost_and_found() unlinks an unusable old /lost+found.  If it was a directory it is now unconnected, and
    # only the restart gets it found and re-attached; pass 4 does not (its own `.` accounts for the adjusted link count).
    # Behind the successful unlink every path that saw a directory sets E2F_FLAG_RESTART: nothing but the test of
    # i_mode (and the unlink's error return) may lead past the store.
    glf = prog.fn("e2fsck_get_lost_and_found", "e2fsck/pass3.c")
    unl = calls_to(glf, "ext2fs_unlink")
    rst = [n for n in glf.events("S") if (T.last_field(n.ev["lhs"]) or ("", ""))[1] == "flags" and
           store_sets_bits(n, "E2F_FLAG_RESTART")]
    rep.floor("C01.q unlink of the old lost+found", len(unl), 1)
    rep.floor("C01.q restart requests in e2fsck_get_lost_and_found", len(rst), 1)

    def q_edge(nn, si, m, _f=glf):
        lit = _f.literal(nn.bid)
        if not lit:
            return True
        a = resolve_local(_f, lit[0])
        truth = lit[1] if si == 0 else (not lit[1])
        if truth and "errcode" in T.field_names(a) | {x.split(".")[-1] for x in [T.path(a) or ""]}:
            return False                                        # the unlink failed
        if T.field_names(a) == {"i_mode"}:
            return any(r in _f.reach([m]) for r in rst)         # the side that saw something else than a directory
        return True
    for i, u in enumerate(unl):
        r = glf.reach(glf.after(u), avoid=rst, edge_ok=q_edge)
        rep.ob("C01.q", site(glf, "a directory unlinked from the root restarts the check#%d" % i), glf.exit_node() not in r,
               "behind ext2fs_unlink() (line %d) no path that saw a directory reaches the end without `flags |= E2F_FLAG_RESTART`" % u.line)

    # ------------------------------------------------------------------ C01.r a directory e2fsck builds by hand is mapped the way the file system maps
    # check_root() and e2fsck_get_lost_and_found() fill in a fresh inode themselves.  An inode with i_block[0] set to
    # the block is a block-mapped one, which pass 1 rejects on a bigalloc file system: what e2fsck -fy built would not
    # pass the next run.  The direct store is for file systems without extents only, and with extents the block is
    # mapped through ext2fs_bmap2() (as ext2fs_mkdir() does).
    n_r = 0
    for f in prog.fns_in_file("e2fsck/pass3.c"):
        for n in f.events("S"):
            l = T.strip(n.ev["lhs"])
            if not (isinstance(l, dict) and l.get("k") == "x" and (T.last_field(l.get("b")) or ("", ""))[1] == "i_block"):
                continue
            n_r += 1
            g = [(t, resolve_local(f, a)) for t, a in control_lits(f, n)]
            no_ext = any((not t) and any(c.get("fn") == "ext2fs_has_feature_extents" for c in T.calls(a)) for t, a in g)
            mapped = [c for c in calls_to(f, "ext2fs_bmap2") if T.macros(arg(c, 4) or {}) & {"BMAP_SET"} and
                      any(t and any(cc.get("fn") == "ext2fs_has_feature_extents" for cc in T.calls(resolve_local(f, a)))
                          for t, a in control_lits(f, c))]
            rep.ob("C01.r", site(f, "hand-made mapping only without extents#%d" % n_r), no_ext and bool(mapped),
                   "`%s` (line %d) lies on the side without the extents feature, and with it the block is mapped by "
                   "ext2fs_bmap2(BMAP_SET): %d call(s)" % (n.text()[:30], n.line, len(mapped)))
    rep.floor("C01.r inodes built by hand in pass3.c", n_r, 2)

    # ------------------------------------------------------------------ C01.g bitmap checksum verification skipped only for a dirty own bitmap
    p5 = {f.name: f for f in prog.fns_in_file("e2fsck/pass5.c")}
    pass5 = p5.get("e2fsck_pass5")
    for (fname, verifier, own, other) in (("check_inode_bitmap_checksum", "ext2fs_inode_bitmap_csum_verify",
                                           "ext2fs_test_ib_dirty", "ext2fs_test_bb_dirty"),
                                          ("check_block_bitmap_checksum", "ext2fs_block_bitmap_csum_verify",
                                           "ext2fs_test_bb_dirty", "ext2fs_test_ib_dirty")):
        f = p5.get(fname)
        if f is None or pass5 is None:
            raise Broken("%s vanished from pass5.c" % fname)
        vs = calls_to(f, verifier)
        rep.ob("C01.g", site(f, "stored checksum verified"), bool(vs), "%s is called" % verifier)
        lits = []
        for v in vs:
            lits += control_lits(f, v)
        for c in calls_to(pass5, fname):
            lits += control_lits(pass5, c)
        cross = [(t, a) for t, a in lits if any(x.get("fn") == other for x in T.calls(a))]
        rep.ob("C01.g", site(f, "verification does not depend on the other bitmap's dirtiness"), not cross,
               "skipping is allowed only when this bitmap itself will be rewritten: %s" %
               [("" if t else "!") + T.pp(a)[:40] for t, a in cross])
        calls5 = calls_to(pass5, fname)
        rep.ob("C01.g", site(pass5, "%s runs in pass 5" % fname), bool(calls5), "called from e2fsck_pass5")


def orphan_removal_rules(world, rep, rule):
    """every removal of the orphan file either re-creates it (the inode is reused) or releases its inode —
    the tune2fs and e2fsck siblings must agree"""
    n_sites = 0
    for pn in ("e2fsck", "tune2fs"):
        prog = world.program(pn)
        for fn in prog.functions():
            if fn.file.startswith("lib/"):
                continue
            for i, n in enumerate(calls_to(fn, "ext2fs_truncate_orphan_file")):
                n_sites += 1
                rel = [x for x in calls_to(fn, "ext2fs_inode_alloc_stats2", "ext2fs_inode_alloc_stats")
                       if (T.const(arg(x, 2)) or 0) < 0]
                cre = calls_to(fn, "ext2fs_create_orphan_file")
                through = set(rel) | set(cre) | prog.noreturn_nodes(fn)

                def success(nn, si, m, _fn=fn):
                    lit = _fn.literal(nn.bid)
                    if lit and T.path(lit[0]) in ("retval", "err"):
                        truth = lit[1] if si == 0 else (not lit[1])
                        return not truth
                    return True
                starts = [m for m in fn.after(n) if m not in through]
                r = fn.reach(starts, avoid=through, edge_ok=success)
                ends = [x for x in r if x is fn.exit_node() or (x.ev and x.ev["e"] == "R") or is_call(x, "ext2fs_close_free")]
                rep.ob(rule, site(fn, "orphan file removal releases or re-creates the inode#%d" % i), not ends,
                       "after a successful ext2fs_truncate_orphan_file() every path reaches ext2fs_inode_alloc_stats2(…, -1, …) "
                       "or ext2fs_create_orphan_file() before leaving: %s" % [e.where() for e in ends[:2]])
    rep.floor("%s orphan file removal sites" % rule, n_sites, 3)


def inode_release_rules(world, prog, rep, rule):
    """routines that give an inode's resources back (pass 2 deallocate_inode, pass 1b delete_file, orphan
    release) consider the xattr block on every path on which they complete: the external attribute block
    is owned by inodes that map no data blocks too"""
    SITES = [("e2fsck/pass2.c", "deallocate_inode", ("e2fsck_clear_inode",)),
             ("e2fsck/pass1b.c", "delete_file", ("e2fsck_clear_inode", "delete_file_block")),
             ("e2fsck/super.c", "release_inode_blocks", ())]
    for (file, fname, completions) in SITES:
        fn = prog.fn(fname, file)
        acl = [fn.block_end(b) for b in fn.blocks if fn.literal(b) and
               any(c.get("fn") == "ext2fs_file_acl_block" for c in T.calls(resolve_local(fn, fn.literal(b)[0])))]
        acl += [n for n in fn.events("S") if any(c.get("fn") == "ext2fs_file_acl_block" for c in T.calls(n.ev.get("rhs") or {}))]
        adj = calls_to(fn, "ext2fs_adjust_ea_refcount3", "ext2fs_adjust_ea_refcount2")
        rep.ob(rule, site(fn, "xattr block released"), bool(acl) and bool(adj),
               "%s tests ext2fs_file_acl_block() and drops the EA block's reference" % fname)
        if "e2fsck_clear_inode" in completions and fname == "deallocate_inode":
            ends = [n for n in fn.call_nodes() if n.ev["x"].get("fn") == "e2fsck_clear_inode"]
        else:
            ends = []
            for n in fn.events("R"):
                x = n.ev.get("x")
                if x is None or T.const(x) == 0:
                    ends.append(n)
            if fn.raw.get("ret") == "void":
                ends.append(fn.exit_node())
        noret = prog.noreturn_nodes(fn)
        r = fn.reach([fn.entry_node()], avoid=set(acl) | noret)
        skipped = [e for e in ends if e in r]
        # early exits taken before anything was released are fine: only those after the inode was freed count
        freed = calls_to(fn, "ext2fs_inode_alloc_stats2", "ext2fs_block_iterate3", "ext2fs_punch")
        real = []
        for e in skipped:
            if not freed or any(e in fn.reach(fn.after(f), avoid=set(acl) | noret) for f in freed):
                real.append(e)
        wit = None
        if real:
            pth = fn.witness_path([fn.entry_node()], real, avoid=set(acl) | noret)
            wit = line_path(pth) if pth else None
        rep.ob(rule, site(fn, "xattr block considered on every completing path"), not real,
               "no path on which the inode's other resources are released reaches the end of %s without testing "
               "ext2fs_file_acl_block()" % fname, wit)


def _sets_flag(n, macro):
    return n.ev and n.ev["e"] == "S" and T.last_field(n.ev["lhs"]) == ("struct_ext2_filsys", "flags") and \
        store_sets_bits(n, macro)


def _errcode_fn(fn):
    return fn.raw.get("ret") in ("errcode_t", "int", "long")


def _result_used(fn, n):
    cid = n.ev["x"].get("id")
    for m in fn.nodes():
        if m is n:
            continue
        trees = []
        if m.ev:
            if m.ev["e"] == "S":
                trees.append(m.ev.get("rhs"))
            elif m.ev["e"] == "R":
                trees.append(m.ev.get("x"))
            elif m.ev["e"] == "C":
                trees.extend(m.ev["x"].get("a", []))
        else:
            t = fn.blocks[m.bid].get("t")
            if t:
                trees.append(t.get("c"))
        for tr in trees:
            if isinstance(tr, dict) and any(x.get("k") == "c" and x.get("id") == cid for x in T.walk(tr)):
                return True
    return False


def _unused_is_benign(fn, n, bycode, prog):
    """discarding is harmless when the call is followed on every path by an abort/fatal or when the row is
    PR_NOT_A_FIX / PR_NO_OK-only informational"""
    codes, ok = problems.codes_at(fn, n, prog)
    rws = [bycode.get(v) for v, _ in codes]
    if rws and all(r is not None and (r.not_a_fix) for r in rws):
        return True
    ab = [x for x in fn.events("S") if T.last_field(x.ev["lhs"]) == ("e2fsck_struct", "flags")
          and (store_sets_bits(x, "E2F_FLAG_ABORT") or store_sets_bits(x, "E2F_FLAG_RESTART"))]
    through = set(ab) | prog.noreturn_nodes(fn)
    return bool(through) and fn.must_pass_after(n, through)


def _occ(fn, node):
    same = sorted(calls_to(fn, "fix_problem"), key=lambda n: (n.line, n.bid, n.idx))
    return same.index(node)


def _loop_head(fn, node):
    best, head = None, None
    for hb, b in fn.blocks.items():
        t = b.get("t")
        if not t or t.get("k") not in ("for", "while", "do"):
            continue
        if not b.get("s") or b["s"][0] is None or b["s"][0] < 0:
            continue
        body = fn.reach([fn.node(b["s"][0], 0)], avoid=[fn.block_end(hb)])
        if node in body:
            if best is None or len(body) < best:
                best, head = len(body), hb
    return head


def _occ_call(fn, node):
    nm = T.call_names(node.ev["x"])[0] if T.call_names(node.ev["x"]) else "?"
    same = sorted([n for n in fn.call_nodes() if nm in T.call_names(n.ev["x"])], key=lambda n: (n.line, n.bid, n.idx))
    return same.index(node)
