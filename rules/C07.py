"""C07 — mke2fs produces a consistent filesystem for every accepted configuration: ordering of the
accounting snapshots, feature -> on-disk object wiring, sources of non-determinism.  DESIGN.md §8.6 C07."""
from vlib import tree as T
from vlib import absint, effects
from vlib.engine import Broken, line_path
from vlib.rulelib import *

EXPLANATION = (
    "ORDER/TABLE/WHO rules over misc/mke2fs.c and the code it reaches: the quota files (a snapshot of all usage) are written "
    "after every step that can still allocate an inode or block - orphan file, huge files, the -d population - and only the "
    "close follows; each feature that owns an on-disk object has its creator call in main (resize inode, journal, orphan "
    "file, MMP block, quota files, bigalloc count fix-up), conditional on that feature, and a creator's failure ends the run "
    "with a non-zero status; root directory, lost+found, the reserved-inode marks and the bad-block inode are created on "
    "every run that is not super-only, after the tables were allocated; option parsing (PRS) precedes everything that may "
    "write and itself reaches no device write; every wall-clock read in code reachable from main either yields to the "
    "configured time (fs->now) or is one of the listed non-persistent uses; a UUID / hash seed is generated only when none "
    "was given.  `mke2fs -n` writing nothing is decided under C13.d and backup placement wiring under C20.  Decides "
    "ordering and wiring for every configuration; does NOT decide geometry arithmetic (group sizes, table placement, "
    "overhead, free counts).")

MK = "misc/mke2fs.c"

# wall-clock reads that never reach the disk image, one reason each
TIME_EXEMPT = {
    ("lib/ext2fs/progress.c", "ext2fs_numeric_progress_update"): "rate-limits the progress display",
    ("lib/ext2fs/progress.c", "ext2fs_numeric_progress_init"): "progress display",
    ("lib/ext2fs/gen_bitmap64.c", "ext2fs_alloc_generic_bmap"): "in-memory bitmap statistics (ENABLE_BMAP_STATS)",
    ("lib/ext2fs/gen_bitmap64.c", "ext2fs_copy_generic_bmap"): "in-memory bitmap statistics (ENABLE_BMAP_STATS)",
    ("lib/ext2fs/gen_bitmap64.c", "ext2fs_print_bmap_statistics"): "in-memory bitmap statistics (ENABLE_BMAP_STATS)",
    ("lib/ext2fs/mmp.c", "ext2fs_mmp_new_seq"): "MMP sequence number: random by design, only with -O mmp",
    ("lib/ext2fs/mmp.c", "ext2fs_mmp_read"): "MMP timing, only with -O mmp",
    ("lib/ext2fs/mmp.c", "ext2fs_mmp_write"): "mmp_time of a live MMP block, only with -O mmp",
    ("lib/ext2fs/mmp.c", "ext2fs_mmp_update2"): "MMP update pacing, only with -O mmp",
    ("lib/ext2fs/mmp.c", "ext2fs_mmp_start"): "MMP, only with -O mmp",
    ("lib/support/quotaio.c", "update_grace_times"): "grace times start only when a soft limit is exceeded; a new fs has no limits",
    ("lib/ext2fs/unix_io.c", "unix_open_channel"): "I/O statistics / safety sleep, not stored",
    ("lib/ext2fs/ismounted.c", "check_mntent_file"): "mount check, not stored",
    ("lib/ext2fs/tdb.c", "*"): "undo database bookkeeping, not part of the image",
    ("misc/util.c", "proceed_question"): "user prompt delay",
    ("misc/mke2fs.c", "PRS"): "seeds the lazy-init/journal-size heuristics display only",
    ("misc/plausible.c", "print_ext2_info"): "prints the age of a found filesystem",
    ("lib/ext2fs/ext2fsP.h", "ext2fsP_get_time"): "the overridable wrapper itself (checked separately)",
}


def run(world, rep, tier, only=None):
    prog = world.program("mke2fs")
    main = prog.fn("main", MK)

    # ------------------------------------------------------------------ C07.a the usage snapshot is taken last
    qc = calls_to(main, "create_quota_inodes")
    rep.floor("C07.a create_quota_inodes call in main", len(qc), 1)
    may_alloc = prog.may(lambda f, n: is_call(n, "ext2fs_inode_alloc_stats2", "ext2fs_inode_alloc_stats", "ext2fs_new_inode",
                                              "ext2fs_block_alloc_stats2", "ext2fs_block_alloc_stats_range",
                                              "ext2fs_alloc_block2", "ext2fs_alloc_block3", "ext2fs_new_block2"))
    def allocates(n):
        c = n.ev["x"]
        if c.get("fn") in ("create_quota_inodes",):
            return False
        return any(g.key in may_alloc for g in prog.callees(main, c, weak=False))
    for i, q in enumerate(qc):
        after = main.reach(main.after(q))
        late = [n for n in main.call_nodes() if n in after and n is not q and allocates(n)]
        # the close itself flushes but creates nothing
        late = [n for n in late if not is_call(n, "ext2fs_close_free", "ext2fs_close", "ext2fs_close2")]
        rep.ob("C07.a", site(main, "nothing is created after the quota usage snapshot#%d" % i), not late,
               "calls that may allocate inodes/blocks after create_quota_inodes(): %s" %
               [(n.line, (T.call_names(n.ev["x"]) or ["?"])[0]) for n in late[:4]])
        lits = [(t, a) for (bid, t, a, lp) in silent_lits(main, prog, q)]
        ok = all(any(c.get("fn") == "ext2fs_has_feature_quota" for c in T.calls(a)) for t, a in lits)
        rep.ob("C07.a", site(main, "quota files written whenever the feature is set#%d" % i), ok and bool(lits),
               "silently skipped only when the quota feature is off: %s" % [("" if t else "!") + T.pp(a)[:40] for t, a in lits])
    cq = prog.fn("create_quota_inodes", MK)
    cu = calls_to(cq, "quota_compute_usage")
    wq = calls_to(cq, "quota_write_inode")
    rep.ob("C07.a", site(cq, "usage computed before the quota files are written"), bool(cu) and bool(wq) and
           all(cq.dominated_by(w_, cu) for w_ in wq), "quota_compute_usage dominates quota_write_inode")

    # ------------------------------------------------------------------ C07.e blocks taken out of the map for a computation are put back
    # main() un-marks the listed bad blocks to compute s_overhead_clusters; until they are marked again they look
    # free to everything that allocates (root directory, lost+found, the bad-block inode's own indirect block).
    unm = [n for n in calls_to(main, "ext2fs_unmark_block_bitmap2", "ext2fs_unmark_block_bitmap_range2")
           if (T.path(arg(n, 0)) or "").endswith("block_map")]
    rem = [n for n in calls_to(main, "ext2fs_mark_block_bitmap2", "ext2fs_mark_block_bitmap_range2")
           if (T.path(arg(n, 0)) or "").endswith("block_map")]
    # the re-marking is a loop over the same list: reaching that loop is what the paths must do (a path that
    # skips its body would mean the list became empty in between), and tests of the list pointer stay true
    rem_heads = []
    for r_ in rem:
        hb_ = loop_head(main, r_)
        if hb_ is not None:
            rem_heads.append(main.node(hb_, 0))
    listvars = set()
    for u_ in unm:
        hb_ = loop_head(main, u_)
        if hb_ is not None:
            for (t_, a_) in control_lits(main, main.node(hb_, 0)):
                if t_ and T.strip(a_).get("k") == "v":
                    listvars.add(T.path(a_))
    same_list = {}
    for bid in main.blocks:
        lit = main.literal(bid)
        if lit and T.strip(lit[0]).get("k") == "v" and T.path(lit[0]) in listvars:
            same_list[main.block_end(bid)] = lit[1]

    def list_still_there(n, si, m, _s=same_list):
        return not (n in _s and ((si == 0) != _s[n]))
    for i, u in enumerate(unm):
        r = main.reach(main.after(u), avoid=rem + rem_heads, edge_ok=list_still_there)
        late = [n for n in main.call_nodes() if n in r and allocates(n) and not is_call(n, "ext2fs_close_free", "ext2fs_close")]
        rep.ob("C07.e", site(main, "temporarily un-marked blocks are marked again before anything allocates#%d" % i), not late,
               "allocating calls reachable after `%s` without passing a mark of fs->block_map: %s" %
               (u.text()[:40], [(n.line, (T.call_names(n.ev["x"]) or ["?"])[0]) for n in late[:4]]))
    rep.floor("C07.e un-mark of fs->block_map in main", len(unm), 1)

    # ------------------------------------------------------------------ C07.f per-piece accounting uses the piece
    # a packed flex_bg inode table can straddle a group boundary: the allocator charges it group by group in a loop
    # that splits the length into pieces; every accounting call in that loop must be given the piece
    pw = piecewise_loops([f for f in prog.functions() if f.file in (
        "lib/ext2fs/alloc_tables.c", "lib/ext2fs/alloc_stats.c", "lib/ext2fs/alloc_sb.c", "lib/ext2fs/initialize.c",
        "misc/mke2fs.c", "misc/mk_hugefiles.c", "lib/ext2fs/mkjournal.c", "lib/ext2fs/res_gdt.c")])
    rep.floor("C07.f piecewise loops in the allocation/accounting code", len(pw), 3)
    for (f, tot, part, bad, ncalls) in pw:
        rep.ob("C07.f", site(f, "loop over pieces `%s` of `%s` hands callees the piece" % (part, tot)), not bad,
               "%d calls in the loop body; calls given the running total `%s`: %s" %
               (ncalls, tot, [(c.line, (T.call_names(c.ev["x"]) or ["?"])[0]) for c in bad]))

    # ------------------------------------------------------------------ C07.b feature -> creator wiring
    CREATORS = [
        ("resize_inode", ("ext2fs_has_feature_resize_inode",), ("ext2fs_create_resize_inode",)),
        ("orphan_file", ("ext2fs_has_feature_orphan_file",), ("ext2fs_create_orphan_file",)),
        ("mmp", ("ext2fs_has_feature_mmp",), ("ext2fs_mmp_init",)),
        ("quota", ("ext2fs_has_feature_quota",), ("create_quota_inodes",)),
        ("bigalloc", ("ext2fs_has_feature_bigalloc",), ("fix_cluster_bg_counts",)),
        ("has_journal", ("ext2fs_has_feature_journal", "ext2fs_has_feature_journal_dev"),
         ("ext2fs_add_journal_inode3", "ext2fs_add_journal_inode2", "ext2fs_add_journal_device")),
    ]
    for (feat, tests, creators) in CREATORS:
        cs = calls_to(main, *creators)
        rep.ob("C07.b", site(main, "feature %s has its creator" % feat), bool(cs), "%s called from main" % (creators,))
        for i, c in enumerate(cs):
            lits = control_lits(main, c)
            tied = any(t and any(cc.get("fn") in tests for cc in T.calls(a)) for t, a in lits) or feat == "has_journal" and any(
                "journal" in T.pp(a) for t, a in lits)
            rep.ob("C07.b", site(main, "%s creator runs for that feature#%d" % (feat, i)), tied,
                   "guards: %s" % [("" if t else "!") + T.pp(a)[:40] for t, a in lits][-3:])
            if (c.ev["x"].get("fn") or "").startswith("ext2fs_"):
                bad = _failure_continues(main, prog, c)
                rep.ob("C07.b", site(main, "failure of %s ends the run#%d" % (c.ev["x"]["fn"], i)), not bad,
                       "after a non-zero result every path leaves through exit(): %s" % bad[:2])
    BASE = ("create_root_dir", "create_lost_and_found", "reserve_inodes", "create_bad_block_inode")
    tables = calls_to(main, "ext2fs_allocate_tables", "packed_allocate_tables")
    rep.floor("C07.b table allocation in main", len(tables), 1)
    for nm in BASE:
        cs = calls_to(main, nm)
        rep.ob("C07.b", site(main, "%s called" % nm), bool(cs), "present in main")
        for c in cs:
            sil = [(t, a) for (bid, t, a, lp) in silent_lits(main, prog, c)]
            extra = [(t, a) for (t, a) in sil if "super_only" not in T.vars_in(a) and "journal_dev" not in T.pp(a)
                     and not any(cc.get("fn") == "ext2fs_has_feature_journal_dev" for cc in T.calls(a))]
            rep.ob("C07.b", site(main, "%s runs on every full mkfs" % nm), not extra,
                   "silently skipped only for super-only / journal-device runs: extra %s" %
                   [("" if t else "!") + T.pp(a)[:40] for t, a in extra])
            rep.ob("C07.b", site(main, "%s after the tables exist" % nm), main.dominated_by(c, tables) or
                   all(any(tb in main.reach_back([c]) for tb in tables) for _ in (0,)),
                   "table allocation precedes %s" % nm)

    # ------------------------------------------------------------------ C07.c validation before writing
    prs = calls_to(main, "PRS")
    rep.floor("C07.c PRS call in main", len(prs), 1)
    may_write = prog.may(lambda f, n: effects.is_write_req(f, n) or effects.is_discard_ioctl(f, n),
                         skip_call=lambda f, n: effects.nondevice_call(f, n))
    if True:
        # (that PRS itself writes nothing under -n is C13.d's clause; PRS may open other devices
        # - an external journal - through the library, so a blanket 'reaches no write request' would
        # over-approximate)
        firstw = [n for n in main.call_nodes() if any(g.key in may_write for g in prog.callees(main, n.ev["x"], weak=False))]
        rep.ob("C07.c", site(main, "options are validated before anything is written"),
               bool(firstw) and all(main.dominated_by(n, prs) for n in firstw),
               "PRS dominates all %d write-capable calls of main" % len(firstw))

    # ------------------------------------------------------------------ C07.g a configuration is refused after the last thing that can change it
    # PRS() assembles the feature set from the profile, -O, -E and defaults, and refuses combinations that cannot be
    # built.  A refusal is only worth something if nothing later in PRS() switches one of the tested features on again:
    # for every test of ext2fs_has_feature_X() one of whose outcomes ends in exit(), no call that (itself or one level
    # down) performs ext2fs_set_feature_X() is reachable from the test.
    prsf = prog.fn("PRS", MK)
    import re as _re
    noret = prog.noreturn_nodes(prsf)

    def setters_of(f, feat, depth=1):
        out = []
        for c in f.call_nodes():
            nm = c.ev["x"].get("fn")
            if nm == "ext2fs_set_feature_" + feat:
                out.append(c)
            elif depth > 0 and nm:
                for g in prog.callees(f, c.ev["x"], weak=False):
                    if g.file == MK and any(x.ev["x"].get("fn") == "ext2fs_set_feature_" + feat for x in g.call_nodes()):
                        out.append(c)
                        break
        return out
    n_ref = 0
    for b in sorted(prsf.blocks):
        lit = prsf.literal(b)
        if not lit:
            continue
        feats = {cc.get("fn")[len("ext2fs_has_feature_"):] for cc in T.calls(lit[0]) if (cc.get("fn") or "").startswith("ext2fs_has_feature_")}
        if not feats:
            continue
        end_ = prsf.block_end(b)
        # a refusal: on the edge where the feature is present, exit() is reached without another branch deciding otherwise
        pres = [m for (m, si) in prsf.succ(end_) if (si == 0) == lit[1]]
        refuses = False
        for m in pres:
            seen, cur = 0, m
            while cur is not None and seen < 12:
                if cur in noret:
                    refuses = True
                    break
                nx = prsf.succ(cur)
                if len(nx) != 1:
                    # a further operand of the same condition (A && B): follow its "holds" edge once
                    l2 = prsf.literal(cur.bid) if cur is prsf.block_end(cur.bid) else None
                    if l2 and any((cc.get("fn") or "").startswith("ext2fs_has_feature_") for cc in T.calls(l2[0])):
                        feats |= {cc.get("fn")[len("ext2fs_has_feature_"):] for cc in T.calls(l2[0]) if (cc.get("fn") or "").startswith("ext2fs_has_feature_")}
                        cur = [x for (x, si) in nx if (si == 0) == l2[1]][0]
                        seen += 1
                        continue
                    break
                cur = nx[0][0]
                seen += 1
        if not refuses:
            continue
        n_ref += 1
        after = prsf.reach(prsf.after(end_))
        late = sorted({(ft, c.line) for ft in feats for c in setters_of(prsf, ft) if c in after})
        rep.ob("C07.g", site(prsf, "refusal at line %d is final" % end_.line), not late,
               "no call reachable from the refusing test of %s sets one of those features again: %s" % (sorted(feats), late))
    rep.floor("C07.g refusing feature tests in PRS", n_ref, 5)

    # ------------------------------------------------------------------ C07.h the orphan file is charged what was allocated for it
    # ext2fs_create_orphan_file() lets a block walk allocate the file's blocks - the data blocks and, on a file system
    # without extents, the indirect blocks the walk needs.  i_blocks is what the walk allocated: a counter advanced in the
    # callback next to the allocation and added with ext2fs_iblk_add_blocks(); a count derived from the file's length
    # leaves the mapping blocks out ("i_blocks is 256, should be 264" on the fresh file system).
    ORPH = "lib/ext2fs/orphan.c"
    cof = prog.fn("ext2fs_create_orphan_file", ORPH)
    # the accounting may sit in a file-local helper of the function: its parameters stand for the caller's arguments
    acct = [(cof, None)] + [(g, cn) for cn in cof.call_nodes() for g in prog.callees(cof, cn.ev["x"])
                            if g.file == ORPH and g.static and g is not cof]

    def caller_arg(g, cn, e):
        e0 = T.strip(e) if isinstance(e, dict) else None
        if cn is not None and isinstance(e0, dict) and e0.get("k") == "v" and e0.get("s") == "p" and e0["n"] in g.params:
            i = g.params.index(e0["n"])
            a = cn.ev["x"].get("a", [])
            return a[i] if i < len(a) else e
        return e
    adds = [(g, cn, c) for (g, cn) in acct for c in calls_to(g, "ext2fs_iblk_add_blocks")]
    sets_ = [(g, cn, c) for (g, cn) in acct for c in calls_to(g, "ext2fs_iblk_set")]
    rep.floor("C07.h i_blocks accounting calls in ext2fs_create_orphan_file", len(adds) + len(sets_), 1)
    for i, (g, cn, c) in enumerate(sets_):
        v = caller_arg(g, cn, arg(c, 2))
        rep.ob("C07.h", site(cof, "ext2fs_iblk_set() only resets the count#%d" % i), T.const(v) == 0,
               "third argument `%s` is 0 (the count itself is added from the allocation counter)" % T.pp(v)[:30])
    charged = False
    for (g_, cn_, c) in adds:
        v = caller_arg(g_, cn_, arg(c, 2))
        lf = T.last_field(T.strip(v) or {}) if isinstance(v, dict) else None
        if not lf:
            continue
        for g in prog.fns_in_file(ORPH):
            al = calls_to(g, "ext2fs_new_block2", "ext2fs_new_block3", "ext2fs_block_alloc_stats2")
            for n in g.events("S"):
                if T.last_field(n.ev["lhs"]) == lf and n.ev.get("o") in ("++", "+=") and al and g.dominated_by(n, al):
                    charged = True
    rep.ob("C07.h", site(cof, "i_blocks comes from a counter advanced where blocks are allocated"), charged,
           "ext2fs_iblk_add_blocks(…, counter) with the counter incremented behind the allocator in the block-walk callback")

    # ------------------------------------------------------------------ C07.d sources of non-determinism
    reach = _reachable(prog, main)
    n_time = 0
    for f in prog.functions():
        if f.key not in reach:
            continue
        for c in calls_to(f, "time", "gettimeofday", "clock_gettime"):
            n_time += 1
            if (f.file, f.name) in TIME_EXEMPT or (f.file, "*") in TIME_EXEMPT:
                rep.examined()
                continue
            lits = control_lits(f, c)
            ok = any((not t) and (T.last_field(a) or ("", ""))[1] == "now" for t, a in lits)
            rep.ob("C07.d", site(f, "wall clock yields to the configured time#%d" % _occ(f, c)), ok,
                   "`%s` runs only when fs->now is zero (E2FSPROGS_FAKE_TIME / SOURCE_DATE_EPOCH unset): guards %s" %
                   (c.text()[:30], [("" if t else "!") + T.pp(a)[:30] for t, a in lits][-3:]))
    rep.floor("C07.d wall-clock reads reachable from mke2fs main", n_time, 4)
    gt = [f for f in prog.functions() if f.name == "ext2fsP_get_time"]
    for f in gt[:1]:
        rets = [n for n in f.nodes() if n.ev and n.ev["e"] == "R" and "now" in T.field_names(n.ev.get("x") or {})]
        tc = calls_to(f, "time")
        ok = bool(rets) and all(any((not t) and "now" in T.field_names(a) for t, a in control_lits(f, c)) for c in tc)
        rep.ob("C07.d", site(f, "the time wrapper prefers fs->now"), ok,
               "returns fs->now when it is set; time(NULL) only otherwise")
    for c in calls_to(main, "uuid_generate", "uuid_generate_time", "uuid_generate_random"):
        lits = control_lits(main, c)
        ok = any("fs_uuid" in T.vars_in(a) or "s_hash_seed" in T.field_names(a) or any(cc.get("fn") in ("memcmp", "strcasecmp")
                 for cc in T.calls(a)) for t, a in lits)
        if not ok:
            # generate-then-overwrite is equivalent: the given value is copied over the same destination afterwards
            dest = T.path(arg(c, 0))
            after = main.reach(main.after(c))
            ok = any(n in after and T.path(arg(n, 0) if is_call(n, "memcpy") else arg(n, 1)) == dest
                     for n in calls_to(main, "memcpy", "uuid_parse"))
        rep.ob("C07.d", site(main, "identifier generated only when none was given#%d" % _occ(main, c)), ok,
               "guards: %s" % [("" if t else "!") + T.pp(a)[:40] for t, a in lits][-3:])


def _reachable(prog, fn):
    seen = {fn.key}
    st = [fn]
    while st:
        f = st.pop()
        for n in f.call_nodes():
            for g in prog.callees(f, n.ev["x"], weak=False):
                if g.key not in seen:
                    seen.add(g.key)
                    st.append(g)
    return seen


def _failure_continues(fn, prog, call):
    """paths on which, after a non-zero result of `call`, main goes on (does not leave through a noreturn call)
    and returns zero"""
    ex = absint.Explorer(fn, prog, source_call_id=call.ev["x"].get("id"))
    terms = ex.run([call])
    bad = []
    for (node, env, fl, st) in terms:
        if node.ev and node.ev["e"] == "R":
            v = ex.eval(node.ev.get("x"), env)
            if not absint._nz(v):
                bad.append(ex.trace(st)[-5:])
    return bad


def _occ(fn, node):
    nm = T.call_names(node.ev["x"])[0] if T.call_names(node.ev["x"]) else "?"
    same = sorted([n for n in fn.call_nodes() if nm in T.call_names(n.ev["x"])], key=lambda n: (n.line, n.bid, n.idx))
    return same.index(node)
