"""C13 — read-only invocations never modify the device.  GUARD / WHO rules on how the open mode
is derived in the library and in each tool, plus e2fsck's own bypasses.  DESIGN.md §4 C13."""
from vlib import tree as T
from vlib import effects, problems
from vlib.rulelib import *
from vlib.rulelib import _flag_family
from vlib.rulelib import _positive_macros
from vlib.engine import Broken, line_path, switch_cases

EXPLANATION = (
    "The kernel refuses writes on an O_RDONLY descriptor, so C13 reduces to how the open mode is derived. "
    "GUARD rules over clang CFGs: O_RDWR enters unix_open's open(2) flags only under IO_FLAG_RW; IO_FLAG_RW enters "
    "ext2fs_open2's io_flags only under EXT2_FLAG_RW; in each tool every store or argument that introduces "
    "EXT2_FLAG_RW / IO_FLAG_RW / O_RDWR into the value reaching the open call is control-dependent on the tool's "
    "read-only option (e2fsck -n, debugfs without -w, dumpe2fs, tune2fs -l, resize2fs -P, e2image, e2freefrag, "
    "e2undo -n, mke2fs -n); WHO rule over all raw open(2) calls with a write mode; e2fsck's journal code never "
    "dirties the journal superblock nor opens an external journal read-write unless not read-only or an accepted, "
    "prompting fix_problem(); ext2fs_close2 flushes only a dirty handle.")

# library entry points that write to, or dirty state to be written to, the device (C13.i)
WRITERS = ("ext2fs_write_inode", "ext2fs_write_inode_full", "ext2fs_write_inode2", "ext2fs_write_new_inode",
           "e2fsck_write_inode", "e2fsck_write_inode_full", "ext2fs_write_dir_block4", "ext2fs_write_dir_block3",
           "ext2fs_write_dir_block", "ext2fs_write_ext_attr3", "ext2fs_write_ext_attr2", "ext2fs_write_ext_attr",
           "ext2fs_zero_blocks2", "ext2fs_zero_blocks", "ext2fs_mark_bb_dirty", "ext2fs_mark_ib_dirty",
           "ext2fs_flush", "ext2fs_flush2", "ext2fs_write_bitmaps", "e2fsck_write_bitmaps", "ext2fs_write_ind_block",
           "ext2fs_mmp_write", "ext2fs_mmp_update", "ext2fs_mmp_update2", "ext2fs_mmp_start", "ext2fs_mmp_stop",
           "ext2fs_update_bb_inode", "ext2fs_xattrs_write", "ext2fs_extent_replace", "ext2fs_extent_insert",
           "ext2fs_extent_delete", "ext2fs_extent_set_bmap", "ext2fs_extent_fix_parents", "ext2fs_punch",
           "ext2fs_block_alloc_stats2", "ext2fs_inode_alloc_stats2", "ext2fs_block_alloc_stats_range",
           "ext2fs_file_write", "ext2fs_file_flush", "ext2fs_link", "ext2fs_unlink", "ext2fs_mkdir",
           "ext2fs_expand_dir", "ext2fs_new_dir_block", "ext2fs_inline_data_set", "ext2fs_create_resize_inode",
           "ext2fs_add_journal_inode", "ext2fs_create_orphan_file", "ext2fs_truncate_orphan_file",
           "quota_write_inode", "quota_remove_inode", "ext2fs_adjust_ea_refcount3", "ext2fs_adjust_ea_refcount2")

RW_MACROS = ("EXT2_FLAG_RW", "IO_FLAG_RW", "O_RDWR", "O_WRONLY")


def tree_guards(e, macro, acc=None, out=None):
    """conditions inside expression e under which `macro` (positive position) is selected:
    list of lists of (truth, cond) for each occurrence"""
    if acc is None:
        acc, out = [], []
    if not isinstance(e, dict):
        return out
    if e.get("k") == "u" and e.get("o") == "~":
        return out
    if e.get("k") == "?":
        tree_guards(e["c0"], macro, acc, out)
        tree_guards(e["t"], macro, acc + [(True, e["c0"])], out)
        tree_guards(e["f"], macro, acc + [(False, e["c0"])], out)
        return out
    if e.get("m") == macro or e.get("om") == macro:
        out.append(list(acc))
    if e.get("k") == "b" and e.get("o") == "&":
        # `fs->flags & EXT2_FLAG_RW` passed as a value: the macro is a mask here, the result has
        # the bit only if the masked value has it: treat as guarded by that very test
        bt = T.bits_test(e)
        if bt and macro in bt[2]:
            out.append(list(acc) + [(True, e)])
            return out
    for c in T.children(e):
        tree_guards(c, macro, acc, out)
    return out


def introductions(fn, macro):
    """[(node, [guard lists])] : stores and call arguments that put `macro` into a value"""
    res = []
    for n in fn.nodes():
        if not n.ev:
            continue
        if n.ev["e"] == "S":
            rhs = n.ev.get("rhs")
            if not isinstance(rhs, dict):
                continue
            if n.ev["o"] in ("&=",):
                continue
            g = tree_guards(rhs, macro)
            if g:
                res.append((n, g))
        elif n.ev["e"] == "C":
            gs = []
            for a in n.ev["x"].get("a", []):
                gs.extend(tree_guards(a, macro))
            if gs:
                res.append((n, gs))
    return res


def all_guards(fn, node, tg):
    """control literals of node + in-expression guards, with single-assignment locals resolved"""
    out = []
    for (t, a) in control_lits(fn, node):
        out.append((t, resolve_local(fn, a)))
    for (t, c) in tg:
        a, pos = T.norm_cond(c)
        out.append((t if pos else (not t), resolve_local(fn, a)))
    return out


def has_bit_guard(guards, macro, truth, field=None):
    for (t, a) in guards:
        if lit_tests_bit(a, macro, field) and t == truth:
            return True
        # ((x & K) == 0) normalised already by norm_cond
    return False


def has_var_guard(guards, name, truth):
    for (t, a) in guards:
        if T.path(a) == name and t == truth:
            return True
    return False


from vlib import taint


class _CallAt:
    """a call expression standing in for its node (problems.codes_at reads .ev["x"] only)"""
    def __init__(self, c):
        self.ev = {"e": "C", "x": c}


def run(world, rep, tier, only=None):
    lib = world.program("dumpe2fs")   # any program contains the library

    # ---------------------------------------------------------------- C13.a library
    uo = lib.fn("unix_open_channel", "lib/ext2fs/unix_io.c") if lib.has_fn("unix_open_channel") else None
    unix_open = lib.fn("unix_open", "lib/ext2fs/unix_io.c")
    intro = introductions(unix_open, "O_RDWR")
    rep.floor("C13.a O_RDWR introductions in unix_open", len(intro), 1)
    for (n, gl) in intro:
        for tg in gl:
            g = all_guards(unix_open, n, tg)
            rep.ob("C13.a", site(unix_open, "O_RDWR only under flags & IO_FLAG_RW"),
                   has_bit_guard(g, "IO_FLAG_RW", True),
                   "guards: %s" % [("" if t else "!") + T.pp(a) for t, a in g])
    opens = calls_to(unix_open, "ext2fs_open_file", "open", "open64")
    rep.floor("C13.a open call in unix_open", len(opens), 1)
    for n in opens:
        a1 = arg(n, 1)
        rep.ob("C13.a", site(unix_open, "open(2) receives the derived flags"),
               T.path(a1) == "open_flags" and not (set(RW_MACROS) & _positive_macros(a1)),
               "second argument of %s is %s" % (n.text()[:50], T.pp(a1)))
    # no other store adds a write mode to open_flags in unix_open
    o2 = lib.fn("ext2fs_open2")
    intro = [(o2, n, gl) for (n, gl) in introductions(o2, "IO_FLAG_RW")]
    if not intro:
        # the translation of the handle's flags into channel flags may live in a helper of its own
        mo_ = calls_to(o2, "struct_io_manager.open")
        fv = {T.path(arg(n, 1)) for n in mo_} - {None}
        for st in o2.events("S"):
            if T.path(st.ev["lhs"]) in fv:
                for cc in T.calls(st.ev.get("rhs") or {}):
                    for g_ in lib.lookup(cc.get("fn"), o2) if cc.get("fn") else []:
                        intro += [(g_, n, gl) for (n, gl) in introductions(g_, "IO_FLAG_RW")]
    rep.floor("C13.a IO_FLAG_RW introductions in ext2fs_open2", len(intro), 1)
    for (o2_, n, gl) in intro:
        for tg in gl:
            g = all_guards(o2_, n, tg)
            rep.ob("C13.a", site(o2_, "IO_FLAG_RW only under flags & EXT2_FLAG_RW"),
                   has_bit_guard(g, "EXT2_FLAG_RW", True),
                   "guards: %s" % [("" if t else "!") + T.pp(a) for t, a in g])
    mopen = calls_to(o2, "struct_io_manager.open")
    rep.floor("C13.a manager->open in ext2fs_open2", len(mopen), 1)
    for n in mopen:
        rep.ob("C13.a", site(o2, "manager->open receives io_flags"),
               T.path(arg(n, 1)) == "io_flags", "flags argument is %s" % T.pp(arg(n, 1)))

    # ---------------------------------------------------------------- C13.g flag constants stay in their own field
    # Whether a handle may write is one bit of fs->flags, whether e2fsck may is one bit of ctx->options, and so on.
    # A constant of another family stored into (or tested in) such a field sets whatever bit shares its value:
    # EXT2_FLAG2_USE_FAKE_TIME or-ed into fs->flags is EXT2_FLAG_RW.
    seen_g, fns_g = set(), []
    for pn in ("e2fsck", "debugfs", "tune2fs", "mke2fs", "resize2fs", "e2image", "e2undo", "dumpe2fs"):
        for f in world.program(pn, plain=True).functions():
            if f.key not in seen_g:
                seen_g.add(f.key)
                fns_g.append(f)
    n_use, bad_g = flag_family_mismatches(fns_g)
    rep.floor("C13.g uses of flag constants in flag fields", n_use, 800)
    for (f, line, m, lf) in bad_g:
        rep.ob("C13.g", site(f, "%s used in %s.%s@%d" % (m, lf[0], lf[1], line - f.raw.get("line", 0))), False,
               "line %d: %s belongs to %s, not to %s.%s" % (line, m, sorted(FLAG_FAMILIES[_flag_family(m)]), lf[0], lf[1]))
    if not bad_g:
        rep.ob("C13.g", "*:*:flag constants are used in the field of their own family", True,
               "%d uses of %d families examined, none in the home field of another family" % (n_use, len(FLAG_FAMILIES)))

    # ---------------------------------------------------------------- C13.b per tool
    # (program, file, function, macro, kind, parameter)
    #   kind 'bit'  : every introduction guarded by (X & M) == truth
    #   kind 'var'  : guarded by local/global variable truth
    #   kind 'case' : every introduction lies only under switch labels in `allowed` / not in `forbidden`
    #   kind 'none' : no introduction may exist
    TOOLS = [
        ("e2fsck", "e2fsck/unix.c", "main", "EXT2_FLAG_RW", "bit", ("E2F_OPT_READONLY", False, "options"), 1),
        ("debugfs", "debugfs/debugfs.c", "main", "EXT2_FLAG_RW", "case", ("only", ["'w'"]), 1),
        ("debugfs", "debugfs/debugfs.c", "do_open_filesys", "EXT2_FLAG_RW", "case", ("only", ["'w'"]), 1),
        ("dumpe2fs", "misc/dumpe2fs.c", "main", "EXT2_FLAG_RW", "none", None, 0),
        ("tune2fs", "misc/tune2fs.c", "parse_tune2fs_options", "EXT2_FLAG_RW", "case", ("not", ["'l'"]), 20),
        ("resize2fs", "resize/main.c", "main", "EXT2_FLAG_RW", "var", ("print_min_size", False), 1),
        ("e2image", "misc/e2image.c", "main", "EXT2_FLAG_RW", "none", None, 0),
        ("e2freefrag", "misc/e2freefrag.c", "open_device", "EXT2_FLAG_RW", "none", None, 0),
        ("e2freefrag", "misc/e2freefrag.c", "main", "EXT2_FLAG_RW", "none", None, 0),
        ("e2undo", "misc/e2undo.c", "main", "IO_FLAG_RW", "var", ("dry_run", False), 1),
        ("e2undo", "misc/e2undo.c", "main", "EXT2_FLAG_RW", "var", ("dry_run", False), 1),
    ]
    for (pn, file, fname, macro, kind, par, floor) in TOOLS:
        prog = world.program(pn)
        fn = prog.fn(fname, file)
        intro = introductions(fn, macro)
        if kind == "none":
            rep.ob("C13.b", site(fn, "no %s" % macro), not intro,
                   "%s never introduces %s: %s" % (pn, macro, [n.where() for n, _ in intro]))
            continue
        rep.floor("C13.b %s introductions in %s:%s" % (macro, file, fname), len(intro), floor)
        for i, (n, gl) in enumerate(intro):
            for tg in gl:
                g = all_guards(fn, n, tg)
                if kind == "bit":
                    ok = has_bit_guard(g, par[0], par[1], par[2])
                    what = "(%s & %s) %s" % (par[2], par[0], "set" if par[1] else "clear")
                elif kind == "var":
                    ok = has_var_guard(g, par[0], par[1])
                    what = ("" if par[1] else "!") + par[0]
                else:
                    sc = [x for x in switch_cases(fn, n) if T.path(x["expr"]) == "c"]
                    labs = set()
                    for s in sc:
                        for l in s["labels"]:
                            labs.add(l if isinstance(l, str) else l.get("t"))
                    if par[0] == "only":
                        ok = bool(labs) and labs <= set(par[1])
                    else:
                        ok = bool(labs) and not (labs & set(par[1])) and "default" not in labs and "implicit" not in labs
                    what = "switch labels %s %s (found %s)" % (par[0], par[1], sorted(labs))
                    g = []
                rep.ob("C13.b", site(fn, "%s guarded[%d]" % (macro, i)), ok,
                       "%s introduced at `%s` requires %s; guards %s" %
                       (macro, n.text()[:60], what, [("" if t else "!") + T.pp(a)[:50] for t, a in g]))
    # resize2fs raw fd: O_RDWR default, downgraded under print_min_size
    rs = world.program("resize2fs")
    rmain = rs.fn("main", "resize/main.c")
    ropen = [n for n in calls_to(rmain, "ext2fs_open_file", "open", "open64")]
    rep.floor("C13.b resize2fs raw open", len(ropen), 1)
    for n in ropen:
        fl = arg(n, 1)
        p = T.path(fl)
        # every path from a store putting O_RDWR in that variable to the open passes, when
        # print_min_size is set, a store that replaces it by O_RDONLY
        ok = False
        if p:
            ro_stores = [s for s in rmain.events("S") if T.path(s.ev["lhs"]) == p and s.ev["o"] == "="
                         and "O_RDONLY" in T.macros(s.ev.get("rhs") or {}) and
                         "O_RDWR" not in T.macros(s.ev.get("rhs") or {})]
            if ro_stores:
                # with the !print_min_size edges forbidden, open is unreachable from entry avoiding ro_stores
                def edge_ok(nn, si, m):
                    lit = rmain.literal(nn.bid)
                    if lit and T.path(lit[0]) == "print_min_size":
                        truth = lit[1] if si == 0 else (not lit[1])
                        return truth
                    return True
                # start after the last store to print_min_size (option parsing loop)
                pm = [s for s in rmain.events("S") if T.path(s.ev["lhs"]) == "print_min_size"]
                r = rmain.reach([rmain.entry_node()], avoid=set(ro_stores), edge_ok=edge_ok)
                # paths that never test print_min_size before the open would also be caught here
                ok = n not in r
        rep.ob("C13.b", site(rmain, "raw open mode downgraded under -P"), ok,
               "with print_min_size set, every path to open(%s) replaces O_RDWR by O_RDONLY" % T.pp(fl))
    # K4: e2fsck never clears E2F_OPT_READONLY; PRS sets it under E2F_OPT_NO on every path to its return
    ef = world.program("e2fsck")
    clears = []
    for fn in ef.functions():
        for n in stores(fn, "e2fsck_struct", "options"):
            if store_clears_bits(n, "E2F_OPT_READONLY") or store_clears_bits(n, "E2F_OPT_NO"):
                clears.append(n)
            elif n.ev["o"] == "=" and "E2F_OPT_READONLY" not in T.macros(n.ev.get("rhs") or {}) \
                    and fn.name not in ("e2fsck_allocate_context", "e2fsck_reset_context"):
                # plain overwrite of options: must not drop the bit
                if T.path(n.ev.get("rhs")) is None or "options" not in (T.path(n.ev.get("rhs")) or ""):
                    clears.append(n)
    rep.ob("C13.b", "e2fsck:*:E2F_OPT_READONLY never cleared", not clears,
           "no store clears E2F_OPT_READONLY/E2F_OPT_NO: %s" % [n.where() for n in clears])
    prs = ef.fn("PRS", "e2fsck/unix.c")
    setn = [n for n in stores(prs, "e2fsck_struct", "options") if store_sets_bits(n, "E2F_OPT_NO")]
    setro = [n for n in stores(prs, "e2fsck_struct", "options") if store_sets_bits(n, "E2F_OPT_READONLY")]
    rep.floor("C13.b PRS E2F_OPT_NO store", len(setn), 1)
    # from every store of E2F_OPT_NO, each path to PRS's return passes the literal (options & E2F_OPT_NO)
    # whose true edge stores READONLY: check that no path to exit avoids the READONLY store while
    # taking only the NO-true edge
    def no_true(nn, si, m):
        lit = prs.literal(nn.bid)
        if lit and lit_tests_bit(lit[0], "E2F_OPT_NO", "options") and "E2F_OPT_READONLY" not in T.macros(lit[0]):
            bt = T.bits_test(lit[0])
            if bt and bt[2] == {"E2F_OPT_NO"}:
                truth = lit[1] if si == 0 else (not lit[1])
                return truth
        if lit and T.path(lit[0]) == "show_version_only":
            # version-only runs leave main before any open (checked just below)
            truth = lit[1] if si == 0 else (not lit[1])
            return not truth
        return True
    emain = ef.fn("main", "e2fsck/unix.c")
    def ver_only(nn, si, m):
        lit = emain.literal(nn.bid)
        if lit and T.path(lit[0]) == "show_version_only":
            truth = lit[1] if si == 0 else (not lit[1])
            return truth
        return True
    opens_m = calls_to(emain, "ext2fs_open2", "try_open_fs", "ext2fs_open")
    rep.floor("C13.b e2fsck main open call", len(opens_m), 1)
    r = emain.reach([emain.entry_node()], avoid=ef.noreturn_nodes(emain), edge_ok=ver_only)
    rep.ob("C13.b", site(emain, "version-only run exits before open"), not any(o in r for o in opens_m),
           "with show_version_only set, no open call is reachable in main")
    for n in setn:
        r = prs.reach(prs.after(n), avoid=set(setro) | ef.noreturn_nodes(prs), edge_ok=no_true)
        rep.ob("C13.b", site(prs, "-n implies E2F_OPT_READONLY"), prs.exit_node() not in r,
               "every path from `options |= E2F_OPT_NO` to PRS's return, with (options & E2F_OPT_NO) true, sets E2F_OPT_READONLY")

    # K4: raw open(2)-family calls with a write mode, program-wide: listed non-device paths
    RAW_OK = {
        ("lib/ext2fs/unix_io.c", "unix_open"): "the derived mode (C13.a)",
        ("lib/ext2fs/unix_io.c", "unixfd_open"): "caller-supplied fd; mode read back with fcntl",
        ("e2fsck/unix.c", "main"): "/dev/null for stdio sanity",
        ("e2fsck/unix.c", "reserve_stdio_fds"): "/dev/null",
        ("e2fsck/logfile.c", "save_output"): "log file",
        ("e2fsck/logfile.c", "set_up_logging"): "log file",
        ("e2fsck/logfile.c", "e2fsck_save_logfile"): "log file",
        ("resize/main.c", "main"): "raw fd for size probing; downgraded to O_RDONLY under -P (checked above)",
        ("misc/e2image.c", "main"): "image *output* file",
        ("misc/e2image.c", "install_image"): "-I explicitly installs an image onto the device",
        ("misc/mke2fs.c", "PRS"): "creates the regular file to be formatted (not under -n: checked in C13.d)",
        ("misc/mke2fs.c", "should_do_undo"): "read-only probe",
        ("lib/ext2fs/undo_io.c", "undo_open"): "the undo file",
        ("lib/ext2fs/undo_io.c", "try_reopen_undo_file"): "the undo file",
        ("lib/ext2fs/test_io.c", "test_open"): "debug trace file",
        ("lib/ext2fs/mmp.c", "ext2fs_mmp_read"): "O_RDWR|O_DIRECT second fd for MMP; only after the fs was opened RW (guard checked below)",
        ("lib/ext2fs/qcow2.c", "qcow2_write_raw_image"): "output image",
        ("lib/ext2fs/tdb.c", "ext2fs_tdb_open_ex"): "tdb database file (icount scratch)",
        ("misc/create_inode.c", "copy_file"): "source file, read-only",
        ("lib/ext2fs/ismounted.c", "check_mntent_file"): "probe whether / is writable (test file)",
        ("lib/ext2fs/ismounted.c", "is_swap_device"): "read-only",
        ("lib/ext2fs/ismounted.c", "ext2fs_check_mount_point"): "busy-probe with O_EXCL, read-only",
        ("lib/support/plausible.c", "check_plausibility"): "read-only probe",
        ("lib/ext2fs/getsize.c", "ext2fs_get_device_size2"): "read-only",
        ("lib/ext2fs/getsectsize.c", "ext2fs_get_dio_alignment"): "read-only",
        ("debugfs/dump.c", "do_dump"): "output file on the host",
        ("debugfs/dump.c", "rdump_inode"): "output file on the host",
        ("debugfs/logdump.c", "do_logdump"): "output file",
        ("lib/ext2fs/mkjournal.c", "write_journal_file"): "journal *file* on a mounted fs (tune2fs -j / mke2fs -J), not a read-only invocation",
        ("lib/ext2fs/mkjournal.c", "ext2fs_add_journal_inode3"): "creates the .journal file on a mounted fs (tune2fs -j)",
        ("lib/ext2fs/tdb.c", "ext2fs_tdb_reopen"): "tdb database file (icount scratch)",
    }
    n_raw = 0
    for pn in ("e2fsck", "debugfs", "resize2fs", "tune2fs", "mke2fs", "dumpe2fs", "e2image", "e2undo", "e2freefrag"):
        prog = world.program(pn)
        for fn in prog.functions():
            if fn.file.startswith("lib/") and pn != "e2fsck":
                continue   # library examined once
            if fn.name == "ext2fs_open_file":
                continue   # the open(2) wrapper itself: its callers are the sites
            for n in calls_to(fn, "open", "open64", "ext2fs_open_file", "creat"):
                a1 = arg(n, 1)
                ms = _positive_macros(a1) if a1 else set()
                writeish = bool(ms & {"O_RDWR", "O_WRONLY", "O_CREAT", "O_TRUNC", "O_APPEND"}) or \
                    (a1 is not None and T.const(a1) is None) or is_call(n, "creat")
                if not writeish:
                    rep.examined()
                    continue
                n_raw += 1
                key = (fn.file, fn.name)
                rep.ob("C13.a", site(fn, "raw open with write mode"), key in RAW_OK,
                       "open(%s, %s): %s" % (T.pp(arg(n, 0))[:30], T.pp(a1)[:40], RAW_OK.get(key, "NOT LISTED")))
    rep.floor("C13.a raw write-mode open calls", n_raw, 8)
    # the MMP O_RDWR descriptor
    mm = lib.fn("ext2fs_mmp_read")
    for n in calls_to(mm, "ext2fs_open_file", "open", "open64"):
        a1 = arg(n, 1)
        if "O_RDWR" in T.macros(a1 or {}):
            # reached only from callers that checked EXT2_FLAG_RW: mmp_read is called by mmp_start/
            # mmp_update/... under RW, and by dumpe2fs/e2fsck for display only with mmp_fd unused.
            # structural part: the descriptor is never written in ext2fs_mmp_read itself
            w = [x for x in mm.call_nodes() if effects.is_raw_write(mm, x)]
            rep.ob("C13.a", site(mm, "MMP fd opened O_RDWR is only read here"), not w,
                   "no raw write in ext2fs_mmp_read")
    # the O_RDWR MMP descriptor is never the target of a raw write anywhere in the library
    bad = []
    for fn in lib.functions():
        if not fn.file.startswith("lib/ext2fs/"):
            continue
        for x in fn.call_nodes():
            if effects.is_raw_write(fn, x) and any("mmp_fd" in (T.path(a) or "") for a in x.ev["x"].get("a", [])):
                bad.append(x)
    rep.ob("C13.a", "lib/ext2fs:*:mmp_fd never written", not bad, "no write(2)-family call on fs->mmp_fd: %s" % [b.where() for b in bad])

    # ---------------------------------------------------------------- C13.k the MMP block is written only through a handle opened for writing
    # ext2fs_mmp_write() itself has no test of EXT2_FLAG_RW, and the status queries (dumpe2fs -m, e2mmpstatus) call
    # ext2fs_mmp_start() on a read-only handle: every call of the writer in mmp.c lies behind a test of EXT2_FLAG_RW -
    # in the function, or in each of its callers in the file.
    MMPF = "lib/ext2fs/mmp.c"
    MMP_CREATE = {"ext2fs_mmp_init": "creates the MMP block: called by mke2fs and tune2fs -O mmp on the handle they format or tune"}

    def rw_tested(fn_, node_, depth=0):
        g_ = [(t, resolve_local(fn_, a)) for t, a in control_lits(fn_, node_)]
        if has_bit_guard(g_, "EXT2_FLAG_RW", True, "flags"):
            return True, "behind fs->flags & EXT2_FLAG_RW in %s" % fn_.name
        if fn_.name in MMP_CREATE:
            return True, MMP_CREATE[fn_.name]
        cs_ = [(cf, cn) for (cf, cn) in lib.callers().get(fn_.key, []) if cf.file == MMPF]
        if depth >= 2 or not cs_:
            return False, "no test of EXT2_FLAG_RW on the way in %s" % fn_.name
        rs_ = [rw_tested(cf, cn, depth + 1) for (cf, cn) in cs_]
        bad_ = [w_ for (ok_, w_) in rs_ if not ok_]
        return (not bad_), (bad_[0] if bad_ else "; ".join(w_ for (_o, w_) in rs_)[:200])
    n_mw = 0
    for fn_ in lib.fns_in_file(MMPF):
        for i_, c_ in enumerate(calls_to(fn_, "ext2fs_mmp_write")):
            n_mw += 1
            ok_, why_ = rw_tested(fn_, c_)
            rep.ob("C13.k", site(fn_, "ext2fs_mmp_write#%d" % i_), ok_, "MMP block written at %s: %s" % (c_.where(), why_))
    rep.floor("C13.k calls of ext2fs_mmp_write in mmp.c", n_mw, 4)

    # ---------------------------------------------------------------- C13.f stacked I/O managers keep the caller's mode
    # undo_io and test_io sit between ext2fs_open2 and the unix manager: whatever mode ext2fs_open2 derived must reach
    # the backing manager's open of the *device* unchanged; IO_FLAG_RW may be spelled out only for a private file.
    ef_ = world.program("e2fsck")
    wrappers = [f for f in ef_.functions() if f.name in ef_.slot_names("struct_io_manager", "open")
                and calls_to(f, "struct_io_manager.open")]
    rep.floor("C13.f stacked managers' open functions", len(wrappers), 2)
    for wf in wrappers:
        params = [p_["n"] for p_ in wf.raw.get("params", [])]
        name_p, flags_p = (params + [None, None])[:2]
        for (n, gl) in introductions(wf, "IO_FLAG_RW"):
            if n.ev["e"] == "C" and is_call(n, "struct_io_manager.open"):
                private = name_p not in T.vars_in(arg(n, 0)) and not depends_on(wf, arg(n, 0), lambda y: T.path(y) == name_p, depth=1)
                rep.ob("C13.f", site(wf, "IO_FLAG_RW spelled out only for a private file"), private,
                       "backing open(%s, %s)" % (T.pp(arg(n, 0))[:30], T.pp(arg(n, 1))[:30]))
            elif n.ev["e"] == "S" and isinstance(T.strip(n.ev.get("rhs")), dict) and T.strip(n.ev["rhs"]).get("k") == "c":
                continue    # the result of a call stored: the call's arguments are judged at the call event
            else:
                rep.ob("C13.f", site(wf, "no IO_FLAG_RW added to the caller's flags"), False,
                       "`%s` (line %d) puts IO_FLAG_RW into a value of the open function" % (n.text()[:50], n.line))
        devopens = [n for n in calls_to(wf, "struct_io_manager.open") if name_p in T.vars_in(arg(n, 0))]
        rep.floor("C13.f backing open of the device in %s" % wf.name, len(devopens), 1)
        for n in devopens:
            rep.ob("C13.f", site(wf, "device opened with the caller's flags"), T.path(arg(n, 1)) == flags_p,
                   "backing open(%s, %s)" % (T.pp(arg(n, 0))[:30], T.pp(arg(n, 1))[:30]))

    # ---------------------------------------------------------------- C13.c e2fsck bypasses
    rows, _ = problems.load(world)
    bycode = problems.by_code(rows)
    run_j = ef.fn("e2fsck_run_ext3_journal")

    def ro_only(nn, si, m, _f=run_j):
        lit = _f.literal(nn.bid)
        if lit and lit_tests_bit(lit[0], "E2F_OPT_READONLY", "options"):
            truth = lit[1] if si == 0 else (not lit[1])
            return truth
        return True
    may_w = ef.may(lambda f, n: effects.is_write_req(f, n) or effects.is_dirty_mark(f, n))
    r = run_j.reach([run_j.entry_node()], edge_ok=ro_only)
    bad = [n for n in r if n.ev and n.ev["e"] == "C" and
           (effects.is_write_req(run_j, n) or effects.is_dirty_mark(run_j, n) or
            any(g.key in may_w for g in ef.callees(run_j, n.ev["x"])))]
    lits = [b for b in run_j.blocks if run_j.literal(b) and lit_tests_bit(run_j.literal(b)[0], "E2F_OPT_READONLY", "options")]
    rep.ob("C13.c", site(run_j, "no effect when read-only"), bool(lits) and not bad,
           "with E2F_OPT_READONLY set, e2fsck_run_ext3_journal reaches no write request / dirty mark: %s" %
           [b.where() + " " + b.text()[:40] for b in bad[:3]])

    # journal superblock buffer dirtied / external journal opened RW only when safe
    jfile = "e2fsck/journal.c"

    def ro_safe(fn, node, depth=0, seen=None):
        """(ok, reason)"""
        g = [(t, resolve_local(fn, a)) for t, a in control_lits(fn, node)]
        if has_bit_guard(g, "E2F_OPT_READONLY", False, "options"):
            return True, "under !(options & E2F_OPT_READONLY)"
        for (t, a) in g:
            if not t:
                continue
            for c in T.calls(a):
                if c.get("fn") == "fix_problem":
                    # the call node of that fix_problem in fn
                    codes, res = problems.codes_at(fn, _CallAt(c), ef)
                    if res and codes and all(v in bycode and (bycode[v].prompt != 0 or
                                                              "PR_NOCOLLATE" not in bycode[v].flag_names)
                                             for v, _ in codes):
                        return True, "gated by accepted fix_problem(%s) (prompting rows: answer is 0 under -n)" % \
                            ",".join(sorted(nm for _, nm in codes))
        # early-exit form: a dominating `if (!fix_problem(...)) return;`
        for (t, a) in g:
            pass
        if depth >= 3:
            return False, "not guarded (depth)"
        callers = ef.callers().get(fn.key, [])
        callers = [(cf, cn) for (cf, cn) in callers]
        if not callers:
            return False, "not guarded and no callers"
        seen = seen or set()
        if fn.key in seen:
            return False, "recursion"
        seen = seen | {fn.key}
        rs = []
        for (cf, cn) in callers:
            ok, why = ro_safe(cf, cn, depth + 1, seen)
            if not ok:
                return False, "caller %s:%d not guarded (%s)" % (cf.name, cn.line, why)
            rs.append("%s: %s" % (cf.name, why))
        return True, "all callers guarded: " + "; ".join(rs)[:300]

    n_sites = 0
    for fn in ef.fns_in_file(jfile):
        for n in calls_to(fn, "mark_buffer_dirty"):
            if not arg_path_endswith(n, 0, "j_sb_buffer"):
                rep.examined()
                continue
            n_sites += 1
            ok, why = ro_safe(fn, n)
            idx = [x for x in calls_to(fn, "mark_buffer_dirty") if arg_path_endswith(x, 0, "j_sb_buffer")].index(n)
            rep.ob("C13.c", site(fn, "mark_buffer_dirty(j_sb_buffer)[%d]" % idx), ok,
                   "journal superblock buffer dirtied at %s: %s" % (n.where(), why))
    rep.floor("C13.c journal sb dirty sites", n_sites, 5)
    # ---------------------------------------------------------------- C13.h the superblock is marked dirty only with consent
    # ext2fs_close2() flushes whatever was marked dirty - it does not look at EXT2_FLAG_RW - so under -n every
    # ext2fs_mark_super_dirty() in e2fsck is a write request that only the O_RDONLY descriptor turns away.  Each call
    # is reached only past a consent that -n cannot give: !(options & READONLY), !(options & NO) (READONLY is set only
    # from NO), options & PREEN (exclusive with -n in PRS), an accepted fix_problem() (0 under -n unless the row is
    # PROMPT_NONE|PR_NOCOLLATE), a field or return value that is itself set only past such a consent; or all callers are.
    prs_ = ef.fn("PRS", "e2fsck/unix.c")
    ro_intro = [(s_, gl) for (s_, gl) in introductions(prs_, "E2F_OPT_READONLY") if s_.ev["e"] == "S"]
    rep.floor("C13.h E2F_OPT_READONLY introductions in PRS", len(ro_intro), 1)
    for k_, (s_, gl) in enumerate(ro_intro):
        ok = all(has_bit_guard(all_guards(prs_, s_, tg), "E2F_OPT_NO", True, "options") for tg in gl)
        rep.ob("C13.h", site(prs_, "E2F_OPT_READONLY set only under E2F_OPT_NO#%d" % k_), ok,
               "so !(options & E2F_OPT_NO) implies a read-write run: %s" % s_.text()[:50])
    for (mac, other) in (("E2F_OPT_NO", "E2F_OPT_PREEN"), ("E2F_OPT_PREEN", "E2F_OPT_NO")):
        intro = [(s_, gl) for (s_, gl) in introductions(prs_, mac) if s_.ev["e"] == "S"]
        rep.floor("C13.h %s introductions in PRS" % mac, len(intro), 1)
        for k_, (s_, gl) in enumerate(intro):
            ok = all(has_bit_guard(all_guards(prs_, s_, tg), other, False, "options") for tg in gl)
            rep.ob("C13.h", site(prs_, "%s excludes %s#%d" % (mac, other, k_)), ok,
                   "%s is set only when %s is not: %s" % (mac, other, s_.text()[:50]))

    # option bits PRS never leaves set together with E2F_OPT_NO: taken back when -n is given, or the combination is fatal
    def setters_of(mac):
        out = []
        for g_ in ef.functions():
            if g_.file.startswith("e2fsck/"):
                out += [(g_, s_) for (s_, gl) in introductions(g_, mac) if s_.ev["e"] == "S" and
                        (T.last_field(s_.ev["lhs"]) or ("", ""))[1] == "options"]
        return out
    excluded = ["E2F_OPT_PREEN"]
    for mac in ("E2F_OPT_DISCARD", "E2F_OPT_COMPRESS_DIRS"):
        sets = setters_of(mac)
        rep.floor("C13.h stores that set %s" % mac, len(sets), 1)
        # where PRS resolves the combination: a store clearing the bit, or a fatal_error(), under NO (and the bit)
        res_nodes = []
        for n in prs_.nodes():
            if not n.ev:
                continue
            g = [(t, resolve_local(prs_, a)) for t, a in control_lits(prs_, n)]
            if not has_bit_guard(g, "E2F_OPT_NO", True, "options"):
                continue
            if n.ev["e"] == "S" and n.ev.get("o") == "&=" and mac in T.macros(n.ev.get("rhs") or {}) and \
                    (T.last_field(n.ev["lhs"]) or ("", ""))[1] == "options":
                res_nodes.append(n)
            elif is_call(n, "fatal_error") and has_bit_guard(g, mac, True, "options"):
                res_nodes.append(n)
        ok = bool(res_nodes)
        late = []
        if ok:
            # the test of E2F_OPT_NO that leads there comes after every place the bit can be set
            tests = [prs_.block_end(b) for b in prs_.blocks if prs_.literal(b) and
                     lit_tests_bit(resolve_local(prs_, prs_.literal(b)[0]), "E2F_OPT_NO", "options") and
                     any(r_ in prs_.reach([prs_.block_end(b)]) for r_ in res_nodes)]
            first = tests[:1]
            after = prs_.reach(first) if first else set()
            for (g_, s_) in sets:
                if g_ is prs_:
                    if s_ in after:
                        late.append(s_.where())
                else:
                    cs_ = ef.callers().get(g_.key, [])
                    if not cs_ or any(cf is not prs_ or cn in after for (cf, cn) in cs_):
                        late.append(s_.where())
            ok = bool(first) and not late
        rep.ob("C13.h", site(prs_, "%s does not survive -n" % mac), ok,
               "PRS clears the bit or stops when E2F_OPT_NO is set, after every store that sets it: resolved at %s; set later at %s" %
               ([r_.where() for r_ in res_nodes][:2], late))
        if ok:
            excluded.append(mac)
    from rules import c13_consent
    from rules.c13_consent import Consent
    cons = Consent(world, ef, bycode, excluded)
    h_sites, i_sites, w_sites = [], [], []
    for fn in ef.functions():
        if not fn.file.startswith("e2fsck/"):
            continue
        for i, n in enumerate(calls_to(fn, "ext2fs_mark_super_dirty")):
            h_sites.append((fn, i, n))
            cons.site(fn, n)
        for n in fn.call_nodes():
            if effects.is_write_req(fn, n):
                i_sites.append((fn, n))
                cons.site(fn, n)
            elif is_call(n, *WRITERS):
                w_sites.append((fn, n))
                cons.site(fn, n)
    cons.solve()
    for (fn, i, n) in h_sites:
        ok, why = cons.explain(cons.site_key(fn, n))
        rep.ob("C13.h", site(fn, "ext2fs_mark_super_dirty[%d]" % i), ok,
               "superblock marked dirty at %s: %s" % (n.where(), why))
    rep.floor("C13.h superblock dirty marks in e2fsck", len(h_sites), 50)
    # C13.i the same for every write request e2fsck itself sends to the channel
    I_EXEMPT = {
        ("e2fsck/ehandler.c", "e2fsck_handle_write_error"):
            "the channel's write-error handler: runs only on behalf of a write request that was already sent and failed",
    }
    seen_i = {}
    for (fn, n) in i_sites:
        ok, why = cons.explain(cons.site_key(fn, n))
        k_ = seen_i.setdefault((fn.key, T.call_names(n.ev["x"])[0]), [0])
        k_[0] += 1
        ex = I_EXEMPT.get((fn.file, fn.name))
        rep.ob("C13.i", site(fn, "%s#%d" % (T.call_names(n.ev["x"])[0], k_[0] - 1)), ok or bool(ex),
               "write request at %s: %s" % (n.where(), why if ok else (ex or why)))
    rep.floor("C13.i write requests sent by e2fsck's own code", len(i_sites), 10)
    # C13.j the library's writers called from e2fsck.  Where the consent is visible in the control flow the call is
    # decided like the others; the calls listed here are gated through values the analysis does not follow (each read):
    import os as _os
    W_VALUE_GATED = {
        ("e2fsck/pass1.c", "e2fsck_clear_inode", "e2fsck_write_inode"):
            "called behind accepted fix_problem()s, or from e2fsck_pass1's clear_inode label, jumped to behind PR_1_ROOT_NO_DIR "
            "or add_encrypted_file() < 0 (-1 only behind PR_1_CORRUPT_ENCRYPTION_XATTR or a fatal problem)",
        ("e2fsck/pass1.c", "e2fsck_get_alloc_block", "ext2fs_mark_bb_dirty"):
            "the allocation hook: runs on behalf of a library allocation, itself one of the writer calls decided here",
        ("e2fsck/pass2.c", "check_dir_block", "ext2fs_write_dir_block4"):
            "behind dir_modified, advanced on fix_problem() answers handed back by check_dot/check_dotdot/check_name/"
            "encoded_check_name/check_encrypted_dirent",
        ("e2fsck/pass2.c", "check_dir_block", "ext2fs_inline_data_set"): "same test of dir_modified",
        ("e2fsck/pass2.c", "clear_htree", "e2fsck_write_inode"):
            "parse_int_node's clear_and_exit: behind fix_problem() or e2fsck_dir_will_be_rehashed(), true only for "
            "-D or a directory on dirs_to_hash, which takes members only past a consent (decided below)",
        ("e2fsck/pass4.c", "e2fsck_pass4", "e2fsck_write_inode_full"):
            "behind fix_nlink, which holds a fix_problem() answer",
        ("e2fsck/pass5.c", "check_block_bitmaps", "ext2fs_mark_bb_dirty"):
            "behind fixit == 1, the answer of end_problem_latch()'s fix_problem()",
        ("e2fsck/pass5.c", "check_inode_bitmaps", "ext2fs_mark_ib_dirty"): "same, for the inode bitmap",
        ("e2fsck/badblocks.c", "read_bad_blocks_file", "ext2fs_update_bb_inode"):
            "runs for -c/-l/-L only, each of which PRS refuses together with -n",
        ("e2fsck/util.c", "e2fsck_write_inode_full", "ext2fs_write_inode_full"): "wrapper: its callers are the sites decided here",
        ("e2fsck/util.c", "e2fsck_write_inode", "ext2fs_write_inode"): "wrapper: its callers are the sites decided here",
        ("e2fsck/util.c", "e2fsck_mmp_update", "ext2fs_mmp_update"):
            "the library returns at once without EXT2_FLAG_RW or with EXT2_FLAG_SKIP_MMP, which -n sets",
        ("e2fsck/util.c", "fatal_error", "ext2fs_mmp_stop"):
            "the library returns at once without EXT2_FLAG_RW or with EXT2_FLAG_SKIP_MMP, which -n sets",
        ("e2fsck/extents.c", "load_extents", "ext2fs_block_alloc_stats2"):
            "pass 1E walks inodes_to_rebuild, which e2fsck_rebuild_extents_later() fills only without E2F_OPT_NO",
        ("e2fsck/extents.c", "find_blocks", "ext2fs_block_alloc_stats2"): "same walk of inodes_to_rebuild",
        ("e2fsck/extents.c", "rewrite_extent_replay", "e2fsck_write_inode"): "same walk of inodes_to_rebuild",
        ("e2fsck/extents.c", "rewrite_extent_replay", "ext2fs_extent_fix_parents"): "same walk of inodes_to_rebuild",
        ("e2fsck/extents.c", "rewrite_extent_replay", "ext2fs_extent_insert"): "same walk of inodes_to_rebuild",
    }
    seen_w = {}
    n_w_ok = 0
    used_gated = set()
    for (fn, n) in w_sites:
        ok, why = cons.explain(cons.site_key(fn, n))
        callee = T.call_names(n.ev["x"])[0]
        k_ = seen_w.setdefault((fn.key, callee), [0])
        k_[0] += 1
        ex = None if ok else W_VALUE_GATED.get((fn.file, fn.name, callee))
        n_w_ok += ok
        if _os.environ.get("C13_DEBUG") == "why" and ok:
            print("WHY", fn.name, n.line, callee, "::", why[:160])
        if ex:
            used_gated.add((fn.file, fn.name, callee))
        rep.ob("C13.j", site(fn, "%s#%d" % (callee, k_[0] - 1)), ok or bool(ex),
               "library writer called at %s: %s" % (n.where(), why if ok else (("gated through a value: " + ex) if ex else why)))
    rep.floor("C13.j library writer calls in e2fsck", len(w_sites), 100)
    rep.floor("C13.j of them past a consent in the control flow", n_w_ok, 100)
    # the two containers the value-gated entries lean on take members only past a consent
    for (fld_, why_) in (("dirs_to_hash", "clear_htree adds the directory whose index it has just cleared"),
                         ("inodes_to_rebuild", None)):
        adds = [(g_, cn, nm) for (g_, cn, nm, ba) in cons._calls_on(("e2fsck_struct", fld_))
                if nm in c13_consent.ADDERS or (ba and nm not in c13_consent.RELEASERS)]
        rep.floor("C13.j calls that fill ctx->%s" % fld_, len(adds), 2)
        for k_, (g_, cn, nm) in enumerate(adds):
            ok, why = cons.site(g_, cn)
            if not ok:
                cons.solve()
                ok, why = cons.explain(cons.site_key(g_, cn))
            ex = (not ok) and why_ and g_.name == "clear_htree"
            rep.ob("C13.j", site(g_, "%s(ctx->%s)#%d" % (nm, fld_, k_)), ok or bool(ex),
                   "the container is filled at %s: %s" % (cn.where(), why if ok else (why_ if ex else why)))
    rep.note("C13.h-j consent analysis: %d rounds, %d questions" % (cons.rounds, len(cons.true) + len(cons.open)))
    gj = ef.fn("e2fsck_get_journal", jfile)
    jopen = calls_to(gj, "struct_io_manager.open")
    rep.floor("C13.c external journal open", len(jopen), 1)
    for n in jopen:
        fl = arg(n, 1)
        p = T.path(fl)
        intro = [(s, gl) for (s, gl) in introductions(gj, "IO_FLAG_RW")
                 if s.ev["e"] == "S" and T.path(s.ev["lhs"]) == p] if p else []
        direct = tree_guards(fl, "IO_FLAG_RW")
        okall = True
        det = []
        for (s, gl) in intro:
            for tg in gl:
                g = all_guards(gj, s, tg)
                ok = has_bit_guard(g, "E2F_OPT_READONLY", False, "options")
                okall = okall and ok
                det.append("%s: %s" % (s.text()[:40], [("" if t else "!") + T.pp(a)[:40] for t, a in g]))
        for tg in direct:
            g = all_guards(gj, n, tg)
            ok = has_bit_guard(g, "E2F_OPT_READONLY", False, "options")
            okall = okall and ok
        rep.ob("C13.c", site(gj, "external journal opened IO_FLAG_RW only when not read-only"), okall,
               "IO_FLAG_RW reaches io_ptr->open(journal) only under !(options & E2F_OPT_READONLY): %s" % det)
    # debugfs sibling: flags argument derives from fs->flags & EXT2_FLAG_RW
    db = world.program("debugfs")
    gj2 = db.fn("ext2fs_get_journal", "debugfs/journal.c")
    for n in calls_to(gj2, "struct_io_manager.open"):
        fl = arg(n, 1)
        ok = True
        tg = tree_guards(fl, "IO_FLAG_RW")
        bt = T.bits_test(T.strip(fl))
        ok = bool(bt and "EXT2_FLAG_RW" in bt[2]) or (not tg and not (set(RW_MACROS) & T.macros(fl)))
        rep.ob("C13.c", site(gj2, "external journal open mode follows EXT2_FLAG_RW"), ok,
               "flags argument is %s" % T.pp(fl))

    # main's end-of-run write-out under !READONLY
    main = ef.fn("main", "e2fsck/unix.c")
    cl = main.label_block("cleanup")
    if cl is None:
        raise Broken("label cleanup vanished from e2fsck main")
    region = main.reach([main.node(cl, 0)])
    n_w = 0
    for n in region:
        if not (n.ev and n.ev["e"] == "C"):
            continue
        if is_call(n, "ext2fs_flush", "ext2fs_flush2", "e2fsck_write_bitmaps", "ext2fs_mark_super_dirty",
                   "ext2fs_set_gdt_csum", "io_channel_flush", "struct_io_manager.flush"):
            n_w += 1
            g = [(t, resolve_local(main, a)) for t, a in control_lits(main, n)]
            ok = has_bit_guard(g, "E2F_OPT_READONLY", False, "options")
            rep.ob("C13.c", site(main, "cleanup:%s" % (T.call_names(n.ev["x"])[0])) + "@%d" % _idx(main, n), ok,
                   "write-out call in cleanup region under !(options & E2F_OPT_READONLY): %s" %
                   [("" if t else "!") + T.pp(a)[:40] for t, a in g])
    rep.floor("C13.c cleanup write-out calls", n_w, 4)

    # ---------------------------------------------------------------- C13.d mke2fs -n
    mk = world.program("mke2fs")
    mmain = mk.fn("main", "misc/mke2fs.c")
    STOP = {"ext2fs_flush2": "writes out only state dirtied earlier", "ext2fs_flush": "same", "ext2fs_close2": "same",
            "ext2fs_close": "same", "ext2fs_close_free": "same",
            "ext2fs_free": "ext2fs_zero_blocks2(NULL,…) only releases the static buffer"}
    def ro_open(f, n):
        # ext2fs_open*/manager->open without the RW bit yields an O_RDONLY channel (C13.a)
        if is_call(n, "ext2fs_open", "ext2fs_open2"):
            fl = arg(n, 1) if is_call(n, "ext2fs_open") else arg(n, 2)
            c = T.const(fl)
            return c is not None and (c & 1) == 0
        return effects.nondevice_call(f, n)
    may_req = mk.may(lambda f, n: effects.is_write_req(f, n), stop=lambda f: f.name in STOP, skip_call=ro_open)
    # nodes reachable from entry when every `noaction` literal takes its true arm, up to exit()
    def noact(nn, si, m):
        lit = mmain.literal(nn.bid)
        if lit and T.path(lit[0]) == "noaction":
            truth = lit[1] if si == 0 else (not lit[1])
            return truth
        return True
    nlits = [b for b in mmain.blocks if mmain.literal(b) and T.path(mmain.literal(b)[0]) == "noaction"]
    rep.floor("C13.d noaction literals in mke2fs main", len(nlits), 3)
    r = mmain.reach([mmain.entry_node()], avoid=mk.noreturn_nodes(mmain), edge_ok=noact)
    bad = []
    for n in r:
        if n.ev and n.ev["e"] == "C":
            if effects.is_write_req(mmain, n):
                bad.append((n, "direct"))
                continue
            for g in mk.callees(mmain, n.ev["x"]):
                if g.key in may_req:
                    bad.append((n, mk.may_chain(may_req, g.key)))
                    break
    # the exit under noaction must exist and be reachable
    exits = [n for n in calls_to(mmain, "exit") if has_var_guard(control_lits(mmain, n), "noaction", True)]
    rep.ob("C13.d", site(mmain, "exit under noaction"), bool(exits), "mke2fs -n leaves at `if (noaction) exit(0)`")
    rep.ob("C13.d", site(mmain, "no write request with noaction"), not bad,
           "with noaction set no call that may issue io_channel_write_*/discard/zeroout is reachable before exit: %s" %
           [(b[0].where(), b[0].text()[:40], b[1]) for b in bad[:3]])
    # ---------------------------------------------------------------- C13.e close does not write
    cf = lib.fn("ext2fs_close2")
    fl = calls_to(cf, "ext2fs_flush2", "ext2fs_flush")
    rep.floor("C13.e flush in close2", len(fl), 1)
    for n in fl:
        g = control_lits(cf, n)
        rep.ob("C13.e", site(cf, "flush only when dirty"), has_bit_guard(g, "EXT2_FLAG_DIRTY", True, "flags"),
               "guards %s" % [("" if t else "!") + T.pp(a)[:40] for t, a in g])
    dm = [n for n in cf.nodes() if n.ev and effects.is_dirty_mark(cf, n)]
    for n in dm:
        g = control_lits(cf, n)
        rep.ob("C13.e", site(cf, "dirty-mark in close only when RW"), has_bit_guard(g, "EXT2_FLAG_RW", True, "flags"),
               "guards %s" % [("" if t else "!") + T.pp(a)[:40] for t, a in g])
    wb = lib.fn("write_bitmaps", "lib/ext2fs/rw_bitmaps.c")
    wr = [n for n in wb.call_nodes() if effects.is_write_req(wb, n)]
    rep.floor("C13.e write_bitmaps write requests", len(wr), 2)
    for i, n in enumerate(wr):
        g = control_lits(wb, n)
        rep.ob("C13.e", site(wb, "bitmap write only when RW[%d]" % i), has_bit_guard(g, "EXT2_FLAG_RW", True, "flags"),
               "guards %s" % [("" if t else "!") + T.pp(a)[:40] for t, a in g])


def _idx(fn, node):
    return sorted(n.line for n in fn.call_nodes()).index(node.line)
