"""C20 — backup superblocks and descriptors: refresh/write wiring (not the placement arithmetic).
DESIGN.md §4 C20."""
from vlib import tree as T
from vlib import effects, absint
from vlib.rulelib import *
from vlib.engine import Broken, line_path

EXPLANATION = (
    "ORDER/GUARD/PURITY/WHO rules: tune2fs clears EXT2_FLAG_MASTER_SB_ONLY after every successful open before any change, "
    "resize2fs clears it on the new handle before the final close, mke2fs's handle never has it, and the only functions that "
    "set it are listed; e2fsck's end-of-run comparison check_backup_super_block() reads the first backup and compares each of "
    "the feature words, block and inode counts and the UUID (ignore masks contain only run-time bits), and main clears the flag "
    "whenever it reports a difference, with nothing setting it again before the flush; in ext2fs_flush2 the backup superblock, "
    "old-style descriptor and meta_bg descriptor writes are restricted by nothing but the documented flags and the location "
    "results of ext2fs_super_and_bgd_loc2, over all groups; one predicate (ext2fs_bg_has_super) feeds writer, reader and "
    "checker; when opening from a backup, the meta_bg descriptor location pairs the first block and the has_super adjustment of "
    "the same group on every path (as the writer does); opening from a backup clears the UNINIT flags; resize2fs reserves the area of the new last-group backup (sparse_super2) on every path on which its block-move planning succeeds.  Decides wiring; not the "
    "power-of-3/5/7 arithmetic.")


def clears_master(n):
    return n.ev and n.ev["e"] == "S" and T.last_field(n.ev["lhs"]) == ("struct_ext2_filsys", "flags") and \
        store_clears_bits(n, "EXT2_FLAG_MASTER_SB_ONLY")


def sets_master(n):
    return n.ev and n.ev["e"] == "S" and T.last_field(n.ev["lhs"]) == ("struct_ext2_filsys", "flags") and \
        store_sets_bits(n, "EXT2_FLAG_MASTER_SB_ONLY")


def tune2fs_backups(world, rep, rule):
    prog = world.program("tune2fs")
    main = prog.fn("main", "misc/tune2fs.c")
    opens = calls_to(main, "ext2fs_open2", "ext2fs_open")
    clears = [n for n in main.nodes() if clears_master(n)]
    rep.ob(rule, site(main, "tune2fs enables backup writing"), bool(clears), "fs->flags &= ~EXT2_FLAG_MASTER_SB_ONLY exists")
    # every feature/geometry changer and the close are dominated by the clear (on the successful-open paths)
    changers = calls_to(main, "update_feature_set", "resize_inode", "rewrite_metadata_checksums", "add_journal",
                        "remove_journal_inode", "remove_journal_device", "handle_quota_options",
                        "parse_extended_opts", "ext2fs_mark_super_dirty")
    rep.floor("%s changers in tune2fs main" % rule, len(changers), 5)
    for c in changers:
        ok = main.dominated_by(c, clears)
        rep.ob(rule, site(main, "backups enabled before %s#%d" % (T.call_names(c.ev["x"])[0], _occ(main, c))), ok,
               "`%s` is dominated by the clear of EXT2_FLAG_MASTER_SB_ONLY" % c.text()[:40])
    resets = [n for n in main.nodes() if sets_master(n)]
    rep.ob(rule, site(main, "nothing re-sets MASTER_SB_ONLY"), not resets, "no store sets the flag in tune2fs main")
    # ... nor a callee: a call that can replace or re-open the handle (it takes &fs, or may store the flag) must
    # be followed by another clear before anything is changed or the file system is closed
    may_set = prog.may(lambda f, n: sets_master(n))
    handle = None
    for cl_ in clears:
        handle = (T.path(cl_.ev["lhs"]) or "").split("->")[0] or handle
    reopen = []
    for n in main.call_nodes():
        if n in opens:
            continue
        takes_handle = any(isinstance(T.strip(a), dict) and T.strip(a).get("k") == "u" and T.strip(a).get("o") == "&" and
                           T.path(T.strip(a)["e"]) == handle for a in n.ev["x"].get("a", []))
        if takes_handle and any(g.key in may_set for g in prog.callees(main, n.ev["x"], weak=False)):
            reopen.append(n)
    closes = calls_to(main, "ext2fs_close_free", "ext2fs_close", "ext2fs_close2")
    for i, rn in enumerate(reopen):
        r = main.reach(main.after(rn), avoid=clears)
        # error exits of the re-opening call itself are not changes
        late = [c for c in changers if c in r]
        rep.ob(rule, site(main, "backups enabled again after %s#%d" % (T.call_names(rn.ev["x"])[0], i)), not late,
               "`%s` re-opens the handle (the new one is MASTER_SB_ONLY again); changers reachable afterwards without another "
               "clear: %s" % (rn.text()[:40], [(c.line, T.call_names(c.ev["x"])[0]) for c in late[:4]]))
    rep.extra.setdefault("handle_replacing_calls", []).extend(T.call_names(n.ev["x"])[0] for n in reopen)


def run(world, rep, tier, only=None):
    # ------------------------------------------------------------------ C20.a
    tune2fs_backups(world, rep, "C20.a")
    rs = world.program("resize2fs")
    rf = rs.fn("resize_fs", "resize/resize2fs.c")
    cl = [n for n in rf.nodes() if clears_master(n) and "new_fs" in (T.path(n.ev["lhs"]) or "")]
    closes = [c for c in calls_to(rf, "ext2fs_close_free") if (T.path(arg(c, 0)) or "").endswith("new_fs")]
    rep.floor("C20.a final close in resize_fs", len(closes), 1)
    for c in closes:
        rep.ob("C20.a", site(rf, "resize2fs enables backups on the new handle before the final close"),
               rf.dominated_by(c, cl), "new_fs->flags &= ~EXT2_FLAG_MASTER_SB_ONLY dominates ext2fs_close_free(&new_fs)")
    # K4: who sets the flag, program by program
    SETTERS = {
        ("lib/ext2fs/openfs.c", "ext2fs_open2"): "every opened handle starts with backups off",
        ("e2fsck/unix.c", "main"): "e2fsck decides at the end of the run (C20.b)",
        ("e2fsck/journal.c", "e2fsck_run_ext3_journal"): "handle re-opened after journal replay",
        ("debugfs/journal.c", "ext2fs_run_ext3_journal"): "handle re-opened after journal replay",
        ("resize/resize2fs.c", "blocks_to_move"): "old handle only: it is never written again in full",
        ("resize/resize2fs.c", "resize_group_descriptors"): "old handle",
    }
    seen = set()
    for pn in ("e2fsck", "debugfs", "resize2fs", "tune2fs", "mke2fs"):
        prog = world.program(pn)
        for fn in prog.functions():
            for n in fn.nodes():
                if sets_master(n) and (fn.key, n.line) not in seen:
                    seen.add((fn.key, n.line))
                    ok = fn.key in SETTERS
                    extra = ""
                    if fn.file == "resize/resize2fs.c":
                        ok = "old_fs" in (T.path(n.ev["lhs"]) or "")
                        extra = " (store is on %s)" % T.path(n.ev["lhs"])
                    rep.ob("C20.a", site(fn, "sets MASTER_SB_ONLY"), ok,
                           SETTERS.get(fn.key, "listed only for old_fs" if fn.file == "resize/resize2fs.c" else "NOT LISTED") + extra)
    # the flag is set on a fresh handle only: once code that may ask for the backups to be refreshed (a callee
    # that clears the flag: a relocated inode table, a changed feature, a recovered journal) has run on a handle,
    # setting the flag again throws that request away - the close that follows writes the primary copies only
    n_set = 0
    for pn in ("e2fsck", "debugfs", "tune2fs"):
        prog = world.program(pn)
        mayclear = prog.may(lambda f, n: clears_master(n))
        for fn in prog.functions():
            sets = [n for n in fn.nodes() if sets_master(n)]
            if not sets or fn.name == "ext2fs_open2":
                continue
            opens = calls_to(fn, "ext2fs_open", "ext2fs_open2", "try_open_fs")
            askers = [c for c in fn.call_nodes()
                      if any(g.key in mayclear for g in prog.callees(fn, c.ev["x"])) and c not in opens]
            for i, s_ in enumerate(sets):
                n_set += 1
                r = fn.reach([m for a_ in askers for m in fn.after(a_)], avoid=opens)
                wit = None
                if s_ in r:
                    wp = fn.witness_path([m for a_ in askers for m in fn.after(a_)], [s_], avoid=opens)
                    wit = {"entry": fn.name, "lines": line_path(wp or [])}
                rep.ob("C20.g", site(fn, "MASTER_SB_ONLY set on a fresh handle only#%d[%s]" % (i, pn)), s_ not in r,
                       "no call that may clear the flag (%s) reaches `%s` (line %d) without a re-open in between" %
                       (sorted({T.call_names(a_.ev["x"])[0] for a_ in askers if T.call_names(a_.ev["x"])})[:4], s_.text()[:40], s_.line), wit)
    rep.floor("C20.g stores that set MASTER_SB_ONLY outside ext2fs_open2", n_set, 3)
    mk = world.program("mke2fs")
    ini = mk.fn("ext2fs_initialize")
    rep.ob("C20.a", site(ini, "a freshly initialised fs writes its backups"), not any(sets_master(n) for n in ini.nodes()),
           "ext2fs_initialize does not set EXT2_FLAG_MASTER_SB_ONLY")
    db = world.program("debugfs")
    dclose = [f for f in db.fns_in_file("debugfs/debugfs.c") if any(clears_master(n) for n in f.nodes())]
    for f in dclose:
        for n in [x for x in f.nodes() if clears_master(x)]:
            lits = control_lits(f, n)
            rep.ob("C20.a", site(f, "debugfs writes backups only on request"), bool(lits),
                   "the clear is conditional (close -a): %s" % [T.pp(a)[:30] for t, a in lits])

    # ------------------------------------------------------------------ C20.b e2fsck refreshes when they differ
    ef = world.program("e2fsck")
    main = ef.fn("main", "e2fsck/unix.c")
    cb = ef.fn("check_backup_super_block", "e2fsck/super.c")
    endclr = []
    clab = main.label_block("cleanup")
    if clab is None:
        raise Broken("label cleanup vanished")
    region = main.reach([main.node(clab, 0)])
    for n in region:
        if clears_master(n):
            endclr.append(n)
    rep.ob("C20.b", site(main, "end-of-run refresh exists"), bool(endclr), "main clears MASTER_SB_ONLY in the cleanup region")
    for n in endclr:
        lits = control_lits(main, n)
        own = [(t, a) for t, a in lits if main.block_end([b for (b, tt, aa) in main.control_literals(n) if aa is a][0]) in region] \
            if False else lits
        has = any(t and any(c.get("fn") == "check_backup_super_block" for c in T.calls(a)) for t, a in lits)
        rep.ob("C20.b", site(main, "refresh decided by check_backup_super_block"), has,
               "the clear is control-dependent on check_backup_super_block(ctx)")
        # nothing sets the flag again between the clear and the flush
        later = main.reach(main.after(n))
        rep.ob("C20.b", site(main, "flag not set again before the flush"), not any(sets_master(x) for x in later),
               "no store sets MASTER_SB_ONLY after the end-of-run clear")
        fl = [x for x in later if is_call(x, "ext2fs_flush", "ext2fs_close_free", "ext2fs_close")]
        rep.ob("C20.b", site(main, "refresh followed by the write-out"), bool(fl), "ext2fs_flush/ext2fs_close_free follow")
    # on every path through cleanup with the fs valid and writable, the comparison is made
    cbcalls = calls_to(main, "check_backup_super_block")
    rep.floor("C20.b check_backup_super_block call", len(cbcalls), 1)
    for c in cbcalls:
        lits = control_lits(main, c)
        allowed = lambda t, a: (
            (t and any(x.get("fn") == "ext2fs_test_valid" for x in T.calls(a))) or
            ((not t) and lit_tests_bit(a, "E2F_OPT_READONLY", "options")) or
            ((not t) and lit_tests_bit(a, "E2F_FLAG_RUN_RETURN", "flags")) or
            main.block_end(_blk_of(main, c, a)) not in region)
        extra = [(t, a) for t, a in lits if not allowed(t, a)]
        rep.ob("C20.b", site(main, "comparison made whenever the fs is valid and writable"), not extra,
               "check_backup_super_block() is restricted only by validity, read-only and run-return: extra %s" %
               [("" if t else "!") + T.pp(a)[:40] for t, a in extra])
    # compared fields
    NEED = ["s_feature_compat", "s_feature_incompat", "s_feature_ro_compat", "s_blocks_count", "s_blocks_count_hi",
            "s_inodes_count", "s_uuid"]
    cmpf = set()
    from vlib import width as _w
    # comparisons wherever they are written: branch conditions, or operands of a value that is returned /
    # stored (`return a != b || memcmp(...)` in a helper)
    for _line, e in _w._exprs_of(cb):
        for a in T.walk(e):
            if not isinstance(a, dict):
                continue
            if (a.get("k") == "b" and a.get("o") in ("==", "!=")) or (a.get("k") == "c" and a.get("fn") in ("memcmp", "uuid_compare")):
                fl_ = [f for f in T.fields(a) if f[0] == "ext2_super_block"]
                roots = {T.path(x) for x in T.walk(a) if x.get("k") == "m" and x.get("r") == "ext2_super_block"}
                if len([r for r in roots if r]) >= 2:
                    cmpf |= {f[1] for f in fl_}
    for f in NEED:
        rep.ob("C20.b", site(cb, "compares %s" % f), f in cmpf, "primary and backup %s are compared" % f)
    ret1 = [n for n in cb.events("S") if T.path(n.ev["lhs"]) == "ret" and T.const(n.ev.get("rhs")) == 1]
    rep.ob("C20.b", site(cb, "a difference is reported"), bool(ret1) and any(T.path(n.ev.get("x")) == "ret" for n in cb.events("R")),
           "ret = 1 on a difference and ret is returned")
    # ignore masks contain only run-time bits
    ALLOWED_IGN = {"EXT2_FEATURE_RO_COMPAT_LARGE_FILE", "EXT4_FEATURE_RO_COMPAT_DIR_NLINK", "EXT4_FEATURE_COMPAT_ORPHAN_PRESENT",
                   "EXT4_FEATURE_RO_COMPAT_ORPHAN_PRESENT", "EXT3_FEATURE_INCOMPAT_EXTENTS", "EXT3_FEATURE_INCOMPAT_RECOVER",
                   "EXT4_FEATURE_RO_COMPAT_HUGE_FILE"}
    ign = set()
    for _line, e in _w._exprs_of(cb):
        for x in T.walk(e):
            if isinstance(x, dict) and x.get("k") == "u" and x.get("o") == "~" and {f for f in T.fields(e) if f[0] == "ext2_super_block"}:
                ign |= {m for m in T.macros(x["e"]) if "_FEATURE_" in m and "IGNORE" not in m}
    rep.ob("C20.b", site(cb, "ignore masks contain only run-time feature bits"), ign <= ALLOWED_IGN and bool(ign),
           "ignored bits: %s" % sorted(ign))
    # it reads a real backup: the block comes from ext2fs_group_first_block2 of a group with ext2fs_bg_has_super
    rd = calls_to(cb, "io_channel_read_blk", "io_channel_read_blk64")
    hs = [b for b in cb.blocks if cb.literal(b) and any(c.get("fn") == "ext2fs_bg_has_super" for c in T.calls(cb.literal(b)[0]))]
    rep.ob("C20.b", site(cb, "reads a prescribed backup location"), bool(rd) and bool(hs) and
           any(any(c.get("fn") == "ext2fs_group_first_block2" for c in T.calls(resolve_local(cb, arg(r, 1)))) for r in rd),
           "backup block = ext2fs_group_first_block2(fs, g) for a group with ext2fs_bg_has_super(fs, g)")

    # ------------------------------------------------------------------ C20.c the writer skips nothing else
    lib = ef
    fl2 = lib.fn("ext2fs_flush2")
    flush2_writer_rules(world, ef, rep, "C20.c")
    loc = calls_to(fl2, "ext2fs_super_and_bgd_loc2")
    loop = _loop_head(fl2, loc[0])
    lt_holder = None
    # one predicate everywhere
    loc2 = lib.fn("ext2fs_super_and_bgd_loc2")
    rep.ob("C20.c", site(loc2, "writer uses ext2fs_bg_has_super"), bool(calls_to(loc2, "ext2fs_bg_has_super")),
           "has_super = ext2fs_bg_has_super(fs, group)")
    for n in calls_to(loc2, "ext2fs_bg_has_super"):
        rep.ob("C20.c", site(loc2, "writer asks about the group being located"), T.path(arg(n, 1)) == "group",
               "ext2fs_bg_has_super(fs, %s)" % T.pp(arg(n, 1)))
    # reader pairing: first block and has_super of the same group on every path
    dl = lib.fn("ext2fs_descriptor_block_loc2", "lib/ext2fs/openfs.c")
    ex = absint.Explorer(dl, lib)

    def shape(e):
        return T.pp(T.strip(e)).replace("(", "").replace(")", "").replace(" ", "")

    def on(node, env, flags):
        d = dict(flags)
        if node.ev and node.ev["e"] == "C" and is_call(node, "ext2fs_bg_has_super"):
            d["sup"] = shape(arg(node, 1))
        if node.ev and node.ev["e"] == "S" and T.path(node.ev["lhs"]) == "ret_blk":
            rhs = node.ev.get("rhs") or {}
            cs = [c for c in T.calls(rhs) if c.get("fn") in ("ext2fs_group_first_block2", "ext2fs_group_first_block")]
            if node.ev["o"] == "=" and cs:
                d["blk"] = shape(cs[0]["a"][1])
            elif node.ev["o"] == "+=" and ("ext2_super_block", "s_blocks_per_group") in T.fields(rhs):
                d["blk"] = d.get("blk", "?") + "+1"
            elif node.ev["o"] in ("=", "+=", "-="):
                d["blk"] = "?"
        return frozenset(d.items())
    terms = ex.run([dl.entry_node()], on_node=on)
    bad = []
    n_ret = 0
    for (node, env, flags, st) in terms:
        if node.ev and node.ev["e"] == "R":
            d = dict(flags)
            x = node.ev.get("x") or {}
            if "ret_blk" in T.vars_in(x) and "has_super" in T.vars_in(x):
                n_ret += 1
                if d.get("blk") != d.get("sup"):
                    bad.append((node.line, d.get("blk"), d.get("sup"), ex.trace(st)))
    rep.ob("C20.c", site(dl, "descriptor location pairs first block and has_super of the same group"), not bad and n_ret >= 1,
           "on every path returning ret_blk + has_super the group of ext2fs_group_first_block2 (+1 per s_blocks_per_group step) "
           "equals the group last asked of ext2fs_bg_has_super: mismatches %s" % [(b[0], b[1], b[2]) for b in bad[:3]],
           [b[3] for b in bad[:1]] or None)

    # ------------------------------------------------------------------ C20.d opening from a backup distrusts uninit flags
    o2 = lib.fn("ext2fs_open2")
    clr = [n for n in calls_to(o2, "ext2fs_bg_flags_clear") if "EXT2_BG_BLOCK_UNINIT" in T.macros(arg(n, 2) or {}) or
           "EXT2_BG_INODE_UNINIT" in T.macros(arg(n, 2) or {})]
    rep.ob("C20.d", site(o2, "UNINIT flags cleared when opened from a backup"), len(clr) >= 2,
           "ext2fs_bg_flags_clear(… BLOCK_UNINIT / INODE_UNINIT) present")
    for n in clr:
        lits = control_lits(o2, n)
        ok = any(t and T.path(a) == "superblock" or (t and "superblock" in T.vars_in(a)) for t, a in lits)
        rep.ob("C20.d", site(o2, "clear is tied to the backup-superblock argument#%d" % _occ(o2, n)), ok,
               "guards %s" % [("" if t else "!") + T.pp(a)[:40] for t, a in lits][:4])
        # purity: from the `superblock > 1` test on, nothing but the checksum-feature test and the group loop
        sbl = [bid for (bid, t, a) in o2.control_literals(n) if "superblock" in T.vars_in(a)]
        if sbl:
            start = o2.block_end(sbl[-1])
            inside = o2.reach([start])
            extra = []
            for (bid, t, a) in o2.control_literals(n):
                if bid in sbl or o2.block_end(bid) not in inside:
                    continue
                if any(c.get("fn") == "ext2fs_has_group_desc_csum" for c in T.calls(a)):
                    continue
                if ("struct_ext2_filsys", "group_desc_count") in T.fields(a):
                    continue
                extra.append((t, a))
            rep.ob("C20.d", site(o2, "clear restricted by nothing else#%d" % _occ(o2, n)), not extra,
                   "additional conditions: %s" % [("" if t else "!") + T.pp(a)[:40] for t, a in extra])
    iu = calls_to(o2, "ext2fs_bg_itable_unused_set")
    rep.ob("C20.d", site(o2, "bg_itable_unused reset"), any(T.const(arg(n, 2)) == 0 for n in iu), "ext2fs_bg_itable_unused_set(fs, group, 0)")
    md = [n for n in calls_to(o2, "ext2fs_mark_super_dirty") if any("superblock" in T.vars_in(a) for t, a in control_lits(o2, n))]
    for n in md:
        lits = control_lits(o2, n)
        rep.ob("C20.d", site(o2, "dirty-mark only when writable"), any(t and lit_tests_bit(a, "EXT2_FLAG_RW", "flags") for t, a in lits),
               "guards %s" % [("" if t else "!") + T.pp(a)[:40] for t, a in lits][:5])

    # ------------------------------------------------------------------ C20.e resize reserves the new backup location
    # With sparse_super2 a shrink moves the second backup to the new last group; the routine that
    # reserves that group's superblock/descriptor area (and queues the data living there for
    # relocation) must have run on every path on which blocks_to_move() reports success -
    # otherwise ext2fs_flush writes the backup over live file data.
    bm = rs.fn("blocks_to_move", "resize/resize2fs.c")
    rsv = calls_to(bm, "reserve_sparse_super2_last_group")
    rep.floor("C20.e reserve_sparse_super2_last_group call in blocks_to_move", len(rsv), 1)
    ex = absint.Explorer(bm, rs)

    def seen_rsv(node, env, flags, _r=rsv):
        return flags | {"reserved"} if node in _r else flags
    terms = ex.run([bm.entry_node()], on_node=seen_rsv)
    bad = sorted({node.line for (node, env, fl, stt) in terms if node.ev and node.ev["e"] == "R"
                  and absint._z(ex.eval(node.ev.get("x"), env)) and "reserved" not in fl})
    rep.ob("C20.e", site(bm, "new last-group backup area reserved on every successful path"), not bad,
           "every path of blocks_to_move that returns 0 has called reserve_sparse_super2_last_group(); zero returns "
           "without it at lines %s" % bad, {"entry": "blocks_to_move", "exits": bad} if bad else None)
    rl = rs.fn("reserve_sparse_super2_last_group", "resize/resize2fs.c")
    mk = [n for n in calls_to(rl, "ext2fs_mark_block_bitmap2", "ext2fs_mark_block_bitmap_range2")]
    rep.ob("C20.e", site(rl, "reservation marks the area and queues its data for relocation"),
           any((T.path(arg(n, 0)) or "").endswith("reserve_blocks") for n in mk) and
           any((T.path(arg(n, 0)) or "").endswith("move_blocks") for n in mk),
           "marks in rfs->reserve_blocks and rfs->move_blocks: %s" % sorted({T.path(arg(n, 0)) for n in mk}))

    # ------------------------------------------------------------------ C20.h whatever lies where a new backup will go is found, whoever owns it
    # When a resize needs more descriptor blocks, mark_fs_metablock() decides for each block of every backup group's
    # new descriptor area what occupies it now.  With flex_bg a bitmap or inode table of *any* group can lie there
    # (packed_meta_blocks, tables moved by an earlier resize or e2fsck): the search for the owner runs over all groups
    # of the old file system - from 0, to old_fs->group_desc_count - or the backup is written over a live table.
    mm = rs.fn("mark_fs_metablock", "resize/resize2fs.c")
    owner_tests = [n for n in mm.call_nodes() if is_call(n, "is_block_bm", "is_inode_bm", "is_inode_tb")] + \
        [mm.block_end(b) for b in mm.blocks if mm.literal(b) and
         any(cc.get("fn") in ("is_block_bm", "is_inode_bm", "is_inode_tb") for cc in T.calls(mm.literal(b)[0]))]
    heads = sorted({loop_head(mm, n) for n in owner_tests} - {None})
    rep.floor("C20.h owner search loop in mark_fs_metablock", len(heads), 1)
    for hb in heads:
        cond = (mm.blocks[hb].get("t") or {}).get("c")
        a0 = T.strip(cond) if isinstance(cond, dict) else None
        iv = bound = None
        if isinstance(a0, dict) and a0.get("k") == "b" and a0.get("o") in ("<", ">", "!="):
            l_, r_ = (a0["l"], a0["r"]) if a0["o"] in ("<", "!=") else (a0["r"], a0["l"])
            iv, bound = T.path(l_), r_
        whole = bound is not None and "group_desc_count" in T.field_names(bound) and "old_fs" in (T.pp(bound) or "")
        body = natural_loops(mm).get(hb, set())
        inits = [n for n in mm.events("S") if T.path(n.ev["lhs"]) == iv and n not in body]
        from0 = bool(inits) and all(n.ev.get("o") == "=" and T.const(n.ev.get("rhs")) == 0 for n in inits)
        rep.ob("C20.h", site(mm, "owner of a block in a backup area is searched among all old groups"), whole and from0,
               "loop `%s`: runs to old_fs->group_desc_count: %s; starts at 0: %s" % (T.pp(cond or {})[:50], whole, from0))

    # ------------------------------------------------------------------ C20.i a backup moves with the last group only if that is where it was
    # With sparse_super2 the second backup slot normally names the last group, and a grow moves it along.  With a single
    # backup the slot may hold group 1: moving *that* to the new last group leaves the blocks of the old backup
    # allocated and the backup where nobody frees it.  The store that moves the slot is decided by a comparison of the
    # slot with the old last group (or by the file system having had fewer than three groups).
    afi = rs.fn("adjust_fs_info", "resize/resize2fs.c")
    mv = [n for n in afi.events("S") if "s_backup_bgs" in T.field_names(n.ev["lhs"]) and T.path(n.ev.get("rhs")) == "last_bg"]
    rep.floor("C20.i stores that move a backup slot to the last group in adjust_fs_info", len(mv), 1)
    for i, n in enumerate(mv):
        lits = control_lits(afi, n) + restrict_lits(afi, n)
        tied = any(t is not None and "s_backup_bgs" in T.field_names(a_) and
                   (("old_last_bg" in T.vars_in(a_)) or depends_on(afi, a_, lambda y: T.path(y) == "old_last_bg"))
                   for t, a_ in lits)
        rep.ob("C20.i", site(afi, "backup slot moved only from the old last group#%d" % i), tied,
               "`%s` (line %d) is decided by a comparison of s_backup_bgs[] with old_last_bg" % (n.text()[:40], n.line))

    # ------------------------------------------------------------------ C20.j a backup location is released only when no slot names it any more
    # After a grow clear_sparse_super2_last_group() gives back the superblock/descriptor blocks of the old last group
    # if that group held the second backup and the backup has moved on.  It must not do so while one of the *new*
    # s_backup_bgs[] slots still names that group (two groups with slots {1,0} grown to {1,last}): the release lies
    # behind a comparison of the new file system's slots with old_last_bg.
    csl = rs.fn("clear_sparse_super2_last_group", "resize/resize2fs.c")
    rel = [n for n in calls_to(csl, "ext2fs_unmark_block_bitmap2", "ext2fs_unmark_block_bitmap_range2")]
    rep.floor("C20.j releases in clear_sparse_super2_last_group", len(rel), 1)
    for i, n in enumerate(rel):
        kept = [T.pp(a_)[:50] for t, a_ in control_lits(csl, n) + restrict_lits(csl, n)
                if t is not None and "s_backup_bgs" in T.field_names(a_) and "old_last_bg" in T.vars_in(a_) and "old_fs" not in T.pp(a_)]
        rep.ob("C20.j", site(csl, "old backup blocks released only when the new slots no longer name that group#%d" % i), bool(kept),
               "`%s` lies behind a comparison of fs->super->s_backup_bgs[] with old_last_bg: %s" % (n.text()[:40], kept[:2]))

    # ------------------------------------------------------------------ C20.k what is released is the backup, block for block
    # ext2fs_super_and_bgd_loc2() reports the number of blocks a group's superblock *and* descriptors take.
    # clear_sparse_super2_last_group() releases the superblock by itself and the descriptors as a range: the length of
    # that range is the reported number less the superblock, or the block behind the backup (the group's block bitmap,
    # without flex_bg) is released with it.
    rng = calls_to(csl, "ext2fs_unmark_block_bitmap_range2")
    single = calls_to(csl, "ext2fs_unmark_block_bitmap2")
    locs = calls_to(csl, "ext2fs_super_and_bgd_loc2")
    numv = {T.path(T.strip(arg(l_, 5)).get("e")) for l_ in locs if isinstance(T.strip(arg(l_, 5)), dict) and T.strip(arg(l_, 5)).get("k") == "u"} - {None}
    rep.floor("C20.k range release in clear_sparse_super2_last_group", len(rng), 1)
    for i, n in enumerate(rng):
        ln = arg(n, 2)
        raw = T.path(ln) in numv
        adjusted = any(m_.ev.get("o") in ("--", "-=") and T.path(m_.ev["lhs"]) in numv and n in csl.reach(csl.after(m_)) for m_ in csl.events("S")) or \
            (isinstance(T.strip(ln), dict) and T.strip(ln).get("k") == "b" and T.strip(ln).get("o") == "-")
        rep.ob("C20.k", site(csl, "descriptor range released without the block behind it#%d" % i), (not raw) or adjusted or not single,
               "length `%s`: the count from ext2fs_super_and_bgd_loc2() is reduced by the superblock released separately: %s" % (T.pp(ln)[:20], adjusted))

    # ------------------------------------------------------------------ C20.f the backup search starts afresh for every block size
    # get_backup_sb() tries each block size in turn and, for each, walks the prescribed backup groups with the
    # ext2fs_list_backups() iterator.  The iterator state must be initialised inside the block-size loop: initialised
    # once, it is exhausted by the first (1k) pass and no larger block size ever probes a backup.
    ef = world.program("e2fsck")
    gb = ef.fn("get_backup_sb", "e2fsck/util.c")
    lbs = calls_to(gb, "ext2fs_list_backups")
    rep.floor("C20.f ext2fs_list_backups call in get_backup_sb", len(lbs), 1)
    for c_ in lbs:
        inner = loop_head(gb, c_)
        ivars = []
        for a in c_.ev["x"].get("a", []):
            a0 = T.strip(a)
            if isinstance(a0, dict) and a0.get("k") == "u" and a0.get("o") == "&" and T.path(a0["e"]):
                ivars.append(T.path(a0["e"]))
        # the loop around the iteration loop: the innermost loop containing the inner loop's head that is not itself
        outer = None
        if inner is not None:
            cands = []
            for hb, b in gb.blocks.items():
                t = b.get("t")
                if t and t.get("k") in ("for", "while", "do") and hb != inner:
                    body = loop_body(gb, hb)
                    if gb.node(inner, 0) in body:
                        cands.append((len(body), hb))
            outer = min(cands)[1] if cands else None
        rep.ob("C20.f", site(gb, "backup groups are searched per block size"), outer is not None and len(ivars) >= 3,
               "ext2fs_list_backups(&%s) runs in a loop nested in the block-size loop" % ", &".join(ivars))
        if outer is None:
            continue
        obody = loop_body(gb, outer)
        for v in ivars:
            inits = [n for n in gb.events("S") if T.path(n.ev["lhs"]) == v and n.ev.get("o") == "=" and T.const(n.ev.get("rhs")) is not None]
            ok = any(n in obody and gb.dominated_by(gb.node(inner, 0), [n]) for n in inits)
            rep.ob("C20.f", site(gb, "iterator state `%s` re-initialised for every block size" % v), ok,
                   "a constant store to %s lies inside the block-size loop and dominates the group walk" % v)


def _is_progress(a):
    return "progress_ops" in T.field_names(a)


def _is_retval(a):
    return T.path(a) == "retval"


def _is_eq_zero(a, name):
    return T.path(a) == name


def _blk_of(fn, node, atom):
    for (bid, truth, a) in fn.control_literals(node):
        if a is atom:
            return bid
    return fn.entry


def _occ(fn, node):
    nm = T.call_names(node.ev["x"])[0] if T.call_names(node.ev["x"]) else "?"
    same = sorted([n for n in fn.call_nodes() if nm in T.call_names(n.ev["x"])], key=lambda n: (n.line, n.bid, n.idx))
    return same.index(node)


def _loop_head(fn, node):
    best, head = None, None
    for hb, b in fn.blocks.items():
        t = b.get("t")
        if not t or t.get("k") not in ("for", "while", "do"):
            continue
        if not b.get("s") or b["s"][0] is None or b["s"][0] < 0:
            continue
        body = fn.reach([fn.node(b["s"][0], 0)], avoid=[fn.block_end(hb)])
        if node in body:
            if best is None or len(body) < best:
                best, head = len(body), hb
    return head


def flush2_writer_rules(world, ef, rep, RULE):
    """the group loop of ext2fs_flush2: which conditions may keep a backup superblock or a descriptor block from being
    written (shared by C20.c and C01.m)"""
    # ------------------------------------------------------------------ C20.c the writer skips nothing else
    lib = ef
    fl2 = lib.fn("ext2fs_flush2")
    loc = calls_to(fl2, "ext2fs_super_and_bgd_loc2")
    rep.floor(RULE + " super_and_bgd_loc2 call in flush2", len(loc), 1)
    loop = _loop_head(fl2, loc[0])
    if loop is None:
        raise Broken("group loop of ext2fs_flush2 not found")
    body = fl2.reach([fl2.node(fl2.blocks[loop]["s"][0], 0)], avoid=[fl2.block_end(loop)])

    def inner_lits(n):
        # what every path must satisfy, and whatever else can keep the write from happening in this turn of the loop
        # (the last operand of a guard written `A || B`)
        from vlib.engine import restricting_literals
        out, seen = [], set()
        for (bid, truth, atom) in fl2.control_literals(n) + restricting_literals(fl2, n, [fl2.node(loop, 0)]):
            if fl2.block_end(bid) in body and bid != loop and (bid, truth) not in seen:
                seen.add((bid, truth))
                out.append((truth, atom))
        return out
    wb = [n for n in calls_to(fl2, "write_backup_super") if n in body]
    rep.floor(RULE + " write_backup_super in the group loop", len(wb), 1)
    for n in wb:
        lits = inner_lits(n)
        ok = all((lit_tests_bit(a, "EXT2_FLAG_MASTER_SB_ONLY", "flags") and not t) or (T.path(a) in ("i", "super_blk") and t) or
                 _is_progress(a) for t, a in lits)
        rep.ob(RULE, site(fl2, "backup superblock write restricted only by MASTER_SB_ONLY, i, super_blk"), ok and bool(lits),
               "guards inside the loop: %s" % [("" if t else "!") + T.pp(a)[:40] for t, a in lits])
        rep.ob(RULE, site(fl2, "backup goes to the computed location"),
               T.path(arg(n, 2)) == "super_blk" and T.path(arg(n, 1)) == "i", "write_backup_super(fs, %s, %s, …)" %
               (T.pp(arg(n, 1)), T.pp(arg(n, 2))))
    dw = [n for n in body if n.ev and n.ev["e"] == "C" and effects.is_write_req(fl2, n)]
    rep.floor(RULE + " descriptor writes in the group loop", len(dw), 2)
    for n in dw:
        lits = inner_lits(n)
        tgt = T.path(arg(n, 1))
        if tgt == "old_desc_blk":
            ok = all((lit_tests_bit(a, "EXT2_FLAG_SUPER_ONLY", "flags") and not t) or (T.path(a) == "old_desc_blk" and t) or
                     (lit_tests_bit(a, "EXT2_FLAG_MASTER_SB_ONLY", "flags")) or (T.path(a) == "i") or
                     (_is_eq_zero(a, "i")) or _is_progress(a) or _is_retval(a) for t, a in lits)
            what = "old-style descriptor write restricted only by SUPER_ONLY, old_desc_blk, MASTER_SB_ONLY || i == 0"
        elif tgt == "new_desc_blk":
            ok = all((lit_tests_bit(a, "EXT2_FLAG_SUPER_ONLY", "flags") and not t) or (T.path(a) == "new_desc_blk" and t) or
                     _is_progress(a) or _is_retval(a) for t, a in lits)
            what = "meta_bg descriptor write restricted only by SUPER_ONLY, new_desc_blk"
        else:
            ok, what = False, "descriptor write to an unexpected target %s" % tgt
        rep.ob(RULE, site(fl2, what), ok, "guards inside the loop: %s" % [("" if t else "!") + T.pp(a)[:40] for t, a in lits])
    # loop bound covers every group
    lt = fl2.blocks[loop].get("t", {}).get("c")
    rep.ob(RULE, site(fl2, "loop runs over all groups"), lt is not None and ("struct_ext2_filsys", "group_desc_count") in T.fields(lt)
           and T.strip(lt).get("o") == "<", "loop condition %s" % T.pp(lt))
