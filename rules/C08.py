"""C08 — resize2fs: the crash-marker clause and the refusal clause.  DESIGN.md §4 C08."""
from vlib import tree as T
from vlib import effects
from vlib.rulelib import *
from vlib import absint
from vlib.engine import Broken, line_path

EXPLANATION = (
    "ORDER/WHO/GATED-EFFECT rules over clang CFGs and the resize2fs call graph: in resize_fs the store setting "
    "EXT2_ERROR_FS, the dirty-mark and ext2fs_flush occur in that order and dominate every call that may issue a write "
    "request and the duplication of the handle; the only store clearing EXT2_ERROR_FS reachable from resize_fs is in "
    "resize_fs and is followed only by the final ext2fs_close_free; ext2fs_flush2 writes the primary superblock after "
    "everything else, flushes before and after it; in resize2fs main no path from open to an exit that does not run "
    "resize_fs/online_resize_fs contains a write request or a dirty-mark.  Decides the crash-marker and refusal clauses "
    "of C08 for all crash points / requests; not the relocation arithmetic.")

RZ = "resize/resize2fs.c"


def never_has_macro(fn, e, macro):
    """e is a constant, or a local all of whose stores are constants, none mentioning `macro`"""
    e0 = T.strip(e)
    if not isinstance(e0, dict):
        return False
    if T.const(e0) is not None and e0.get("k") != "v":
        return macro not in T.macros(e0)
    if e0.get("k") == "v" and e0.get("s") == "l":
        defs = [n for n in fn.events("S") if T.strip(n.ev["lhs"]).get("k") == "v" and T.strip(n.ev["lhs"])["n"] == e0["n"]]
        if not defs:
            return False
        for d in defs:
            r = d.ev.get("rhs")
            if d.ev["o"] not in ("=", "|=") or not isinstance(r, dict) or T.const(r) is None or macro in T.macros(r):
                return False
        return True
    return False


def nonwriting_call(fn, n):
    """context filter for MAY(write request): calls that cannot write in the way they are made"""
    if is_call(n, "ext2fs_rw_bitmaps"):
        return never_has_macro(fn, arg(n, 1), "EXT2FS_BITMAPS_WRITE")
    if is_call(n, "ext2fs_zero_blocks2", "ext2fs_zero_blocks"):
        return T.const(arg(n, 0)) == 0               # (NULL, …): only releases the static zero buffer
    if is_call(n, "ext2fs_open", "ext2fs_open2"):
        fl = arg(n, 1) if is_call(n, "ext2fs_open") else arg(n, 2)
        c = T.const(fl)
        return c is not None and (c & 1) == 0        # without EXT2_FLAG_RW
    return effects.nondevice_call(fn, n)             # writes to the undo file are not device writes


def run(world, rep, tier, only=None):
    prog = world.program("resize2fs")
    rf = prog.fn("resize_fs", RZ)
    # sanity of the context filter: EXT2FS_BITMAPS_WRITE is bit 0 and the read wrappers never pass it
    rb = prog.fn("ext2fs_read_bitmaps")
    for n in calls_to(rb, "ext2fs_rw_bitmaps"):
        rep.ob("C08.a", site(rb, "read wrapper passes no WRITE flag"),
               never_has_macro(rb, arg(n, 1), "EXT2FS_BITMAPS_WRITE"),
               "ext2fs_read_bitmaps -> ext2fs_rw_bitmaps(fs, %s): no definition of the flags mentions EXT2FS_BITMAPS_WRITE" % T.pp(arg(n, 1)))
    may_w = prog.may(lambda f, n: effects.is_write_req(f, n), skip_call=nonwriting_call)

    def may_write(fn, n):
        if effects.is_write_req(fn, n):
            return True
        if nonwriting_call(fn, n):
            return False
        return any(g.key in may_w for g in prog.callees(fn, n.ev["x"]))

    # ------------------------------------------------------------------ C08.a
    sets = [n for n in rf.events("S") if T.last_field(n.ev["lhs"]) == ("ext2_super_block", "s_state")
            and store_sets_bits(n, "EXT2_ERROR_FS") and (T.path(n.ev["lhs"]) or "").startswith("fs->")]
    marks = [n for n in calls_to(rf, "ext2fs_mark_super_dirty") if T.path(arg(n, 0)) == "fs"]
    flushes = [n for n in calls_to(rf, "ext2fs_flush", "ext2fs_flush2") if T.path(arg(n, 0)) == "fs"]
    dups = calls_to(rf, "ext2fs_dup_handle")
    rep.floor("C08.a dup_handle in resize_fs", len(dups), 1)
    rep.ob("C08.a", site(rf, "error flag set"), bool(sets), "fs->super->s_state |= EXT2_ERROR_FS exists")
    rep.ob("C08.a", site(rf, "superblock marked dirty"), bool(marks), "ext2fs_mark_super_dirty(fs) exists")
    rep.ob("C08.a", site(rf, "flag flushed"), bool(flushes), "ext2fs_flush(fs) exists")
    if sets and marks and flushes:
        # a flush that is dominated by a mark that is dominated by a set
        good_flush = [f for f in flushes if any(rf.dominated_by(f, [m]) and any(rf.dominated_by(m, [s]) for s in sets)
                                                for m in marks)]
        rep.ob("C08.a", site(rf, "set -> mark -> flush order"), bool(good_flush),
               "the flush is dominated by the dirty-mark, which is dominated by the store of EXT2_ERROR_FS")
        # nothing un-sets the flag or cleans the handle between the store and the flush
        for f in good_flush:
            for s in sets:
                between = rf.reach(rf.after(s), avoid=[f])
                undo = [n for n in between if n.ev and n.ev["e"] == "S" and
                        T.last_field(n.ev["lhs"]) == ("ext2_super_block", "s_state") and n is not s]
                rep.ob("C08.a", site(rf, "flag intact until flushed"), not undo,
                       "no other store to s_state between the set and the flush: %s" % [u.where() for u in undo])
        n_w = 0
        for n in rf.call_nodes():
            if n in good_flush:
                continue
            if may_write(rf, n) or n in dups:
                n_w += 1
                ok = rf.dominated_by(n, good_flush)
                wit = None
                if not ok:
                    p = rf.witness_path([rf.entry_node()], [n], avoid=good_flush)
                    wit = line_path(p) if p else None
                rep.ob("C08.a", site(rf, "flag on disk before %s" % _cn(n)) + "#%d" % _occ(rf, n), ok,
                       "`%s` (may write the device / duplicates the handle) is dominated by the flush of the error flag"
                       % n.text()[:50], wit)
        rep.floor("C08.a write-capable calls in resize_fs", n_w, 8)
        for f in good_flush:
            if not _result_used(rf, f):
                rep.note("C08.a: result of the first ext2fs_flush() in resize_fs is ignored (fault sequences are "
                         "outside C08's quantifier)")
    # the flush really writes the primary superblock: ext2fs_flush -> flush2 -> write_primary_superblock (MUST)
    fl2 = prog.fn("ext2fs_flush2")
    wps = calls_to(fl2, "write_primary_superblock")
    rep.floor("C08.c write_primary_superblock call", len(wps), 1)

    # ------------------------------------------------------------------ C08.b
    def clears(fn, n):
        return n.ev and n.ev["e"] == "S" and T.last_field(n.ev["lhs"]) == ("ext2_super_block", "s_state") and \
            store_clears_bits(n, "EXT2_ERROR_FS")
    # functions reachable from resize_fs
    reach = {rf.key}
    stack = [rf]
    while stack:
        f = stack.pop()
        for (_n, g) in prog.all_callees(f):
            if g.key not in reach:
                reach.add(g.key)
                stack.append(g)
    cl = []
    for f in prog.functions():
        if f.key in reach:
            for n in f.nodes():
                if clears(f, n):
                    cl.append((f, n))
    rep.ob("C08.b", site(rf, "error flag cleared at the end"), any(f is rf for f, n in cl),
           "resize_fs clears EXT2_ERROR_FS on the new handle")
    for (f, n) in cl:
        rep.ob("C08.b", site(f, "clears EXT2_ERROR_FS"), f is rf,
               "among the %d functions reachable from resize_fs only resize_fs may clear the flag (%s)" %
               (len(reach), n.where()))
    for (f, n) in cl:
        if f is not rf:
            continue
        closes = [c for c in calls_to(rf, "ext2fs_close_free", "ext2fs_close", "ext2fs_close2")
                  if (T.path(arg(c, 0)) or "").endswith("new_fs")]
        after = rf.reach(rf.after(n))
        writers = [x for x in after if x.ev and x.ev["e"] == "C" and may_write(rf, x) and x not in closes]
        rep.ob("C08.b", site(rf, "only the final close writes after the clear"), not writers and bool(closes),
               "after EXT2_ERROR_FS is cleared the only write-capable call is ext2fs_close_free(&rfs->new_fs): %s" %
               [w.text()[:40] for w in writers[:3]])
        # the clear is dominated by every phase call (it is the last thing): all write-capable calls precede it
        before_missing = [x for x in rf.call_nodes() if may_write(rf, x) and x not in closes and
                          not (n in rf.reach(rf.after(x)))]
        rep.ob("C08.b", site(rf, "clear comes after every phase"), not before_missing,
               "every write-capable call can reach the clear (none is skipped past it)")
        # error exits between the flag flush and the clear never clear: errout region has no clear
        eb = rf.label_block("errout")
        if eb is not None:
            er = rf.reach([rf.node(eb, 0)])
            rep.ob("C08.b", site(rf, "error exit keeps the flag"), not any(clears(rf, x) for x in er) and
                   not any(x.ev and x.ev["e"] == "C" and is_call(x, "ext2fs_close_free", "ext2fs_close", "ext2fs_flush")
                           for x in er),
                   "the errout path neither clears EXT2_ERROR_FS nor flushes the new handle")

    # ------------------------------------------------------------------ C08.c flush2 ordering
    def sync_and_ok(nn, si, m):
        lit = fl2.literal(nn.bid)
        if lit is None:
            return True
        truth = lit[1] if si == 0 else (not lit[1])
        if lit_tests_bit(lit[0], "EXT2_FLAG_FLUSH_NO_SYNC", "flags"):
            return not truth
        return True
    ioflush = [n for n in calls_to(fl2, "io_channel_flush", "struct_io_manager.flush")]
    for w in wps:
        r = fl2.reach(fl2.after(w))
        later = [n for n in r if n.ev and n.ev["e"] == "C" and effects.is_write_req(fl2, n)]
        later += [n for n in r if n.ev and n.ev["e"] == "C" and n not in wps and
                  any(g.key in may_w for g in prog.callees(fl2, n.ev["x"])) and not is_call(n, "io_channel_flush")]
        rep.ob("C08.c", site(fl2, "primary superblock is the last block written"), not later,
               "no write request is reachable after write_primary_superblock: %s" % [x.text()[:40] for x in later[:3]])
        pre = [f for f in ioflush if w in fl2.reach(fl2.after(f))]
        r0 = fl2.reach([fl2.entry_node()], avoid=set(pre), edge_ok=sync_and_ok)
        rep.ob("C08.c", site(fl2, "flush before the primary superblock"), bool(pre) and w not in r0,
               "unless EXT2_FLAG_FLUSH_NO_SYNC, io_channel_flush dominates write_primary_superblock")
        post = [f for f in ioflush if f in r]

        def ok_edges(nn, si, m):
            if not sync_and_ok(nn, si, m):
                return False
            lit = fl2.literal(nn.bid)
            if lit and T.path(lit[0]) == "retval":
                truth = lit[1] if si == 0 else (not lit[1])
                return not truth
            return True
        r1 = fl2.reach(fl2.after(w), avoid=set(post), edge_ok=ok_edges)
        rep.ob("C08.c", site(fl2, "flush after the primary superblock"), bool(post) and fl2.exit_node() not in r1,
               "on success, unless NO_SYNC, a second io_channel_flush follows the superblock write")
        # group descriptors / backups are written before it
        wr = [n for n in fl2.call_nodes() if (effects.is_write_req(fl2, n) or is_call(n, "write_backup_super"))]
        rep.floor("C08.c descriptor/backup writes in flush2", len(wr), 3)
        rep.ob("C08.c", site(fl2, "descriptors and backups before the primary"),
               all(w in fl2.reach(fl2.after(x)) for x in wr),
               "%d descriptor/backup write sites all precede write_primary_superblock" % len(wr))
    # s_state written to disk is the in-memory state except for the VALID bit handling: the shadow
    # restores fs_state before the primary write (so a cleared ERROR flag is not resurrected and vice versa)
    st = [n for n in fl2.events("S") if T.last_field(n.ev["lhs"]) == ("ext2_super_block", "s_state")]
    bad = [n for n in st if store_clears_bits(n, "EXT2_ERROR_FS") or store_sets_bits(n, "EXT2_ERROR_FS")]
    rep.ob("C08.c", site(fl2, "flush2 does not touch EXT2_ERROR_FS"), not bad,
           "no store in ext2fs_flush2 sets or clears EXT2_ERROR_FS: %s" % [b.where() for b in bad])

    # ------------------------------------------------------------------ C08.d refusal writes nothing
    main = prog.fn("main", "resize/main.c")
    opens = calls_to(main, "ext2fs_open2", "ext2fs_open")
    rep.floor("C08.d open in resize main", len(opens), 1)
    doers = calls_to(main, "resize_fs", "online_resize_fs")
    rep.floor("C08.d resize_fs/online_resize_fs calls", len(doers), 2)
    may_d = prog.may(lambda f, n: effects.is_write_req(f, n) or effects.is_dirty_mark(f, n), skip_call=nonwriting_call,
                     stop=lambda f: f.name in ("ext2fs_close_free", "ext2fs_close2", "ext2fs_close", "ext2fs_flush2",
                                               "ext2fs_flush", "ext2fs_free"))
    for o in opens:
        r = main.reach(main.after(o), avoid=set(doers))
        bad = []
        for n in r:
            if not (n.ev and n.ev["e"] in ("C", "S")):
                continue
            if effects.is_write_req(main, n) or effects.is_dirty_mark(main, n):
                bad.append((n, ["direct"]))
            elif n.ev["e"] == "C" and not nonwriting_call(main, n):
                for g in prog.callees(main, n.ev["x"]):
                    if g.key in may_d:
                        bad.append((n, prog.may_chain(may_d, g.key)))
                        break
        # stores into the superblock on refusal paths count too
        for n in r:
            if n.ev and n.ev["e"] == "S" and (T.last_field(n.ev["lhs"]) or ("", ""))[0] == "ext2_super_block":
                bad.append((n, ["store to superblock field"]))
        # a site is acceptable only if every exit reachable from it passes a doer (it is on the way to the
        # actual resize, not on a refusal path)
        real = []
        for (n, chain) in bad:
            rr = main.reach(main.after(n), avoid=set(doers) | prog.noreturn_nodes(main))
            leaves = main.exit_node() in rr or any(x in rr for x in calls_to(main, "exit") if x is not n) or \
                any(main.succ(x) == [] and x in rr for x in prog.noreturn_nodes(main))
            # exits through noreturn nodes: recompute reach without avoiding them
            rr2 = main.reach(main.after(n), avoid=set(doers))
            leaves = main.exit_node() in rr2 or any(x in rr2 for x in prog.noreturn_nodes(main)
                                                    if not is_call(x, "bigalloc_check"))
            if leaves:
                real.append((n, chain))
        rep.ob("C08.d", site(main, "refusal paths neither write nor dirty the handle"), not real,
               "between ext2fs_open2 and any exit that skips resize_fs/online_resize_fs there is no write request, "
               "dirty-mark or superblock store: %s" % [(b[0].where(), b[0].text()[:40], b[1][:2]) for b in real[:4]],
               [b[0].where() for b in real[:6]] or None)
    # 'Please run e2fsck -f first' dominates resize_fs under !force
    chk = [b for b in main.blocks if main.literal(b) and T.path(main.literal(b)[0]) == "checkit"]
    rep.ob("C08.d", site(main, "unchecked fs refused unless forced"), bool(chk),
           "the checkit test exists")
    for b in chk[:1]:
        end = main.block_end(b)
        lit = main.literal(b)
        # the refusing edge (checkit true) must not reach a doer
        si = 0 if lit[1] else 1
        succ = main.blocks[b]["s"][si]
        r = main.reach([main.node(succ, 0)])
        rep.ob("C08.d", site(main, "checkit refusal does not resize"), not any(d in r for d in doers),
               "the 'Please run e2fsck -f first' arm never reaches resize_fs")



    # ------------------------------------------------------------------ C08.e renumbered directories are rewritten completely
    # (shared with C10.b) a shrink that renumbers a directory must rewrite every one of its blocks, because with
    # metadata_csum the block checksum is seeded with the inode number: the fix-up callback therefore reports
    # DIRENT_CHANGED before it looks at the entry's inode, and only sees blocks holding nothing but unused entries
    # when the iteration includes them
    from rules import C10
    es = [s_ for s_ in C10.empty_entry_sites(prog) if s_[0].file.startswith("resize/")]
    rep.floor("C08.e directory walks of resize2fs whose callback needs unused entries", len(es), 1)
    for (f, c_, g, why, ok, fl) in es:
        rep.ob("C08.e", site(f, "%s is shown unused entries too" % g.name), ok,
               "%s %s: flags `%s` contain DIRENT_FLAG_INCLUDE_EMPTY" % (g.name, why, T.pp(fl)[:30]))

    # ------------------------------------------------------------------ C08.f the block walk's inode update is not overwritten
    # ext2fs_block_iterate3() writes the inode itself when the relocation callback reports BLOCK_CHANGED for a pointer
    # held in i_block; the scan's own copy (which carries the old pointers) must not be written after the walk.
    n_f = 0
    for f in prog.functions():
        if not f.file.startswith("resize/"):
            continue
        for (m, w_, stale) in stale_inode_writes(f):
            n_f += 1
            rep.ob("C08.f", site(f, "inode written at line %d is fresh after %s" % (w_.line, _cn(m))), not stale,
                   "every path from `%s` (line %d) to `%s` re-reads the inode into the written copy" %
                   (m.text()[:30], m.line, w_.text()[:40]))
    rep.floor("C08.f walk-then-write pairs in resize2fs", n_f, 2)

    # ------------------------------------------------------------------ C08.g a relocated inode table is written in full unless it moves up
    # move_itables() may leave the all-zero tail of a table unwritten only when the table moves up by less than that
    # tail (the new tail then lies on zeros); whatever shortens the write must sit under a test that the move is upward.
    mi = prog.fn("move_itables", RZ)
    wr_new = [n for n in calls_to(mi, "io_channel_write_blk64") if T.path(arg(n, 1)) == "new_blk"]
    rep.floor("C08.g write of the table at its new place in move_itables", len(wr_new), 1)
    for i, wn in enumerate(wr_new):
        cnt = T.path(arg(wn, 2))
        shorter = [n for n in mi.events("S") if cnt and T.path(n.ev["lhs"]) == cnt and n.ev.get("o") in ("-=", "--")]
        if not shorter:
            rep.ob("C08.g", site(mi, "table written at its new place#%d" % i),
                   bool(cnt) and any(T.last_field(n.ev.get("rhs") or {}) and T.last_field(n.ev["rhs"])[1] == "inode_blocks_per_group"
                                     for n in mi.events("S") if T.path(n.ev["lhs"]) == cnt) or
                   (T.last_field(arg(wn, 2)) or ("", ""))[1] == "inode_blocks_per_group",
                   "the count is inode_blocks_per_group and nothing shortens it")
        for j, sn in enumerate(shorter):
            def upward(t, a):
                a0 = T.strip(a)
                if not (isinstance(a0, dict) and a0.get("k") == "b"):
                    return False
                l, r, o = a0.get("l"), a0.get("r"), a0.get("o")
                def is_diff(x):
                    x = resolve_local(mi, x)
                    x0 = T.strip(x)
                    return isinstance(x0, dict) and x0.get("k") == "b" and x0.get("o") == "-" and \
                        T.path(x0.get("l")) == "new_blk" and T.path(x0.get("r")) == "old_blk"
                if is_diff(l) and T.const(r) == 0:
                    return (o == ">" and t) or (o == "<=" and not t)
                if is_diff(r) and T.const(l) == 0:
                    return (o == "<" and t) or (o == ">=" and not t)
                if T.path(l) == "new_blk" and T.path(r) == "old_blk":
                    return (o == ">" and t) or (o == "<=" and not t)
                if T.path(l) == "old_blk" and T.path(r) == "new_blk":
                    return (o == "<" and t) or (o == ">=" and not t)
                return False
            lits = control_lits(mi, sn)
            rep.ob("C08.g", site(mi, "shortened table write only for an upward move#%d.%d" % (i, j)),
                   any(upward(t, a) for t, a in lits),
                   "`%s` (line %d) lies under `new_blk - old_blk > 0`: guards %s" %
                   (sn.text()[:20], sn.line, [("" if t else "!") + T.pp(a)[:30] for t, a in lits][-3:]))

    # ------------------------------------------------------------------ C08.i a renumbered inode takes the superblock's reference along
    # Shrinking gives inodes of the groups that go away new numbers; directory entries and EA references are rewritten
    # through the inode map.  The superblock, too, names inodes by number (quota files, the orphan file): for every
    # such field (the *_inum fields of the on-disk superblock other than the journal's, which is a reserved inode) the
    # routine that renumbers stores the new number.
    isf = prog.fn("inode_scan_and_fix", RZ)
    sbrec = world.records.get("ext2_super_block") or {}
    # (s_journal_inum: a reserved inode, never renumbered; s_snapshot_inum: a feature e2fsprogs neither creates nor resizes)
    inum_fields = sorted(f_["n"] for f_ in sbrec.get("fields", []) if f_["n"].endswith("_inum") and
                         f_["n"] not in ("s_journal_inum", "s_snapshot_inum"))
    rep.floor("C08.i inode-number fields of the superblock", len(inum_fields), 3)
    maps = calls_to(isf, "ext2fs_add_extent_entry")
    rep.floor("C08.i inode map entries in inode_scan_and_fix", len(maps), 1)
    for fld in inum_fields:
        st = [n for n in isf.events("S") if T.last_field(n.ev["lhs"]) == ("ext2_super_block", fld) and
              T.path(n.ev.get("rhs")) is not None and any(T.path(n.ev.get("rhs")) == T.path(arg(m, 2)) for m in maps)]
        rep.ob("C08.i", site(isf, "superblock field %s follows a renumbered inode" % fld), bool(st),
               "inode_scan_and_fix() stores the new inode number into super->%s" % fld)

    # ------------------------------------------------------------------ C08.j a shortened bad-block list reaches the bad-block inode
    # block_mover() does not move bad blocks that are in the way (beyond the new end, under new metadata): it takes them
    # off the list and sets bb_modified.  On every path on which it then reports success the list is written back with
    # ext2fs_update_bb_inode() - also when nothing else had to move - or inode 1 keeps mapping blocks past the end.
    bmv = prog.fn("block_mover", RZ)
    marks_ = [n for n in bmv.events("S") if T.path(n.ev["lhs"]) == "bb_modified" and T.const(n.ev.get("rhs")) not in (None, 0) or
              (T.path(n.ev["lhs"]) == "bb_modified" and n.ev.get("o") in ("++", "+="))]
    upd = calls_to(bmv, "ext2fs_update_bb_inode")
    rep.floor("C08.j bb_modified marks / write-back in block_mover", min(len(marks_), len(upd)), 1)
    exj = absint.Explorer(bmv, prog)
    for i, m_ in enumerate(marks_):
        # what is known where the mark is made: the flag is non-zero from here on, and so is every variable a
        # controlling test of the mark found non-zero (the list itself)
        env0 = {"bb_modified": "NZ"}
        for t, a_ in control_lits(bmv, m_):
            if t is True and T.path(a_) and T.strip(a_).get("k") == "v":
                env0[T.path(a_)] = "NZ"
            # a membership test that answered "yes" was asked of an existing list
            a0_ = T.strip(a_)
            if t is True and isinstance(a0_, dict) and a0_.get("k") == "c" and (a0_.get("fn") or "").endswith("_test"):
                for x_ in a0_.get("a", [])[:1]:
                    if T.path(x_) and T.strip(x_).get("k") == "v":
                        env0[T.path(x_)] = "NZ"
        # (the flag only ever goes up - no store lowers it - so a later test of it has one outcome)
        lowered = [n for n in bmv.events("S") if T.path(n.ev["lhs"]) == "bb_modified" and n.ev.get("o") in ("--", "-=") or
                   (T.path(n.ev["lhs"]) == "bb_modified" and n.ev.get("o") == "=" and n is not m_ and bmv.entry_node() not in bmv.reach_back([n], avoid=[m_]))]

        def still_set(nn, si, m, _f=bmv):
            lit = _f.literal(nn.bid)
            if lit and T.path(lit[0]) == "bb_modified" and not lowered:
                return ((si == 0) == lit[1])
            return True
        terms = exj.run(bmv.after(m_), env0=env0, edge_ok=still_set,
                        on_node=lambda node, env, fl, _u=set(upd): (fl | {"written"}) if node in _u else fl)
        quiet = sorted({node.line for (node, env, fl, st) in terms if node.ev and node.ev["e"] == "R" and "written" not in fl and
                        not absint._nz(exj.eval(node.ev.get("x"), env))})
        rep.ob("C08.j", site(bmv, "shortened bad-block list written back on every successful return#%d" % i), not quiet,
               "returns that may be 0 after `bb_modified` was set without ext2fs_update_bb_inode(): lines %s" % quiet)

    # ------------------------------------------------------------------ C08.h a helper that changes the caller's inode says so
    # migrate_ea_block() re-points i_file_acl in the inode copy it is given; inode_scan_and_fix() writes that copy back
    # only when the helper raised *changed.  Every successful return after the re-pointing must have raised it.
    me = prog.fn("migrate_ea_block", RZ)
    sets = calls_to(me, "ext2fs_file_acl_block_set")
    rep.floor("C08.h re-pointing of i_file_acl in migrate_ea_block", len(sets), 1)
    flagp = me.params[3] if len(me.params) > 3 else None
    raises = [n for n in me.events("S") if isinstance(T.strip(n.ev["lhs"]), dict) and T.strip(n.ev["lhs"]).get("k") == "u" and
              T.strip(n.ev["lhs"]).get("o") == "*" and T.path(n.ev["lhs"]) == flagp and absint._nz(("C", T.const(n.ev.get("rhs")))
              if T.const(n.ev.get("rhs")) is not None else None)]
    for i, s_ in enumerate(sets):
        ex = absint.Explorer(me, prog)
        terms = ex.run([s_], on_node=lambda node, env, flags, _r=raises: flags | {"raised"} if node in _r else flags, skip_start_event=False)
        quiet = sorted({node.line for (node, env, fl, st) in terms if node.ev and node.ev["e"] == "R" and "raised" not in fl and
                        not absint._nz(ex.eval(node.ev.get("x"), env))})
        rep.ob("C08.h", site(me, "*%s raised on every successful return after i_file_acl was re-pointed#%d" % (flagp, i)),
               bool(raises) and not quiet, "returns that may be 0 and have not stored a non-zero *%s: lines %s" % (flagp, quiet))

def _cn(n):
    return T.call_names(n.ev["x"])[0] if T.call_names(n.ev["x"]) else "?"


def _occ(fn, node):
    nm = _cn(node)
    same = sorted([n for n in fn.call_nodes() if _cn(n) == nm], key=lambda n: (n.line, n.bid, n.idx))
    return same.index(node)


def _result_used(fn, n):
    cid = n.ev["x"].get("id")
    for m in fn.nodes():
        if m is n:
            continue
        trees = []
        if m.ev:
            if m.ev["e"] == "S":
                trees.append(m.ev.get("rhs"))
            elif m.ev["e"] == "R":
                trees.append(m.ev.get("x"))
        else:
            t = fn.blocks[m.bid].get("t")
            if t:
                trees.append(t.get("c"))
        for tr in trees:
            if isinstance(tr, dict) and any(x.get("k") == "c" and x.get("id") == cid for x in T.walk(tr)):
                return True
    return False
