"""C13.h/i - the consent analysis over e2fsck: is a node reached only past something `e2fsck -n` cannot give?

A *consent* is a branch literal taken in the direction that -n excludes:
  !(options & E2F_OPT_READONLY), !(options & E2F_OPT_NO), options & E2F_OPT_PREEN   (PRS is checked for what links them)
  fix_problem(...) answered yes     (0 under -n for every row but PROMPT_NONE|PR_NOCOLLATE; 0 for a code without a row)
  a field, bit of a flag word, local or return value of in-memory state that is itself set only past a consent
A node is past a consent when the entry of its function does not reach it once the consenting edges are cut, or when
every caller is (callbacks: the call their address is handed to, else the calls through the slot they are stored in).
Evaluation is a least fixpoint: a question re-entered while it is being answered counts as `no'."""
from vlib import tree as T
from vlib import problems, taint
from vlib.rulelib import (resolve_local, lit_tests_bit, store_sets_bits)


# membership tests on, and insertions into, the lists and bitmaps e2fsck keeps in its context
TESTERS = ("ext2fs_u32_list_test", "ext2fs_test_inode_bitmap2", "ext2fs_test_block_bitmap2", "ext2fs_fast_test_inode_bitmap2",
           "ext2fs_fast_test_block_bitmap2")
ADDERS = ("ext2fs_u32_list_add", "ext2fs_mark_inode_bitmap2", "ext2fs_mark_block_bitmap2", "ext2fs_fast_mark_inode_bitmap2",
          "ext2fs_fast_mark_block_bitmap2", "ext2fs_mark_block_bitmap_range2")
RELEASERS = ("ext2fs_free_mem", "ext2fs_free_inode_bitmap", "ext2fs_free_block_bitmap", "ext2fs_u32_list_free", "free")


class _CallAt:
    """a call expression standing in for its node (problems.codes_at reads .ev["x"] only)"""
    def __init__(self, c):
        self.ev = {"e": "C", "x": c}


def _fld(e):
    """(record, field, element?) of a member expression or of an element of a member array"""
    e = T.strip(e)
    el = False
    while isinstance(e, dict) and e.get("k") == "x":
        e = T.strip(e["b"])
        el = True
    lf = T.last_field(e) if isinstance(e, dict) and e.get("k") == "m" else None
    return (lf[0], lf[1], el) if lf else None


class Consent:
    def __init__(self, world, ef, bycode, excluded=("E2F_OPT_PREEN",)):
        self.world, self.ef, self.bycode = world, ef, bycode
        self.excluded = tuple(excluded)      # option bits that PRS never leaves set together with E2F_OPT_NO
        import sys
        sys.setrecursionlimit(max(sys.getrecursionlimit(), 20000))      # the questions nest as deep as the call chains
        self.true = {}
        self.open = {}
        self.fresh = []
        self.deps = {}
        self._deps_stack = []
        self.rounds = 0
        self._stores_by_field = None
        self._calls_by_field = None
        self._addr_callers = None

    # ------------------------------------------------------------------ fixpoint plumbing
    # Chaotic iteration from below: a question is `no' until an evaluation that only looks at established answers
    # says `yes'.  Asking registers the question; solve() re-evaluates the open ones until nothing changes.
    def _ask(self, key, compute):
        if self._deps_stack:
            self._deps_stack[-1].add(key)
        if key in self.true:
            return (True, self.true[key])
        if key not in self.open:
            self.open[key] = compute
            self.fresh.append(key)
        return (False, "not established")

    def _eval(self, key):
        self._deps_stack.append(set())
        r = self.open[key]()
        self.deps[key] = self._deps_stack.pop()
        return r

    def solve(self):
        """re-evaluate an open question only when one of the answers it read has changed (or it is new)"""
        rounds = 0
        todo = list(self.open)
        self.fresh = []
        while todo:
            rounds += 1
            became = set()
            for key in todo:
                if key not in self.open:
                    continue
                r = self._eval(key)
                if r[0]:
                    self.true[key] = r[1]
                    del self.open[key]
                    became.add(key)
            new = self.fresh
            self.fresh = []
            todo = list(dict.fromkeys(new + [k for k in self.open if self.deps.get(k, set()) & became]))
        self.rounds += rounds

    def explain(self, key):
        """the answer's reason after solve(): why yes, or the first thing missing"""
        if key in self.true:
            return (True, self.true[key])
        if key in self.open:
            return self.open[key]()
        return (False, "never asked")

    # ------------------------------------------------------------------ indexes
    def stores(self, lf2):
        if self._stores_by_field is None:
            d = {}
            for g in self.ef.functions():
                for n in g.events("S"):
                    l = _fld(n.ev["lhs"])
                    if l:
                        d.setdefault(l[:2], []).append((g, n, l[2]))
            self._stores_by_field = d
        return self._stores_by_field.get(lf2, [])

    def callers(self, fn):
        cs = list(self.ef.callers().get(fn.key, []))
        if cs:
            return cs
        if self._addr_callers is None:
            ac, sc = {}, {}
            for g in self.ef.functions():
                for cn in g.call_nodes():
                    for a in cn.ev["x"].get("a", []):
                        v = T.strip(a)
                        while isinstance(v, dict) and v.get("k") == "u" and v.get("o") in ("&", "*"):
                            v = T.strip(v["e"])
                        if isinstance(v, dict) and v.get("k") == "fn":
                            ac.setdefault(v["n"], []).append((g, cn))
            for g in self.ef.functions():
                for cn in g.call_nodes():
                    s = cn.ev["x"].get("slot")
                    if s:
                        for (nm, _u) in self.ef.slots().get((s.get("r", ""), s.get("f")), ()):
                            if nm not in ac:       # a callback handed over as an argument runs on behalf of that call
                                sc.setdefault(nm, []).append((g, cn))
            for nm, v in sc.items():
                ac.setdefault(nm, []).extend(v)
            self._addr_callers = ac
        return list(self._addr_callers.get(fn.name, []))

    # ------------------------------------------------------------------ the questions
    def site_key(self, fn, node):
        return ("site", fn.key, node.bid, id(node))

    def site(self, fn, node):
        return self._ask(self.site_key(fn, node), lambda: self._site(fn, node))

    def _site(self, fn, node):
        why = []

        def open_edge(nn, si, m):
            lit = fn.literal(nn.bid)
            if not lit:
                return True
            truth = lit[1] if si == 0 else (not lit[1])
            w = self.literal(fn, nn.bid, truth)
            if w[0]:
                why.append(w[1])
                return False
            return True
        if node not in fn.reach([fn.entry_node()], edge_ok=open_edge):
            return True, "past " + " / ".join(sorted(set(why)))[:200]
        callers = self.callers(fn)
        if not callers:
            if fn.name == "main":
                return False, "reachable without a consent"
            if fn.name in self.world.addr_taken:
                return False, "address taken, callers unknown"
            return True, "never called in e2fsck"
        rs = [(cf, cn, self.site(cf, cn)) for (cf, cn) in callers]
        for (cf, cn, (ok, w)) in rs:
            if not ok:
                return False, "caller %s:%d is not past a consent" % (cf.name, cn.line)
        return True, "all callers: " + "; ".join("%s: %s" % (cf.name, w) for (cf, cn, (ok, w)) in rs)[:300]

    def literal(self, fn, bid, truth):
        return self._ask(("lit", fn.key, bid, truth), lambda: self._literal(fn, fn.literal(bid)[0], truth))

    def _literal(self, fn, atom, truth):
        a = resolve_local(fn, atom)
        for (mac, want) in (("E2F_OPT_READONLY", False), ("E2F_OPT_NO", False)) + tuple((m, True) for m in self.excluded):
            if lit_tests_bit(a, mac, "options") and truth == want:
                return True, ("" if want else "!") + "(options & %s)" % mac
        a0 = T.strip(a)
        while isinstance(a0, dict) and a0.get("k") == "b" and a0.get("o") in ("==", "!=") and T.const(a0["r"]) == 0 and \
                not (isinstance(T.strip(a0["r"]), dict) and T.strip(a0["r"]).get("k") == "v"):
            truth = truth if a0["o"] == "!=" else (not truth)          # X == 0 is !X
            a0 = T.strip(resolve_local(fn, a0["l"]))
        if not truth or not isinstance(a0, dict):
            return False, ""
        if a0.get("k") == "c" and a0.get("fn") == "fix_problem":
            codes, res = problems.codes_at(fn, _CallAt(a0), self.ef)
            if not res:
                codes, res = self._codes_through_calls(fn, a0)
            by = self.bycode
            if res and codes and all(v not in by or by[v].prompt != 0 or "PR_NOCOLLATE" not in by[v].flag_names
                                     for v, _ in codes):
                return True, "accepted fix_problem(%s)" % ",".join(sorted(nm or hex(v) for v, nm in codes))
            return False, ""
        if a0.get("k") == "c" and a0.get("fn") in TESTERS and a0.get("a"):
            lfc = _fld(a0["a"][0])
            if lfc and lfc[0] not in taint.ONDISK and self.container(lfc[:2])[0]:
                return True, "%s.%s receives members only past a consent" % lfc[:2]
            return False, ""
        bt = T.bits_test(a0)
        if bt:
            x, k, ms = bt
            lfb = _fld(x)
            ms = [m for m in ms if not m.startswith("__")]
            if lfb and ms and lfb[0] not in taint.ONDISK and all([self.bit(lfb[:2], m)[0] for m in ms]):
                return True, "%s.%s & %s is set only past a consent" % (lfb[0], lfb[1], "|".join(sorted(ms)))
            return False, ""
        if a0.get("k") == "v" and a0.get("s") == "l":
            if self.local(fn, a0["n"])[0]:
                return True, "local %s is set only past a consent" % a0["n"]
            return False, ""
        lf = _fld(a0)
        if lf:
            if lf[0] not in taint.ONDISK and self.field(lf)[0]:
                return True, "%s.%s is set only past a consent" % lf[:2]
            return False, ""
        K, v = None, a0
        if a0.get("k") == "b" and a0.get("o") == "==" and T.const(a0["r"]) not in (None, 0):
            K, v = T.const(a0["r"]), T.strip(resolve_local(fn, a0["l"]))
        elif a0.get("k") == "b" and a0.get("o") in ("<", ">", "!=") and T.const(a0["r"]) == 0:
            K, v = a0["o"], T.strip(resolve_local(fn, a0["l"]))
        if isinstance(v, dict) and v.get("k") == "c" and v.get("fn"):
            gs = self.ef.lookup(v["fn"], fn)
            if gs and all([g.file.startswith("e2fsck/") and self.ret(g, K)[0] for g in gs]):
                return True, "%s() returns %s only past a consent" % (v["fn"], K if K is not None else "non-zero")
        return False, ""

    def _ret_consts(self, g):
        """constants g may return, or None"""
        out = set()
        for r in g.events("R"):
            x = T.strip(r.ev.get("x")) if isinstance(r.ev.get("x"), dict) else None
            if x is None:
                return None
            c = T.const(x)
            if c is not None and x.get("k") != "v":
                out.add(c)
                continue
            if not (x.get("k") == "v" and x.get("s") in ("l", "sl")):
                return None
            for n in g.events("S"):
                l = T.strip(n.ev["lhs"])
                if isinstance(l, dict) and l.get("k") == "v" and l["n"] == x["n"]:
                    cv = T.const(n.ev.get("rhs")) if n.ev.get("o") == "=" else None
                    if cv is None:
                        return None
                    out.add(cv)
        return out

    def _var_consts(self, fn, name, depth=0):
        """constants a local may hold: its definitions are constants, other such locals (an absorbed helper's result
        variable), or results of functions returning constants; None when some definition is something else"""
        out = set()
        for n in fn.events("S"):
            l = T.strip(n.ev["lhs"])
            if not (isinstance(l, dict) and l.get("k") == "v" and l["n"] == name):
                continue
            if n.ev.get("o") != "=":
                return None
            r = T.strip(n.ev.get("rhs")) if isinstance(n.ev.get("rhs"), dict) else None
            c = T.const(r) if r is not None else None
            if c is not None and r.get("k") != "v":
                out.add(c)
                continue
            if isinstance(r, dict) and r.get("k") == "v" and r.get("s") in ("l", "sl") and r["n"] != name and depth < 3:
                sub = self._var_consts(fn, r["n"], depth + 1)
                if sub is None:
                    return None
                out |= sub
                continue
            if isinstance(r, dict) and r.get("k") == "c" and r.get("fn"):
                gs = self.ef.lookup(r["fn"], fn)
                cs = [self._ret_consts(g) for g in gs]
                if gs and all(x is not None for x in cs):
                    for x in cs:
                        out |= x
                    continue
            return None
        return out

    def _codes_through_calls(self, fn, call):
        """the code argument is a local whose definitions are constants or results of functions returning constants"""
        a = call.get("a", [])
        e = T.strip(a[1]) if len(a) >= 2 else None
        if not (isinstance(e, dict) and e.get("k") == "v" and e.get("s") in ("l", "sl")):
            return set(), False
        vs = self._var_consts(fn, e["n"])
        if not vs:
            return set(), False
        return {(v, "") for v in vs}, True

    def _calls_on(self, lf2):
        """[(fn, call node, callee name, by address?)] : calls that are handed the field (or its address) first"""
        if self._calls_by_field is None:
            d = {}
            for g in self.ef.functions():
                for cn in g.call_nodes():
                    for i, a_ in enumerate(cn.ev["x"].get("a", [])):
                        v = T.strip(a_)
                        by_addr = False
                        if isinstance(v, dict) and v.get("k") == "u" and v.get("o") == "&":
                            v, by_addr = T.strip(v["e"]), True
                        if not by_addr and i > 0:
                            continue              # by value: the container is the first argument
                        l = _fld(v)
                        if l and not l[2]:
                            for nm in T.call_names(cn.ev["x"])[:1]:
                                d.setdefault(l[:2], []).append((g, cn, nm, by_addr))
            self._calls_by_field = d
        return self._calls_by_field.get(lf2, [])

    def container(self, lf2):
        """every call that puts a member into the list / bitmap held in the field is past a consent"""
        def compute():
            adds = [(g, cn) for (g, cn, nm, ba) in self._calls_on(lf2) if nm in ADDERS]
            return (bool(adds) and all([self.site(g, cn)[0] for (g, cn) in adds]), "")
        return self._ask(("container", lf2), compute)

    def field(self, lf):
        """every store of a non-zero value to the field (element stores for an element test) is past a consent;
        a call that is handed the field's address (an out-parameter) counts as a store"""
        def compute():
            st = [(g, n) for (g, n, el) in self.stores(lf[:2]) if el == lf[2] and
                  not (n.ev.get("o") == "=" and T.const(n.ev.get("rhs")) == 0)]
            if not lf[2]:
                st += [(g, cn) for (g, cn, nm, ba) in self._calls_on(lf[:2]) if ba and nm not in RELEASERS]
            return (bool(st) and all([self.site(g, n)[0] for (g, n) in st]), "")
        return self._ask(("field",) + tuple(lf), compute)

    def bit(self, lf2, macro):
        """every store that may put the bit into the flag word is past a consent"""
        def compute():
            st = []
            for (g, n, el) in self.stores(lf2):
                if store_sets_bits(n, macro):
                    st.append((g, n))
                    continue
                o = n.ev.get("o")
                r = T.strip(n.ev.get("rhs")) if isinstance(n.ev.get("rhs"), dict) else None
                if o in ("&=",) or (o == "=" and (T.const(r) is not None or
                                                  (isinstance(r, dict) and r.get("k") == "b" and r.get("o") == "&"))):
                    continue              # clears, constants without the bit, masked copies of itself
                if o in ("|=", "^=") or o == "=":
                    ms = T.macros(n.ev.get("rhs") or {})
                    if o == "|=" and ms and T.const(r) is not None:
                        continue          # other named bits
                    st.append((g, None))  # a value of unknown bits
            if not st:
                return (False, "")
            return (all([n is not None and self.site(g, n)[0] for (g, n) in st]), "")
        return self._ask(("bit", lf2, macro), compute)

    def local(self, fn, name):
        def compute():
            st = []
            for n in fn.events("S"):
                l = T.strip(n.ev["lhs"])
                if isinstance(l, dict) and l.get("k") == "v" and l["n"] == name:
                    if n.ev.get("o") == "=" and T.const(n.ev.get("rhs")) == 0:
                        continue
                    if n.ev.get("o") == "=" and isinstance(n.ev.get("rhs"), dict) and \
                            self._literal(fn, n.ev["rhs"], True)[0]:
                        continue              # x = fix_problem(...): non-zero only with the consent
                    st.append(n)
            for c in fn.call_nodes():          # its address handed out: someone else may set it
                for a in c.ev["x"].get("a", []):
                    v = T.strip(a)
                    if isinstance(v, dict) and v.get("k") == "u" and v.get("o") == "&":
                        vv = T.strip(v["e"])
                        if isinstance(vv, dict) and vv.get("k") == "v" and vv["n"] == name:
                            return (False, "")
            import os
            if os.environ.get("C13_DEBUG") == name:
                print("LOCAL", fn.name, name, [(n.line, self.site(fn, n)[0]) for n in st])
            return (bool(st) and all([self.site(fn, n)[0] for n in st]), "")
        return self._ask(("local", fn.key, name), compute)

    def ret(self, g, K):
        """g returns K (K None: any non-zero value) only past a consent"""
        def compute():
            rets = list(g.events("R"))
            if not rets:
                return (False, "")
            hit = {None: (lambda c: c != 0), "!=": (lambda c: c != 0), "<": (lambda c: c < 0),
                   ">": (lambda c: c > 0)}.get(K, lambda c: c == K)
            for r in rets:
                x = T.strip(r.ev.get("x")) if isinstance(r.ev.get("x"), dict) else None
                c = T.const(x) if x is not None else None
                if c is not None and not (isinstance(x, dict) and x.get("k") == "v"):
                    if hit(c) and not self.site(g, r)[0]:
                        return (False, "")
                    continue
                if not (isinstance(x, dict) and x.get("k") == "v" and x.get("s") in ("l", "sl")):
                    # some other value: non-zero only with a consent, or the return statement is past one
                    if K in (None, "!=") and x is not None and self._literal(g, x, True)[0]:
                        continue
                    if not self.site(g, r)[0]:
                        return (False, "")
                    continue
                for n in g.events("S"):
                    l = T.strip(n.ev["lhs"])
                    if isinstance(l, dict) and l.get("k") == "v" and l["n"] == x["n"]:
                        cv = T.const(n.ev.get("rhs")) if n.ev.get("o") == "=" else None
                        if cv is None:
                            if n.ev.get("o") == "=" and isinstance(n.ev.get("rhs"), dict) and \
                                    self._literal(g, n.ev["rhs"], True)[0]:
                                continue          # x = fix_problem(...): non-zero only with the consent
                            if not self.site(g, n)[0]:
                                return (False, "")
                            continue
                        if hit(cv) and not self.site(g, n)[0]:
                            return (False, "")
            return (True, "")
        return self._ask(("ret", g.key, K), compute)
